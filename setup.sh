#!/bin/bash
# MANIFEST.setup_cmd: regenerate the source-derived model parts and build the whole Coq development (full .vo)
set -e
cd "$(dirname "$0")"
export PYTHONHASHSEED=0 PYTHONPATH="${VERIF_REPO:-/repo}" PYTHONDONTWRITEBYTECODE=1 PYTHONWARNINGS=ignore
mkdir -p .work evidence replay
/venv/bin/python -m harness.regen_all 2> >(grep -v 'conda.cli.condarc' >&2)
cd coq
timeout 3000 make -k -j16 2>&1 | tail -5
echo setup done
