(** With the table as it is regenerated NOW: ESC is INIT's only exact entry and INIT's any-entry is DoEmit -> INIT, hence
    every character but ESC is [emitted] (Ansi/Plain.v).  A finite check over the regenerated table lifted to all characters.
    Kept outside the dependencies of Props/C18.v on purpose: which control characters a terminal chooses to swallow is not
    part of property C18, so a change there must not fail its check. *)
From Coq Require Import ZArith NArith List Bool.
Import ListNotations.
From PV Require Import Screen.Model Ansi.Names Gen.AnsiTable Ansi.Model Ansi.Proofs Ansi.Plain.

Definition init_exact_only_esc : bool :=
  forallb (fun e : N * pst * (action * pst) => if pst_eqb S_INIT (snd (fst e)) then N.eqb (fst (fst e)) 27 else true) trans.

Lemma init_exact_only_esc_ok : init_exact_only_esc = true.
Proof. vm_compute. reflexivity. Qed.

Lemma init_any_is_emit : lookup_any S_INIT trans_any = Some (A_DoEmit, S_INIT).
Proof. vm_compute. reflexivity. Qed.

Lemma lookup_exact_entry c q l r : lookup_exact c q l = Some r -> In (c, q, r) l.
Proof.
  induction l as [|[[c' q'] r'] l IH]; cbn [lookup_exact]; [discriminate|].
  destruct (N.eqb c c' && pst_eqb q q') eqn:E.
  - intros [= ->]. apply andb_prop in E as [Ec Eq]. apply N.eqb_eq in Ec. subst c'.
    assert (q = q') as -> by (destruct q, q'; cbn in Eq; try discriminate Eq; reflexivity). now left.
  - intros H. right. now apply IH.
Qed.

Lemma init_transition c : c <> 27%N -> get_transition c S_INIT = (A_DoEmit, S_INIT).
Proof.
  intros Hc. unfold get_transition. destruct (lookup_exact c S_INIT trans) as [r|] eqn:E.
  - exfalso. apply lookup_exact_entry in E.
    pose proof init_exact_only_esc_ok as H. unfold init_exact_only_esc in H. rewrite forallb_forall in H.
    specialize (H _ E). cbn [fst snd] in H. cbn [pst_eqb] in H. apply N.eqb_eq in H. contradiction.
  - now rewrite init_any_is_emit.
Qed.

(** with the table as it is regenerated now, every character but ESC is emitted in INIT *)
Theorem all_but_esc_emitted c : c <> 27%N -> emitted c.
Proof. exact (init_transition c). Qed.


Corollary esc_free_text_is_emitted t a : pstate a = S_INIT -> ~ In 27%N t ->
  feed a t = Some (mkAnsi (fold_left write_ch t (scrn a)) S_INIT (stack a)).
Proof.
  intros Hq Hn. apply plain_text; [exact Hq|]. apply Forall_forall. intros c Hc. apply all_but_esc_emitted.
  intros ->. now apply Hn.
Qed.
Print Assumptions esc_free_text_is_emitted.
