(** Executable model of pexpect/ANSI.py + FSM.process on top of the screen model.  The transition
    table is Gen/AnsiTable.v (regenerated from the source on every run); the meaning of the actions and
    write_ch are written here after the Python.  No proofs here. *)
From Coq Require Import ZArith NArith List Bool Arith.
Import ListNotations.
From PV Require Import Screen.Model Ansi.Names Gen.AnsiTable.
Local Open Scope Z_scope.

(** fsm.memory = [screen] ++ reverse stack : the stack holds the digit strings, top first *)
Record ansi := mkAnsi { scrn : scr; pstate : pst; stack : list (list N) }.

(** FSM.get_transition: exact (symbol, state) entry, else the any-entry of the state, else the default *)
Fixpoint lookup_exact (c : N) (q : pst) (l : list (N * pst * (action * pst))) : option (action * pst) :=
  match l with
  | [] => None
  | (c', q', r) :: t => if N.eqb c c' && pst_eqb q q' then Some r else lookup_exact c q t
  end.
Fixpoint lookup_any (q : pst) (l : list (pst * (action * pst))) : option (action * pst) :=
  match l with
  | [] => None
  | (q', r) :: t => if pst_eqb q q' then Some r else lookup_any q t
  end.
Definition get_transition (c : N) (q : pst) : action * pst :=
  match lookup_exact c q trans with
  | Some r => r
  | None => match lookup_any q trans_any with Some r => r | None => trans_default end
  end.

(** int(s) for a string of ASCII digits *)
Definition digit (c : N) : Z := Z.of_N c - 48.
Definition to_int (s : list N) : Z := fold_left (fun acc c => acc * 10 + digit c) s 0.

(** ANSI.write_ch *)
Definition write_ch (s : scr) (ch : N) : scr :=
  if N.eqb ch 13 then cr s
  else if N.eqb ch 10 then crlf s
  else if N.eqb ch 8 then cursor_back s 1
  else
    let s := put_abs s (cur_r s) (cur_c s) ch in
    let old_r := cur_r s in
    let old_c := cur_c s in
    let s := cursor_forward s 1 in
    if old_c =? cur_c s then
      let s := cursor_down s 1 in
      if negb (old_r =? cur_r s) then cursor_home s (cur_r s) 1
      else erase_line (cursor_home (scroll_up s) (cur_r s) 1)
    else s.

(** the actions; None = the Python action raises (pop from an exhausted memory) *)
Definition pop1 (a : ansi) (k : Z -> scr -> scr) : option ansi :=
  match stack a with
  | n :: rest => Some (mkAnsi (k (to_int n) (scrn a)) (pstate a) rest)
  | [] => None
  end.
Definition pop2 (a : ansi) (k : Z -> Z -> scr -> scr) : option ansi :=   (* first pop = last pushed *)
  match stack a with
  | n2 :: n1 :: rest => Some (mkAnsi (k (to_int n1) (to_int n2) (scrn a)) (pstate a) rest)
  | _ => None
  end.
Definition on_screen (a : ansi) (f : scr -> scr) : option ansi := Some (mkAnsi (f (scrn a)) (pstate a) (stack a)).
Definition reset (a : ansi) : option ansi := Some (mkAnsi (scrn a) (pstate a) []).

Definition act (x : action) (c : N) (a : ansi) : option ansi :=
  match x with
  | A_None => Some a
  | A_DoEmit => on_screen a (fun s => write_ch s c)
  | A_DoStartNumber => Some (mkAnsi (scrn a) (pstate a) ([c] :: stack a))
  | A_DoBuildNumber => match stack a with
                       | n :: rest => Some (mkAnsi (scrn a) (pstate a) ((n ++ [c]) :: rest))
                       | [] => None
                       end
  | A_DoBackOne => on_screen a (fun s => cursor_back s 1)
  | A_DoBack => pop1 a (fun n s => cursor_back s n)
  | A_DoDownOne => on_screen a (fun s => cursor_down s 1)
  | A_DoDown => pop1 a (fun n s => cursor_down s n)
  | A_DoForwardOne => on_screen a (fun s => cursor_forward s 1)
  | A_DoForward => pop1 a (fun n s => cursor_forward s n)
  | A_DoUpReverse => on_screen a cursor_up_reverse
  | A_DoUpOne => on_screen a (fun s => cursor_up s 1)
  | A_DoUp => pop1 a (fun n s => cursor_up s n)
  | A_DoHome => pop2 a (fun r c s => cursor_home s r c)
  | A_DoHomeOrigin => on_screen a (fun s => cursor_home s 1 1)
  | A_DoEraseDown => on_screen a erase_down
  | A_DoErase => pop1 a (fun n s => if n =? 0 then erase_down s else if n =? 1 then erase_up s
                                     else if n =? 2 then erase_screen s else s)
  | A_DoEraseEndOfLine => on_screen a erase_end_of_line
  | A_DoEraseLine => pop1 a (fun n s => if n =? 0 then erase_end_of_line s else if n =? 1 then erase_start_of_line s
                                         else if n =? 2 then erase_line s else s)
  | A_DoEnableScroll => on_screen a scroll_screen
  | A_DoCursorSave => on_screen a cursor_save_attrs
  | A_DoCursorRestore => on_screen a cursor_restore_attrs
  | A_DoScrollRegion => pop2 a (fun r1 r2 s => scroll_screen_rows s r1 r2)
  | A_DoMode => pop1 a (fun _ s => s)
  | A_DoLog | A_do_sgr | A_do_decsca | A_do_modecrap => reset a
  end.

(** FSM.process: one input symbol *)
Definition process (a : ansi) (c : N) : option ansi :=
  let '(x, q') := get_transition c (pstate a) in
  match act x c a with
  | Some a' => Some (mkAnsi (scrn a') q' (stack a'))
  | None => None
  end.

(** ANSI.write on already decoded text: None = some character made the parser raise *)
Fixpoint feed (a : ansi) (t : list N) : option ansi :=
  match t with
  | [] => Some a
  | c :: r => match process a c with Some a' => feed a' r | None => None end
  end.

Definition ansi_init (r c : Z) : ansi := mkAnsi (init r c) initial_state [].
