From Coq Require Import ZArith NArith List Bool.
Import ListNotations.
From PV Require Import Base.V Screen.Model Screen.Run Ansi.Names Ansi.Model.

Definition enc_ansi (o : option ansi) : V :=
  match o with
  | None => VL [VI (-1)]
  | Some a => VL [enc_short (scrn a); vnat (pst_id (pstate a)); vlist vtext (rev (stack a))]
  end.

(** (rows, cols, chunks): the chunks are fed one after the other *)
Definition run_ansi (c : Z * Z * list (list N)) : V :=
  match c with (r, cl, chunks) =>
    enc_ansi (fold_left (fun o t => match o with Some a => feed a t | None => None end) chunks (Some (ansi_init r cl)))
  end.
