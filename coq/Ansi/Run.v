From Coq Require Import ZArith NArith List Bool.
Import ListNotations.
From PV Require Import Base.V Screen.Model Screen.Run Ansi.Names Ansi.Model.

Definition enc_ansi (o : option ansi) : V :=
  match o with
  | None => VL [VI (-1)]
  | Some a => VL [enc_short (scrn a); vnat (pst_id (pstate a)); vlist vtext (rev (stack a))]
  end.

(** (rows, cols, chunks): the chunks are fed one after the other *)
Definition run_ansi (c : Z * Z * list (list N)) : V :=
  match c with (r, cl, chunks) =>
    enc_ansi (fold_left (fun o t => match o with Some a => feed a t | None => None end) chunks (Some (ansi_init r cl)))
  end.

(** (rows, cols, utf8?, pieces of BYTES): each piece goes through the screen's incremental decoder (utf-8, else latin-1 =
    the identity on byte values), then through the parser; the decoder state is carried from piece to piece *)
From PV Require Import IO.Model Ansi.Bytes.
Definition run_ansi_bytes (c : Z * Z * bool * list (list N)) : V :=
  match c with (r, cl, u, pieces) =>
    if u then enc_ansi (option_map snd (write_bytes_chunks utf8_codec (cinit utf8_codec, ansi_init r cl) pieces))
    else enc_ansi (option_map snd (write_bytes_chunks null_codec (cinit null_codec, ansi_init r cl) pieces))
  end.
