(** Names of the parser states and actions of pexpect/ANSI.py (the generated table refers to them). *)
Inductive pst :=
| S_INIT | S_ESC | S_G0SCS | S_G1SCS | S_GRAPHICS_POUND | S_ELB | S_MODECRAP | S_MODECRAP_NUM
| S_NUMBER_1 | S_SEMICOLON | S_NUMBER_2 | S_SEMICOLON_X | S_NUMBER_X.

Inductive action :=
| A_None | A_DoEmit | A_DoStartNumber | A_DoBuildNumber
| A_DoBackOne | A_DoBack | A_DoDownOne | A_DoDown | A_DoForwardOne | A_DoForward
| A_DoUpReverse | A_DoUpOne | A_DoUp | A_DoHome | A_DoHomeOrigin
| A_DoEraseDown | A_DoErase | A_DoEraseEndOfLine | A_DoEraseLine
| A_DoEnableScroll | A_DoCursorSave | A_DoCursorRestore | A_DoScrollRegion | A_DoMode | A_DoLog
| A_do_sgr | A_do_decsca | A_do_modecrap.

Definition pst_eqb (a b : pst) : bool :=
  match a, b with
  | S_INIT, S_INIT | S_ESC, S_ESC | S_G0SCS, S_G0SCS | S_G1SCS, S_G1SCS | S_GRAPHICS_POUND, S_GRAPHICS_POUND
  | S_ELB, S_ELB | S_MODECRAP, S_MODECRAP | S_MODECRAP_NUM, S_MODECRAP_NUM | S_NUMBER_1, S_NUMBER_1
  | S_SEMICOLON, S_SEMICOLON | S_NUMBER_2, S_NUMBER_2 | S_SEMICOLON_X, S_SEMICOLON_X | S_NUMBER_X, S_NUMBER_X => true
  | _, _ => false
  end.

Definition pst_id (a : pst) : nat :=
  match a with
  | S_INIT => 0 | S_ESC => 1 | S_G0SCS => 2 | S_G1SCS => 3 | S_GRAPHICS_POUND => 4 | S_ELB => 5 | S_MODECRAP => 6
  | S_MODECRAP_NUM => 7 | S_NUMBER_1 => 8 | S_SEMICOLON => 9 | S_NUMBER_2 => 10 | S_SEMICOLON_X => 11 | S_NUMBER_X => 12
  end.
