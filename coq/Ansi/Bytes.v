(** ANSI.write on BYTES input: the screen's incremental decoder (any Mealy machine over bytes, IO/Model.v [codec]) turns
    each piece into text, the text goes through the parser (Ansi/Model.v [feed]).  The state carried from one write to the
    next is the pair (decoder state, terminal).  Cutting the bytes anywhere - inside an escape sequence, inside a
    multi-byte character - gives the same decoder state and the same terminal as one write of the whole. *)
From Coq Require Import ZArith NArith List Bool.
Import ListNotations.
From PV Require Import Screen.Model Screen.Facts Ansi.Names Gen.AnsiTable Ansi.Model Ansi.Proofs IO.Model IO.Proofs Base.Utf8.

Section Bytes.
  Variable C : codec.

  (** one write(bytes): s = self._decode(s); for c in s: self.process(c) *)
  Definition write_bytes (st : cst C * ansi) (chunk : list N) : option (cst C * ansi) :=
    let '(d, t) := decode C (fst st) chunk in
    match feed (snd st) t with Some a' => Some (d, a') | None => None end.

  Definition write_bytes_chunks (st : cst C * ansi) (chunks : list (list N)) : option (cst C * ansi) :=
    fold_left (fun o ch => match o with Some st => write_bytes st ch | None => None end) chunks (Some st).

  Lemma fold_none chunks :
    fold_left (fun o ch => match o with Some st => write_bytes st ch | None => None end) chunks None = None.
  Proof. induction chunks as [|c r IH]; cbn [fold_left]; auto. Qed.

  Lemma write_bytes_app st b1 b2 :
    write_bytes st (b1 ++ b2) = match write_bytes st b1 with Some st' => write_bytes st' b2 | None => None end.
  Proof.
    destruct st as [d a]. unfold write_bytes. cbn [fst snd]. rewrite decode_app.
    destruct (decode C d b1) as [d1 t1]. destruct (decode C d1 b2) as [d2 t2] eqn:E2.
    rewrite feed_app. destruct (feed a t1) as [a1|]; [|reflexivity].
    cbn [fst snd]. rewrite E2. reflexivity.
  Qed.

  Theorem bytes_chunk_independent chunks : forall st, write_bytes_chunks st chunks = write_bytes st (concat chunks).
  Proof.
    unfold write_bytes_chunks. induction chunks as [|ch r IH]; intros st; cbn [fold_left concat].
    - destruct st as [d a]. unfold write_bytes. cbn. reflexivity.
    - rewrite write_bytes_app. destruct (write_bytes st ch) as [st'|]; [apply IH | apply fold_none].
  Qed.

  (** bytes input never makes the parser raise, and the terminal stays well shaped: whatever text the decoder makes of the
      bytes (replacement characters included) is text, and [feed_total] holds for every text *)
  Theorem write_bytes_total st chunk : good (snd st) -> exists st', write_bytes st chunk = Some st' /\ good (snd st').
  Proof.
    intros G. destruct st as [d a]. unfold write_bytes. cbn [fst snd] in *.
    destruct (decode C d chunk) as [d1 t]. destruct (feed_total t a G) as [a' [E G']].
    rewrite E. exists (d1, a'). split; [reflexivity | exact G'].
  Qed.

  Theorem write_bytes_chunks_total chunks : forall st, good (snd st) ->
    exists st', write_bytes_chunks st chunks = Some st' /\ good (snd st').
  Proof.
    unfold write_bytes_chunks. induction chunks as [|ch r IH]; intros st G; cbn [fold_left].
    - exists st. split; [reflexivity | exact G].
    - destruct (write_bytes_total st ch G) as [st' [E G']]. rewrite E. apply IH. exact G'.
  Qed.
End Bytes.
