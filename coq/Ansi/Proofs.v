(** C18: the ANSI parser is total, keeps the screen well shaped, leaves no residue in INIT and is independent
    of how its input is cut into pieces.  The transition table and the action signatures are the GENERATED ones. *)
From Coq Require Import ZArith NArith List Bool Arith Lia.
Import ListNotations.
From PV Require Import Screen.Model Screen.Facts Ansi.Names Gen.AnsiTable Ansi.Model.

(** -- stack-depth typing of the parser states --------------------------------------------------- *)
Inductive dty := Exact (n : nat) | AtLeast (n : nat).
Definition ty (q : pst) : dty :=
  match q with
  | S_NUMBER_1 | S_MODECRAP_NUM | S_SEMICOLON => Exact 1
  | S_NUMBER_2 => Exact 2
  | S_SEMICOLON_X => AtLeast 2
  | S_NUMBER_X => AtLeast 3
  | _ => Exact 0
  end.
Definition depth_ok (q : pst) (d : nat) : Prop :=
  match ty q with Exact n => d = n | AtLeast n => n <= d end.

Definition action_eqb (a b : action) : bool :=
  match a, b with
  | A_None, A_None | A_DoEmit, A_DoEmit | A_DoStartNumber, A_DoStartNumber | A_DoBuildNumber, A_DoBuildNumber
  | A_DoBackOne, A_DoBackOne | A_DoBack, A_DoBack | A_DoDownOne, A_DoDownOne | A_DoDown, A_DoDown
  | A_DoForwardOne, A_DoForwardOne | A_DoForward, A_DoForward | A_DoUpReverse, A_DoUpReverse | A_DoUpOne, A_DoUpOne
  | A_DoUp, A_DoUp | A_DoHome, A_DoHome | A_DoHomeOrigin, A_DoHomeOrigin | A_DoEraseDown, A_DoEraseDown
  | A_DoErase, A_DoErase | A_DoEraseEndOfLine, A_DoEraseEndOfLine | A_DoEraseLine, A_DoEraseLine
  | A_DoEnableScroll, A_DoEnableScroll | A_DoCursorSave, A_DoCursorSave | A_DoCursorRestore, A_DoCursorRestore
  | A_DoScrollRegion, A_DoScrollRegion | A_DoMode, A_DoMode | A_DoLog, A_DoLog | A_do_sgr, A_do_sgr
  | A_do_decsca, A_do_decsca | A_do_modecrap, A_do_modecrap => true
  | _, _ => false
  end.

(** signature of an action as read from the source by the generator; an action without entry cannot be typed *)
Fixpoint assoc_sig (x : action) (l : list (action * (nat * nat * bool))) : option (nat * nat * bool) :=
  match l with [] => None | (y, s) :: t => if action_eqb x y then Some s else assoc_sig x t end.
Definition sig (x : action) := assoc_sig x signatures.

(** all (action, next state) pairs the table can answer in state q *)
Definition possible (q : pst) : list (action * pst) :=
  map snd (filter (fun e => pst_eqb q (snd (fst e))) trans) ++
  [match lookup_any q trans_any with Some r => r | None => trans_default end].

Lemma lookup_exact_in c q l r : lookup_exact c q l = Some r ->
  In r (map snd (filter (fun e => pst_eqb q (snd (fst e))) l)).
Proof.
  induction l as [|[[c' q'] r'] l IH]; cbn [lookup_exact filter fst snd]; [discriminate|].
  destruct (N.eqb c c' && pst_eqb q q') eqn:E.
  - intros [= ->]. apply andb_prop in E as [_ ->]. now left.
  - intros H. destruct (pst_eqb q q'); [right|]; now apply IH.
Qed.

Lemma get_transition_possible c q : In (get_transition c q) (possible q).
Proof.
  unfold get_transition, possible. apply in_or_app.
  destruct (lookup_exact c q trans) eqn:E; [left; now apply (lookup_exact_in c q) | right; now left].
Qed.

(** the finite check: every possible transition respects the typing *)
Definition check_one (q : pst) (xq : action * pst) : bool :=
  let '(x, q') := xq in
  match sig x with
  | None => false
  | Some (p, u, r) =>
      match ty q with
      | Exact n =>
          (p <=? n) && (let d' := if r then 0 else n - p + u in
                        match ty q' with Exact m => d' =? m | AtLeast m => m <=? d' end)
      | AtLeast n =>
          (p <=? n) && (if r then match ty q' with Exact m => 0 =? m | AtLeast m => m <=? 0 end
                        else match ty q' with Exact _ => false | AtLeast m => m <=? n - p + u end)
      end
  end.
Definition table_well_typed : bool := forallb (fun q => forallb (check_one q) (possible q)) all_states.

Lemma table_typed : table_well_typed = true.
Proof. vm_compute. reflexivity. Qed.

Lemma all_states_complete q : In q all_states.
Proof. destruct q; vm_compute; tauto. Qed.

Lemma check_one_sound q x q' d : check_one q (x, q') = true -> depth_ok q d ->
  exists p u r, sig x = Some (p, u, r) /\ p <= d /\ depth_ok q' (if r then 0 else d - p + u).
Proof.
  unfold check_one, depth_ok. destruct (sig x) as [[[p u] r]|]; [|discriminate].
  intros H Hd. exists p, u, r. split; [reflexivity|].
  destruct (ty q) as [n|n].
  - subst d. apply andb_prop in H as [H1 H2]. apply Nat.leb_le in H1. split; [exact H1|].
    destruct (ty q') as [m|m]; [apply Nat.eqb_eq in H2 | apply Nat.leb_le in H2]; exact H2.
  - apply andb_prop in H as [H1 H2]. apply Nat.leb_le in H1. split; [lia|].
    destruct r.
    + destruct (ty q') as [m|m]; [apply Nat.eqb_eq in H2 | apply Nat.leb_le in H2]; exact H2.
    + destruct (ty q') as [m|m]; [discriminate|]. apply Nat.leb_le in H2. lia.
Qed.

Lemma transition_typed c q d : depth_ok q d ->
  let '(x, q') := get_transition c q in
  exists p u r, sig x = Some (p, u, r) /\ p <= d /\ depth_ok q' (if r then 0 else d - p + u).
Proof.
  intros Hd. pose proof (get_transition_possible c q) as Hin.
  destruct (get_transition c q) as [x q'].
  pose proof table_typed as T. unfold table_well_typed in T. rewrite forallb_forall in T.
  specialize (T q (all_states_complete q)). rewrite forallb_forall in T.
  now apply (check_one_sound q x q' d (T _ Hin)).
Qed.

(** -- the hand-written action meanings respect the generated signatures -------------------------- *)
Definition swf (a : ansi) : Prop := wf (scrn a).

Lemma write_ch_wf s ch : wf s -> wf (write_ch s ch).
Proof.
  intros H. unfold write_ch.
  repeat match goal with |- context[if ?b then _ else _] => destruct b end; unfold crlf; cbv zeta;
    auto 12 using cr_wf, lf_wf, cursor_back_wf, cursor_forward_wf, cursor_down_wf, cursor_move_wf, put_abs_wf,
               erase_line_wf, scroll_up_wf.
Qed.

Lemma act_sound x c a p u r : sig x = Some (p, u, r) -> p <= length (stack a) -> swf a ->
  exists a', act x c a = Some a' /\ pstate a' = pstate a /\ swf a' /\
             length (stack a') = (if r then 0 else length (stack a) - p + u).
Proof.
  intros Hs Hp Hw. unfold swf in *.
  assert (fin : forall a' : ansi, pstate a' = pstate a -> wf (scrn a') ->
                 length (stack a') = (if r then 0 else length (stack a) - p + u) ->
                 exists a'' : ansi, Some a' = Some a'' /\ pstate a'' = pstate a /\ wf (scrn a'') /\
                                    length (stack a'') = (if r then 0 else length (stack a) - p + u)).
  { intros a' H1 H2 H3. exists a'. auto. }
  destruct x; vm_compute in Hs; injection Hs as <- <- <-; cbn [act on_screen reset pop1 pop2];
    try (apply fin; cbn [pstate scrn stack length]; unfold erase_end_of_line, erase_start_of_line, erase_line, erase_screen, fill;
         [reflexivity | | lia];
         solve [auto using write_ch_wf, cursor_back_wf, cursor_down_wf, cursor_forward_wf, up_reverse_wf, cursor_up_wf,
                    cursor_move_wf, erase_down_wf, fill_region_wf, scroll_screen_wf, cursor_save_wf, cursor_restore_wf]).
  all: unfold pop1, pop2; destruct (stack a) as [|n1 [|n2 rest]] eqn:Est; cbn [length] in Hp; try lia.
  all: apply fin; cbn [pstate scrn stack length app]; [reflexivity | | rewrite ?app_length; cbn [length]; lia].
  all: repeat match goal with |- context[if ?b then _ else _] => destruct b end.
  all: unfold erase_end_of_line, erase_start_of_line, erase_line, erase_screen, fill.
  all: auto using cursor_back_wf, cursor_down_wf, cursor_forward_wf, cursor_up_wf, cursor_move_wf, scroll_screen_rows_wf,
                  erase_down_wf, erase_up_wf, fill_region_wf.
Qed.

(** -- one character, any input -------------------------------------------------------------------- *)
Definition good (a : ansi) : Prop := swf a /\ depth_ok (pstate a) (length (stack a)).

Theorem process_total a c : good a -> exists a', process a c = Some a' /\ good a'.
Proof.
  intros [Hw Hd]. unfold process. pose proof (transition_typed c (pstate a) _ Hd) as T.
  destruct (get_transition c (pstate a)) as [x q'].
  destruct T as (p & u & r & Hs & Hp & Hd').
  destruct (act_sound x c a p u r Hs Hp Hw) as (a' & Ha & _ & Hw' & Hl).
  rewrite Ha. eexists. split; [reflexivity|]. split; [exact Hw'|]. cbn [pstate stack]. now rewrite Hl.
Qed.

Theorem feed_total t : forall a, good a -> exists a', feed a t = Some a' /\ good a'.
Proof.
  induction t as [|c t IH]; intros a H; cbn [feed]; [now exists a|].
  destruct (process_total a c H) as (a1 & -> & H1). now apply IH.
Qed.

Lemma init_good r c : (1 <= r)%Z -> (1 <= c)%Z -> good (ansi_init r c).
Proof. intros Hr Hc. split; [now apply init_wf | vm_compute; reflexivity]. Qed.

(** a completed sequence leaves no parser residue: in INIT the parameter stack is empty *)
Theorem no_residue a : good a -> pstate a = S_INIT -> stack a = [].
Proof. intros [_ Hd] Hq. rewrite Hq in Hd. unfold depth_ok in Hd. cbn in Hd. now destruct (stack a). Qed.

(** feeding the input in pieces = feeding it at once *)
Theorem feed_app t1 t2 a : feed a (t1 ++ t2) = match feed a t1 with Some a' => feed a' t2 | None => None end.
Proof.
  revert a; induction t1 as [|c t1 IH]; intros a; cbn [app feed]; [reflexivity|].
  destruct (process a c); [apply IH | reflexivity].
Qed.

Definition feed_chunks (a : ansi) (chunks : list (list N)) : option ansi :=
  fold_left (fun o t => match o with Some a => feed a t | None => None end) chunks (Some a).

Theorem chunk_independent chunks : forall a, feed_chunks a chunks = feed a (concat chunks).
Proof.
  unfold feed_chunks. induction chunks as [|t ts IH]; intros a; cbn [fold_left concat]; [reflexivity|].
  rewrite feed_app. destruct (feed a t) as [a'|]; [apply IH|].
  clear. induction ts as [|t ts IH]; cbn [fold_left]; auto.
Qed.
