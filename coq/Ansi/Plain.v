(** Text without escape sequences: in the INIT state every character other than ESC is emitted, i.e. goes through
    write_ch, and the parser stays in INIT with its memory untouched.  The table fact is a finite check over the
    REGENERATED table (the only exact INIT entry is ESC; the any-entry of INIT is DoEmit -> INIT), lifted to all characters. *)
From Coq Require Import ZArith NArith List Bool.
Import ListNotations.
From PV Require Import Screen.Model Screen.Facts Ansi.Names Gen.AnsiTable Ansi.Model Ansi.Proofs.

Definition init_exact_only_esc : bool :=
  forallb (fun e : N * pst * (action * pst) => if pst_eqb S_INIT (snd (fst e)) then N.eqb (fst (fst e)) 27 else true) trans.

Lemma init_exact_only_esc_ok : init_exact_only_esc = true.
Proof. vm_compute. reflexivity. Qed.

Lemma init_any_is_emit : lookup_any S_INIT trans_any = Some (A_DoEmit, S_INIT).
Proof. vm_compute. reflexivity. Qed.

Lemma lookup_exact_entry c q l r : lookup_exact c q l = Some r -> In (c, q, r) l.
Proof.
  induction l as [|[[c' q'] r'] l IH]; cbn [lookup_exact]; [discriminate|].
  destruct (N.eqb c c' && pst_eqb q q') eqn:E.
  - intros [= ->]. apply andb_prop in E as [Ec Eq]. apply N.eqb_eq in Ec. subst c'.
    assert (q = q') as -> by (destruct q, q'; cbn in Eq; try discriminate Eq; reflexivity). now left.
  - intros H. right. now apply IH.
Qed.

Lemma init_transition c : c <> 27%N -> get_transition c S_INIT = (A_DoEmit, S_INIT).
Proof.
  intros Hc. unfold get_transition. destruct (lookup_exact c S_INIT trans) as [r|] eqn:E.
  - exfalso. apply lookup_exact_entry in E.
    pose proof init_exact_only_esc_ok as H. unfold init_exact_only_esc in H. rewrite forallb_forall in H.
    specialize (H _ E). cbn [fst snd] in H. cbn [pst_eqb] in H. apply N.eqb_eq in H. contradiction.
  - now rewrite init_any_is_emit.
Qed.

Theorem plain_char a c : pstate a = S_INIT -> c <> 27%N ->
  process a c = Some (mkAnsi (write_ch (scrn a) c) S_INIT (stack a)).
Proof.
  intros Hq Hc. unfold process. rewrite Hq, (init_transition c Hc). cbn [act on_screen scrn stack]. reflexivity.
Qed.

Theorem plain_text t : forall a, pstate a = S_INIT -> ~ In 27%N t ->
  feed a t = Some (mkAnsi (fold_left write_ch t (scrn a)) S_INIT (stack a)).
Proof.
  induction t as [|c t IH]; intros a Hq Hn; cbn [feed fold_left].
  - destruct a as [s q k]. cbn in *. now subst q.
  - rewrite (plain_char a c Hq) by (intros ->; apply Hn; now left).
    rewrite IH; [reflexivity | reflexivity | intros H; apply Hn; now right].
Qed.

(** what emitting an ordinary character does when the cursor is not in the last column: the character lands in the
    cursor's cell and the cursor moves one column right; nothing else *)
From Coq Require Import Lia.
Theorem write_ch_ordinary s ch : wf s -> ch <> 13%N -> ch <> 10%N -> ch <> 8%N -> (cur_c s < cols s)%Z ->
  write_ch s ch = set_cur (put_abs s (cur_r s) (cur_c s) ch) (cur_r s) (cur_c s + 1).
Proof.
  intros H H13 H10 H8 Hc. unfold write_ch.
  apply N.eqb_neq in H13, H10, H8. rewrite H13, H10, H8.
  destruct H. unfold in_range in *.
  cbv zeta. unfold cursor_forward, cursor_constrain.
  cbn [cur_r cur_c rows cols set_cur put_abs set_w].
  rewrite (constrain_id (cur_r s) (rows s)) by (unfold in_range; lia).
  rewrite (constrain_id (cur_c s + 1) (cols s)) by (unfold in_range; lia).
  replace (cur_c s =? cur_c s + 1)%Z with false by (symmetry; apply Z.eqb_neq; lia).
  reflexivity.
Qed.
