(** Text without escape sequences: in the INIT state every character the table emits (DoEmit -> INIT) goes through
    write_ch, and the parser stays in INIT with its memory untouched.  Generic in the regenerated table; which characters
    those are with the table as it stands is Ansi/PlainTable.v (every character but ESC). *)
From Coq Require Import ZArith NArith List Bool.
Import ListNotations.
From PV Require Import Screen.Model Screen.Facts Ansi.Names Gen.AnsiTable Ansi.Model Ansi.Proofs.

(** generic in the table: the statement for whatever characters the table emits in INIT *)
Definition emitted (c : N) : Prop := get_transition c S_INIT = (A_DoEmit, S_INIT).

Theorem plain_char a c : pstate a = S_INIT -> emitted c ->
  process a c = Some (mkAnsi (write_ch (scrn a) c) S_INIT (stack a)).
Proof.
  intros Hq Hc. unfold process. rewrite Hq, Hc. cbn [act on_screen scrn stack]. reflexivity.
Qed.

Theorem plain_text t : forall a, pstate a = S_INIT -> Forall emitted t ->
  feed a t = Some (mkAnsi (fold_left write_ch t (scrn a)) S_INIT (stack a)).
Proof.
  induction t as [|c t IH]; intros a Hq Hn; cbn [feed fold_left].
  - destruct a as [s q k]. cbn in *. now subst q.
  - inversion Hn as [|c' t' Hc Ht]; subst. rewrite (plain_char a c Hq Hc).
    rewrite IH; [reflexivity | reflexivity | exact Ht].
Qed.

(** what emitting an ordinary character does when the cursor is not in the last column: the character lands in the
    cursor's cell and the cursor moves one column right; nothing else *)
From Coq Require Import Lia.
Theorem write_ch_ordinary s ch : wf s -> ch <> 13%N -> ch <> 10%N -> ch <> 8%N -> (cur_c s < cols s)%Z ->
  write_ch s ch = set_cur (put_abs s (cur_r s) (cur_c s) ch) (cur_r s) (cur_c s + 1).
Proof.
  intros H H13 H10 H8 Hc. unfold write_ch.
  apply N.eqb_neq in H13, H10, H8. rewrite H13, H10, H8.
  destruct H. unfold in_range in *.
  cbv zeta. unfold cursor_forward, cursor_constrain.
  cbn [cur_r cur_c rows cols set_cur put_abs set_w].
  rewrite (constrain_id (cur_r s) (rows s)) by (unfold in_range; lia).
  rewrite (constrain_id (cur_c s + 1) (cols s)) by (unfold in_range; lia).
  replace (cur_c s =? cur_c s + 1)%Z with false by (symmetry; apply Z.eqb_neq; lia).
  reflexivity.
Qed.
