From Coq Require Import ZArith NArith List Bool Arith Lia.
Import ListNotations.
From PV Require Import Base.Utf8 IO.Model.

(** C07: an incremental (Mealy) decoder fed the chunks one after the other produces, in total, what it produces on
    the whole stream - wherever the cuts fall *)
Lemma decode_app (c : codec) : forall a b s,
  decode c s (a ++ b) = let '(s1, o1) := decode c s a in let '(s2, o2) := decode c s1 b in (s2, o1 ++ o2).
Proof.
  induction a as [|x a IH]; intros b s; cbn [app decode].
  - destruct (decode c s b). reflexivity.
  - destruct (cstep c s x) as [s1 o1]. rewrite IH. destruct (decode c s1 a) as [s2 o2].
    destruct (decode c s2 b) as [s3 o3]. now rewrite app_assoc.
Qed.

Fixpoint decode_chunks (c : codec) (s : cst c) (chunks : list text) : cst c * list text :=
  match chunks with
  | [] => (s, [])
  | ch :: r => let '(s1, t) := decode c s ch in let '(s2, ts) := decode_chunks c s1 r in (s2, t :: ts)
  end.

Theorem chunks_decode_as_whole (c : codec) : forall chunks s,
  let '(s1, ts) := decode_chunks c s chunks in decode c s (concat chunks) = (s1, concat ts).
Proof.
  induction chunks as [|ch r IH]; intros s; cbn [decode_chunks concat decode]; [reflexivity|].
  rewrite decode_app. destruct (decode c s ch) as [s1 t]. specialize (IH s1).
  destruct (decode_chunks c s1 r) as [s2 ts]. rewrite IH. reflexivity.
Qed.

Section Spawn.
  Variable unicode : bool.
  Variable L : logs.
  Variable T : transport.
  Notation C := (if unicode then utf8_codec else null_codec).
  Notation step := (step unicode L T).
  Notation run := (run unicode L T).

  Definition raws (ops : list op) : list text := flat_map (fun x => match x with Read r => [r] | _ => [] end) ops.

  (** what each operation must put on the wire (C08) *)
  Definition wire_of (x : op) : list text :=
    match x with
    | Read _ => []
    | Send is_str s => [encode unicode (coerce unicode is_str s)]
    | SendLine is_str s =>
        match T with
        | TPopen => [encode unicode (coerce unicode is_str s); encode unicode (coerce unicode true linesep)]
        | _ => [encode unicode (coerce unicode is_str s ++ coerce unicode true linesep)]
        end
    | Control b => [[b]]
    end.

  Lemma run_snoc ops x : run (ops ++ [x]) = step (run ops) x.
  Proof. unfold Model.run. now rewrite fold_left_app. Qed.

  (** the delivered texts are the chunks decoded one after the other by the ONE persistent decoder *)
  Theorem delivered_is_decode_chunks ops :
    let '(s, o) := run ops in decode_chunks C (cinit C) (raws ops) = (s, delivered o).
  Proof.
    induction ops as [|x ops IH] using rev_ind; [reflexivity|].
    rewrite run_snoc. destruct (run ops) as [s o]. unfold raws in *. rewrite flat_map_app. cbn [flat_map app].
    assert (G : forall chunks s0 s1 ts ch, decode_chunks C s0 chunks = (s1, ts) ->
              decode_chunks C s0 (chunks ++ [ch]) = (fst (decode C s1 ch), ts ++ [snd (decode C s1 ch)])).
    { induction chunks as [|c0 r IHc]; intros s0 s1 ts ch H; cbn [decode_chunks app] in *.
      - injection H as <- <-. destruct (decode C s0 ch). reflexivity.
      - destruct (decode C s0 c0) as [sa ta]. destruct (decode_chunks C sa r) as [sb tb] eqn:E.
        injection H as <- <-. rewrite (IHc sa sb tb ch E). reflexivity. }
    destruct x as [raw|is_str t|is_str t|b]; cbn [Model.step flat_map app].
    - rewrite (G _ _ _ _ raw IH). destruct (decode C s raw) as [s' t']. reflexivity.
    - rewrite app_nil_r. exact IH.
    - rewrite app_nil_r. destruct T; exact IH.
    - rewrite app_nil_r. exact IH.
  Qed.

  (** C07: everything delivered to matching = the decoding of the whole received byte stream *)
  Theorem delivered_is_whole_decoding ops :
    let '(s, o) := run ops in decode C (cinit C) (concat (raws ops)) = (s, concat (delivered o)).
  Proof.
    pose proof (delivered_is_decode_chunks ops) as H. destruct (run ops) as [s o].
    pose proof (chunks_decode_as_whole C (raws ops) (cinit C)) as W. rewrite H in W. exact W.
  Qed.

  (** C08: the peer receives exactly, in call order, what each send-family call is meant to put on the wire; send returns the byte count *)
  Theorem wire_is_what_was_sent ops :
    let o := snd (run ops) in wire o = flat_map wire_of ops.
  Proof.
    induction ops as [|x ops IH] using rev_ind; [reflexivity|].
    rewrite run_snoc, flat_map_app. cbn [flat_map]. rewrite app_nil_r. destruct (run ops) as [s o]. cbn [snd] in *.
    destruct x as [raw|is_str t|is_str t|b]; cbn [Model.step wire_of].
    - destruct (decode C s raw). cbn [snd wire]. now rewrite IH, app_nil_r.
    - cbn [snd send1 wire]. now rewrite IH.
    - destruct T; cbn [snd send1 wire]; rewrite ?IH, <- ?app_assoc; reflexivity.
    - cbn [snd wire]. now rewrite IH.
  Qed.

  (** C11: the log events are, operation by operation, the fan-out of the text read / the string sent *)
  Definition logged_of (x : op) (t : text) : list logev :=
    match x with
    | Read _ => log L t DRead
    | Send is_str s => log L (coerce unicode is_str s) DSend
    | SendLine is_str s =>
        match T with
        | TPopen => log L (coerce unicode is_str s) DSend ++ log L (coerce unicode true linesep) DSend
        | _ => log L (coerce unicode is_str s ++ coerce unicode true linesep) DSend
        end
    | Control b => log L [b] DSend
    end.

  (** every write to a log is immediately followed by a flush of the same log *)
  Fixpoint flushed (ev : list logev) : bool :=
    match ev with
    | [] => true
    | LWrite l _ :: LFlush l' :: r =>
        (match l, l' with LAll, LAll | LRead, LRead | LSend, LSend => true | _, _ => false end) && flushed r
    | _ => false
    end.
  Lemma flushed_app a b : flushed a = true -> flushed b = true -> flushed (a ++ b) = true.
  Proof.
    assert (G : forall n a, (length a <= n)%nat -> flushed a = true -> flushed b = true -> flushed (a ++ b) = true).
    { induction n as [|n IH]; intros a0 Hl Ha Hb.
      - destruct a0; [exact Hb | cbn in Hl; lia].
      - destruct a0 as [|[l t|l] [|[l2 t2|l2] a']]; try discriminate; [exact Hb|].
        cbn [flushed app] in *. apply andb_prop in Ha as [H1 H2]. rewrite H1. cbn [andb].
        apply IH; auto. cbn in Hl. lia. }
    intros Ha Hb. exact (G (length a) a (Nat.le_refl _) Ha Hb).
  Qed.
  Lemma log_flushed t d : flushed (log L t d) = true.
  Proof. unfold log. destruct (has_all L), d, (has_read L), (has_send L); reflexivity. Qed.

  Theorem every_write_is_flushed ops : flushed (events (snd (run ops))) = true.
  Proof.
    induction ops as [|x ops IH] using rev_ind; [reflexivity|].
    rewrite run_snoc. destruct (run ops) as [s o]. cbn [snd] in *.
    destruct x as [raw|is_str t|is_str t|b]; cbn [Model.step].
    - destruct (decode C s raw). cbn [snd events]. apply flushed_app; auto using log_flushed.
    - cbn [snd send1 events]. apply flushed_app; auto using log_flushed.
    - destruct T; cbn [snd send1 events]; auto using log_flushed, flushed_app.
    - cbn [snd events]. apply flushed_app; auto using log_flushed.
  Qed.

  (** the texts written to one log, in order *)
  Definition writes (l : logname) (ev : list logev) : list text :=
    flat_map (fun e => match e with
                       | LWrite l' t => (match l, l' with LAll, LAll | LRead, LRead | LSend, LSend => [t] | _, _ => [] end)
                       | _ => [] end) ev.
  Lemma writes_app l a b : writes l (a ++ b) = writes l a ++ writes l b.
  Proof. unfold writes. apply flat_map_app. Qed.

  (** logfile_read receives exactly the texts delivered, once, in order *)
  Theorem read_log_is_delivered ops : has_read L = true ->
    writes LRead (events (snd (run ops))) = delivered (snd (run ops)).
  Proof.
    intros HR. induction ops as [|x ops IH] using rev_ind; [reflexivity|].
    rewrite run_snoc. destruct (run ops) as [s o]. cbn [snd] in *.
    assert (W : forall t, writes LRead (log L t DRead) = [t]) by (intros t; unfold log; rewrite HR; destruct (has_all L); reflexivity).
    assert (W0 : forall t, writes LRead (log L t DSend) = []) by (intros t; unfold log; destruct (has_all L), (has_send L); reflexivity).
    destruct x as [raw|is_str t|is_str t|b]; cbn [Model.step].
    - destruct (decode C s raw). cbn [snd events delivered]. now rewrite writes_app, W, IH.
    - cbn [snd send1 events delivered]. now rewrite writes_app, W0, app_nil_r.
    - destruct T; cbn [snd send1 events delivered]; rewrite ?writes_app, ?W0, ?app_nil_r; exact IH.
    - cbn [snd events delivered]. now rewrite writes_app, W0, app_nil_r.
  Qed.

  (** logfile receives the reads and the sends interleaved in the order the operations happened: it is the merge of the other two logs *)
  Definition rw_writes (ev : list logev) : list text :=
    flat_map (fun e => match e with LWrite LRead t | LWrite LSend t => [t] | _ => [] end) ev.
  Theorem all_log_is_the_interleaving ops : has_all L = true -> has_read L = true -> has_send L = true ->
    writes LAll (events (snd (run ops))) = rw_writes (events (snd (run ops))).
  Proof.
    intros HA HR HS. induction ops as [|x ops IH] using rev_ind; [reflexivity|].
    rewrite run_snoc. destruct (run ops) as [s o]. cbn [snd] in *.
    assert (W : forall t d, writes LAll (log L t d) = [t] /\ rw_writes (log L t d) = [t])
      by (intros t d; unfold log; rewrite HA, HR, HS; destruct d; split; reflexivity).
    assert (RA : forall a b, rw_writes (a ++ b) = rw_writes a ++ rw_writes b) by (intros; unfold rw_writes; apply flat_map_app).
    destruct x as [raw|is_str t|is_str t|b]; cbn [Model.step].
    - destruct (decode C s raw) as [s' t']. cbn [snd events]. rewrite writes_app, RA, IH. now destruct (W t' DRead) as [-> ->].
    - cbn [snd send1 events]. rewrite writes_app, RA, IH. now destruct (W (coerce unicode is_str t) DSend) as [-> ->].
    - destruct T; cbn [snd send1 events]; rewrite ?writes_app, ?RA, IH;
        repeat match goal with |- context[writes LAll (log L ?t DSend)] => destruct (W t DSend) as [-> ->] end; rewrite <- ?app_assoc; reflexivity.
    - cbn [snd events]. rewrite writes_app, RA, IH. now destruct (W [b] DSend) as [-> ->].
  Qed.
End Spawn.

(** the write loop loses nothing: what reached the descriptor, in order, followed by what is still to be written, is the
    payload; with a schedule that keeps accepting something, everything is written *)
Theorem write_all_conserves : forall accepts b, let '(ps, lft) := write_all accepts b in concat ps ++ lft = b.
Proof.
  induction accepts as [|a r IH]; intros b; cbn [write_all]; [reflexivity|].
  set (k := match a with Some k => Nat.min k (length b) | None => 0%nat end).
  destruct (skipn k b) as [|c rest] eqn:Es.
  - assert (F : firstn k b = b) by (rewrite <- (firstn_skipn k b) at 2; rewrite Es; now rewrite app_nil_r).
    destruct a as [k0|]; cbn [concat app].
    + now rewrite F, !app_nil_r.
    + unfold k in *. cbn in Es. now rewrite <- Es.
  - specialize (IH (c :: rest)). destruct (write_all r (c :: rest)) as [ps lft].
    destruct a as [k0|]; cbn [concat app].
    + rewrite <- app_assoc, IH, <- Es. apply firstn_skipn.
    + rewrite IH. unfold k in Es. cbn in Es. now rewrite <- Es.
Qed.

Theorem write_all_completes : forall accepts b, length b <= length (filter (fun a => match a with Some (S _) => true | _ => false end) accepts) ->
  snd (write_all accepts b) = [].
Proof.
  induction accepts as [|a r IH]; intros b H; cbn [write_all].
  - cbn in H. destruct b; [reflexivity | cbn in H; lia].
  - set (k := match a with Some k => Nat.min k (length b) | None => 0%nat end).
    destruct (skipn k b) as [|c rest] eqn:Es; [destruct a; reflexivity|].
    assert (Hl : length (c :: rest) = length b - k) by (rewrite <- Es; apply skipn_length).
    specialize (IH (c :: rest)). destruct (write_all r (c :: rest)) as [ps lft]. cbn [snd] in *.
    apply IH. cbn [filter] in H. unfold k in Hl. destruct a as [[|k0]|]; cbn [length] in H, Hl; cbn [length]; lia.
Qed.
