(** the UTF-8 instance: decoding what was encoded gives the text back (every code point below 2^21, in particular all of
    Unicode), however the bytes are cut into reads *)
From Coq Require Import ZArith NArith List Bool Lia ZifyBool ZifyN.
Import ListNotations.
From PV Require Import Base.Utf8 IO.Model IO.Proofs.
Local Open Scope N_scope.
Ltac Zify.zify_post_hook ::= Z.to_euclidean_division_equations.

Lemma utf8_char_roundtrip c : c < 2097152 -> decode utf8_codec (O, 0) (utf8_char c) = ((O, 0), [c]).
Proof.
  intros Hc. unfold utf8_char.
  destruct (c <? 128) eqn:E1.
  { cbn [decode utf8_codec cstep utf8_step]. rewrite E1. reflexivity. }
  destruct (c <? 2048) eqn:E2.
  { cbn [decode utf8_codec cstep utf8_step].
    replace (192 + c / 64 <? 128) with false by lia.
    replace ((192 <=? 192 + c / 64) && (192 + c / 64 <? 224)) with true by lia.
    cbn [utf8_step app]. f_equal. f_equal. lia. }
  destruct (c <? 65536) eqn:E3.
  { cbn [decode utf8_codec cstep utf8_step].
    replace (224 + c / 4096 <? 128) with false by lia.
    replace ((192 <=? 224 + c / 4096) && (224 + c / 4096 <? 224)) with false by lia.
    replace ((224 <=? 224 + c / 4096) && (224 + c / 4096 <? 240)) with true by lia.
    cbn [utf8_step app]. f_equal. f_equal. lia. }
  cbn [decode utf8_codec cstep utf8_step].
  replace (240 + c / 262144 <? 128) with false by lia.
  replace ((192 <=? 240 + c / 262144) && (240 + c / 262144 <? 224)) with false by lia.
  replace ((224 <=? 240 + c / 262144) && (240 + c / 262144 <? 240)) with false by lia.
  replace ((240 <=? 240 + c / 262144) && (240 + c / 262144 <? 248)) with true by lia.
  cbn [utf8_step app]. f_equal. f_equal. lia.
Qed.

Theorem utf8_roundtrip : forall t, Forall (fun c => c < 2097152) t ->
  decode utf8_codec (O, 0) (utf8_encode t) = ((O, 0), t).
Proof.
  induction t as [|c t IH]; intros H; [reflexivity|].
  inversion H as [|? ? Hc Ht]; subst. unfold utf8_encode. cbn [flat_map]. fold (utf8_encode t).
  rewrite (decode_app utf8_codec). rewrite (utf8_char_roundtrip c Hc). rewrite (IH Ht). reflexivity.
Qed.

(** ... however the encoded bytes are cut into reads: the decoder ends in its initial state and the pieces concatenate to the text *)
Theorem utf8_any_cut : forall t chunks, Forall (fun c => c < 2097152) t -> concat chunks = utf8_encode t ->
  let '(s1, ts) := decode_chunks utf8_codec (O, 0) chunks in s1 = (O, 0) /\ concat ts = t.
Proof.
  intros t chunks Ht Hc. pose proof (chunks_decode_as_whole utf8_codec chunks (O, 0)) as W.
  destruct (decode_chunks utf8_codec (O, 0) chunks) as [s1 ts]. rewrite Hc, (utf8_roundtrip t Ht) in W.
  injection W as <- <-. auto.
Qed.
