(** C07 / C08 / C11: the read path (decode + log + deliver), the send family (coerce + log + encode + write) and
    the log fan-out of the four transports.  The incremental decoder is a Mealy machine over bytes. *)
From Coq Require Import ZArith NArith List Bool Arith.
Import ListNotations.
From PV Require Import Base.Utf8.
Local Open Scope N_scope.

Definition text := list N.

(** -- incremental decoders as Mealy machines ------------------------------------------------- *)
Record codec := { cst : Type; cinit : cst; cstep : cst -> N -> cst * text }.

Fixpoint decode (c : codec) (s : cst c) (chunk : text) : cst c * text :=
  match chunk with
  | [] => (s, [])
  | b :: r => let '(s1, o1) := cstep c s b in let '(s2, o2) := decode c s1 r in (s2, o1 ++ o2)
  end.

(** the pass-through coder of bytes mode (_NullCoder) *)
Definition null_codec : codec := {| cst := unit; cinit := tt; cstep := fun _ b => (tt, [b]) |}.

(** strict UTF-8 (well-formed input): state = (continuation bytes still needed, code point so far) *)
Definition utf8_step (s : nat * N) (b : N) : (nat * N) * text :=
  match s with
  | (O, _) => if b <? 128 then ((O, 0), [b])
              else if (192 <=? b) && (b <? 224) then ((1%nat, b - 192), [])
              else if (224 <=? b) && (b <? 240) then ((2%nat, b - 224), [])
              else if (240 <=? b) && (b <? 248) then ((3%nat, b - 240), [])
              else ((O, 0), [65533])
  | (S k, acc) => let acc' := acc * 64 + (b - 128) in
                  match k with O => ((O, 0), [acc']) | _ => ((k, acc'), []) end
  end.
Definition utf8_codec : codec := {| cst := nat * N; cinit := (O, 0); cstep := utf8_step |}.

(** -- logs ------------------------------------------------------------------------------------ *)
Inductive logname := LAll | LRead | LSend.
Inductive logev := LWrite (l : logname) (t : text) | LFlush (l : logname).
Record logs := { has_all : bool; has_read : bool; has_send : bool }.
Inductive dir := DRead | DSend.

(** SpawnBase._log *)
Definition log (L : logs) (s : text) (d : dir) : list logev :=
  (if has_all L then [LWrite LAll s; LFlush LAll] else []) ++
  match d with
  | DRead => if has_read L then [LWrite LRead s; LFlush LRead] else []
  | DSend => if has_send L then [LWrite LSend s; LFlush LSend] else []
  end.

(** -- operations ------------------------------------------------------------------------------ *)
Inductive transport := TPty | TFd | TPopen | TSocket.
Inductive op :=
| Read (raw : text)                       (* the transport obtained these bytes from the OS *)
| Send (is_str : bool) (s : text)         (* send / write; is_str: a str object (code points), else bytes *)
| SendLine (is_str : bool) (s : text)
| Control (byte : N).                     (* sendcontrol / sendeof / sendintr (pty): one control byte *)

Record out := { delivered : list text; wire : list text; events : list logev; returns : list nat }.
Definition out0 : out := {| delivered := []; wire := []; events := []; returns := [] |}.

Definition linesep : text := [10].

Section Spawn.
  Variable unicode : bool.          (* encoding = utf-8, else bytes mode *)
  Variable L : logs.
  Variable T : transport.
  Let C : codec := if unicode then utf8_codec else null_codec.

  (** _coerce_send_string, then what the encoder produces *)
  Definition coerce (is_str : bool) (s : text) : text := if negb unicode && is_str then utf8_encode s else s.
  Definition encode (s : text) : text := if unicode then utf8_encode s else s.

  Definition send1 (s : text) (o : out) : out :=
    let b := encode s in
    {| delivered := delivered o; wire := wire o ++ [b]; events := events o ++ log L s DSend;
       returns := returns o ++ [length b] |}.

  Definition step (st : cst C * out) (x : op) : cst C * out :=
    let '(d, o) := st in
    match x with
    | Read raw =>
        let '(d', t) := decode C d raw in
        (d', {| delivered := delivered o ++ [t]; wire := wire o; events := events o ++ log L t DRead; returns := returns o |})
    | Send is_str s => (d, send1 (coerce is_str s) o)
    | SendLine is_str s =>
        match T with
        | TPopen => let o1 := send1 (coerce is_str s) o in
                    let o2 := send1 (coerce true linesep) o1 in
                    (d, {| delivered := delivered o2; wire := wire o2; events := events o2;
                           returns := returns o ++ [(length (encode (coerce is_str s)) + length (encode (coerce true linesep)))%nat] |})
        | _ => (d, send1 (coerce is_str s ++ coerce true linesep) o)
        end
    | Control byte =>
        (d, {| delivered := delivered o; wire := wire o ++ [[byte]]; events := events o ++ log L [byte] DSend;
               returns := returns o ++ [1%nat] |})
    end.

  Definition run (ops : list op) : cst C * out := fold_left step ops (cinit C, out0).
End Spawn.

(** -- SpawnBase._write_all: the descriptor may take only part of what it is given (it is non-blocking once asyncio reads
    from it) or nothing at all for the moment; the loop goes on until everything has been written.  [accepts]: what the
    successive os.write calls accept (None = BlockingIOError, then the loop waits for writability); result: the pieces that
    reached the descriptor, and what was still unwritten when the schedule ended *)
Fixpoint write_all (accepts : list (option nat)) (b : text) : list text * text :=
  match accepts with
  | [] => ([], b)
  | a :: r =>
      let k := match a with Some k => Nat.min k (length b) | None => 0%nat end in
      let piece := firstn k b in
      let rest := skipn k b in
      match rest with
      | [] => (match a with Some _ => [piece] | None => [] end, [])
      | _ => let '(ps, lft) := write_all r rest in
             ((match a with Some _ => [piece] | None => [] end) ++ ps, lft)
      end
  end.
