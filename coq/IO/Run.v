From Coq Require Import ZArith NArith List Bool.
Import ListNotations.
From PV Require Import Base.V IO.Model.

Definition lid (l : logname) : Z := match l with LAll => 0 | LRead => 1 | LSend => 2 end.
Definition enc_ev (e : logev) : V := match e with LWrite l t => VL [VI 0; VI (lid l); vtext t] | LFlush l => VL [VI 1; VI (lid l)] end.
Definition tid (n : nat) : transport := match n with 0 => TPty | 1 => TFd | 2 => TPopen | _ => TSocket end.
(** (unicode, (has_all, has_read, has_send), transport, ops) *)
Definition run_io (c : bool * (bool * bool * bool) * nat * list op) : V :=
  match c with (u, (a, r, s), t, ops) =>
    let o := snd (run u {| has_all := a; has_read := r; has_send := s |} (tid t) ops) in
    VL [vlist vtext (delivered o); vtext (concat (wire o)); vlist enc_ev (events o); vlist vnat (returns o)]
  end.

(** the same with the log attributes reassigned in between (they are looked up at every call) *)
Inductive xop := XOp (o : op) | XLogs (a r s : bool).
Fixpoint run_x (u : bool) (t : transport) (L : logs) (st : cst (if u then utf8_codec else null_codec) * out) (ops : list xop)
  : cst (if u then utf8_codec else null_codec) * out :=
  match ops with
  | [] => st
  | XOp o :: r => run_x u t L (step u L t st o) r
  | XLogs a b c :: r => run_x u t {| has_all := a; has_read := b; has_send := c |} st r
  end.
Definition run_iox (c : bool * (bool * bool * bool) * nat * list xop) : V :=
  match c with (u, (a, r, s), t, ops) =>
    let o := snd (run_x u (tid t) {| has_all := a; has_read := r; has_send := s |} (cinit (if u then utf8_codec else null_codec), out0) ops) in
    VL [vlist vtext (delivered o); vtext (concat (wire o)); vlist enc_ev (events o); vlist vnat (returns o)]
  end.

(** the write loop (job write-all): (what each os.write accepts; payload) -> pieces written, left over *)
Definition run_write_all (c : list (option nat) * list N) : V :=
  match c with (accepts, b) => let '(ps, lft) := write_all accepts b in VL [vlist vtext ps; vtext lft] end.
