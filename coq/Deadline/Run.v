From Coq Require Import ZArith List Bool.
Import ListNotations.
From PV Require Import Base.V Deadline.Model.
Local Open Scope Z_scope.

Definition out_id (o : outcome) : Z := match o with Matched => 0 | TimedOut => 1 | Eof => 2 | Blocked => 9 end.
(** (over, start, timeout (None = no deadline), events) *)
Definition run_deadline (c : Z * Z * option Z * list rev) : V :=
  match c with (over, start, t, evs) =>
    let '(o, fin) := expect_loop over start (match t with Some x => Within x | None => Forever end) evs in
    VL [VI (out_id o); VI fin]
  end.
(** waitnoecho: (nap, start, timeout, echo-off time) *)
Definition run_waitnoecho (c : Z * Z * option Z * option Z) : V :=
  match c with (nap, start, t, off) =>
    let '(r, fin) := match t with
                     | Some x => waitnoecho 1000 nap (Some (start + x)) start (Within x) off
                     | None => waitnoecho 1000 nap None start Forever off
                     end in
    VL [match r with Some true => VI 1 | Some false => VI 0 | None => VI 9 end; VI fin]
  end.
