(** C05: the time arithmetic of Expecter.expect_loop (expect.py:153-184), of the timeout conventions of the entry
    points (-1 = instance default, None = no deadline, 0 = poll), of utils.select_ignore_interrupts (EINTR retry with the
    remaining time) and of waitnoecho, over a virtual clock.  Time is in integer ticks (Z). *)
From Coq Require Import ZArith List Bool Lia.
Import ListNotations.
Local Open Scope Z_scope.

(** the timeout argument as the callers may pass it *)
Inductive targ := TDefault (* -1 *) | TNone | TVal (t : Z).
(** after the entry point resolved -1 *)
Inductive tmo := Forever | Within (t : Z).

Definition resolve (default : tmo) (a : targ) : tmo :=
  match a with TDefault => default | TNone => Forever | TVal t => Within t end.

(** the entry points and how each treats its timeout argument *)
Inductive entry := EExpect | EExpectList | EExpectExact | EExpectLoop | EReadNonblockingPty | EReadNonblockingFd
                 | EReadNonblockingSocket | EReadNonblockingPopen | EWaitNoEcho.
Definition effective (e : entry) (default : tmo) (a : targ) : tmo := resolve default a.

(** what one read_nonblocking call does, as seen by the loop: it lasts [dur] ticks and either delivers data that
    makes the search succeed / fail, or raises TIMEOUT / EOF *)
Inductive rev := RHit (dur : Z) | RMiss (dur : Z) | RTimeout (dur : Z) | REof (dur : Z).
Definition dur_of (e : rev) : Z := match e with RHit d | RMiss d | RTimeout d | REof d => d end.

Inductive outcome := Matched | TimedOut | Eof | Blocked (* the event list ran out: the call is still waiting *).

(** expect_loop after existing_data found nothing: [over] is the time every iteration spends outside the read
    (delayafterread, bookkeeping); returns the outcome and the time at which the call returns *)
Definition expired (r : tmo) : bool := match r with Within t => t <? 0 | Forever => false end.
Definition remaining_at (deadline : option Z) (now : Z) : tmo :=
  match deadline with Some d => Within (d - now) | None => Forever end.

Fixpoint loop (over : Z) (deadline : option Z) (now : Z) (remaining : tmo) (evs : list rev) {struct evs} : outcome * Z :=
  if expired remaining then (TimedOut, now)                        (* loop head: timeout < 0 *)
  else match evs with
       | [] => (Blocked, now)
       | e :: r =>
           let now' := now + dur_of e in                           (* read_nonblocking(maxread, remaining) *)
           match e with
           | RHit _ => (Matched, now' + over)                      (* the pause after the read precedes the search *)
           | RTimeout _ => (TimedOut, now')
           | REof _ => (Eof, now')
           | RMiss _ => let now'' := now' + over in                (* delayafterread etc. *)
                        loop over deadline now'' (remaining_at deadline now'') r
           end
       end.

(** expect_loop(timeout): end_time = now + timeout is computed once *)
Definition expect_loop (over : Z) (now : Z) (t : tmo) (evs : list rev) : outcome * Z :=
  match t with
  | Within T => loop over (Some (now + T)) now (Within T) evs
  | Forever => loop over None now Forever evs
  end.

(** the environment law of a read: with a remaining time r it returns data/EOF within max(r,0)+eps, and it raises
    TIMEOUT no earlier than after max(r,0) (never when there is no deadline) *)
Fixpoint lawful (eps over : Z) (deadline : option Z) (now : Z) (evs : list rev) : Prop :=
  match evs with
  | [] => True
  | e :: r =>
      0 <= dur_of e /\
      match deadline with
      | Some d => dur_of e <= Z.max (d - now) 0 + eps /\
                  (match e return Prop with RTimeout x => (Z.max (d - now) 0 <= x) | _ => True end)
      | None => (match e return Prop with RTimeout _ => False | _ => True end)
      end /\
      lawful eps over deadline (now + dur_of e + over) r
  end.

(** utils.select_ignore_interrupts: retry after EINTR with the remaining time; [ints] = the moments (durations of
    the partial waits) at which signals interrupt; the final wait lasts min(remaining, until) *)
Fixpoint select_ii (deadline : Z) (now : Z) (ints : list Z) (ready_after : option Z) : bool * Z :=
  match ints with
  | [] => match ready_after with
          | Some d => if d <=? deadline - now then (true, now + d) else (false, deadline)
          | None => (false, Z.max deadline now)
          end
  | i :: r => let now' := now + i in
              if deadline - now' <? 0 then (false, now') else select_ii deadline now' r ready_after
  end.

(** waitnoecho (pty_spawn.py:345-372): poll the echo flag every [nap] ticks; echo goes off at time [off] (None = never) *)
Fixpoint waitnoecho (fuel : nat) (nap : Z) (deadline : option Z) (now : Z) (remaining : tmo) (off : option Z) : option bool * Z :=
  match fuel with
  | O => (None, now)
  | S f =>
      if (match off with Some o => o <=? now | None => false end) then (Some true, now)
      else if expired remaining then (Some false, now)
      else waitnoecho f nap deadline (now + nap) (remaining_at deadline now) off
  end.
