From Coq Require Import ZArith List Bool Lia.
Import ListNotations.
From PV Require Import Deadline.Model.
Local Open Scope Z_scope.

(** -1 means the instance default on every entry point, None means no deadline *)
Lemma minus_one_is_default e d : effective e d TDefault = d.
Proof. reflexivity. Qed.
Lemma none_is_forever e d : effective e d TNone = Forever.
Proof. reflexivity. Qed.

(** the loop never overruns the deadline by more than one read's slack [eps] plus one iteration's overhead [over],
    and never reports TIMEOUT before the deadline *)
Lemma loop_bounds eps over d : 0 <= eps -> 0 <= over -> forall evs now rem,
  lawful eps over (Some d) now evs ->
  (rem = Within (d - now)) ->
  let '(out, fin) := loop over (Some d) now rem evs in
  now <= fin /\
  (out <> Blocked -> fin <= Z.max (d + eps + over) now) /\
  (out = TimedOut -> d <= fin).
Proof.
  intros He Ho. induction evs as [|e r IH]; intros now rem HL ->; cbn [loop expired].
  - destruct (Z.ltb_spec (d - now) 0); cbn; repeat split; intros; try lia; try congruence.
  - destruct (Z.ltb_spec (d - now) 0) as [Hx|Hx]; [cbn; repeat split; intros; lia|].
    cbn [lawful] in HL. destruct HL as (H0 & (H1 & H2) & H3).
    destruct e as [x|x|x|x]; cbn [dur_of] in *.
    + repeat split; intros; try lia; congruence.
    + specialize (IH (now + x + over) (Within (d - (now + x + over))) H3 eq_refl).
      unfold remaining_at. destruct (loop over (Some d) (now + x + over) (Within (d - (now + x + over))) r) as [out fin].
      destruct IH as (I1 & I2 & I3). repeat split; [lia | | exact I3].
      intros Hb. specialize (I2 Hb). lia.
    + repeat split; intros; try lia; congruence.
    + repeat split; intros; try lia; congruence.
Qed.

Theorem deadline_upper_bound eps over start T evs : 0 <= eps -> 0 <= over -> 0 <= T ->
  lawful eps over (Some (start + T)) start evs ->
  let '(out, fin) := expect_loop over start (Within T) evs in
  out <> Blocked -> fin <= start + T + eps + over.
Proof.
  intros He Ho HT HL. unfold expect_loop.
  pose proof (loop_bounds eps over (start + T) He Ho evs start (Within T) HL) as B.
  assert (E : Within T = Within (start + T - start)) by (f_equal; lia). specialize (B E).
  destruct (loop over (Some (start + T)) start (Within T) evs) as [out fin]. destruct B as (_ & B2 & _).
  intros Hb. specialize (B2 Hb). lia.
Qed.

Theorem no_early_timeout eps over start T evs : 0 <= eps -> 0 <= over ->
  lawful eps over (Some (start + T)) start evs ->
  let '(out, fin) := expect_loop over start (Within T) evs in
  out = TimedOut -> start + T <= fin.
Proof.
  intros He Ho HL. unfold expect_loop.
  pose proof (loop_bounds eps over (start + T) He Ho evs start (Within T) HL) as B.
  assert (E : Within T = Within (start + T - start)) by (f_equal; lia). specialize (B E).
  destruct (loop over (Some (start + T)) start (Within T) evs) as [out fin]. now destruct B as (_ & _ & B3).
Qed.

(** timeout=None never times out *)
Theorem none_never_times_out eps over : forall evs now, lawful eps over None now evs ->
  fst (loop over None now Forever evs) <> TimedOut.
Proof.
  induction evs as [|e r IH]; intros now HL; cbn [loop expired]; [discriminate|].
  cbn [lawful] in HL. destruct HL as (_ & H1 & H2).
  destruct e; cbn [fst]; try discriminate; [|contradiction].
  unfold remaining_at. now apply IH.
Qed.

(** timeout=0: the deadline test at the loop head does not fire before one read has been attempted, and
    (time advancing) it fires right after a read that did not match *)
Theorem zero_reads_once over now e r : 0 < dur_of e + over ->
  expect_loop over now (Within 0) (e :: r) =
  match e with
  | RHit d => (Matched, now + d + over) | RTimeout d => (TimedOut, now + d) | REof d => (Eof, now + d)
  | RMiss d => (TimedOut, now + d + over)
  end.
Proof.
  intros H. unfold expect_loop. cbn [loop expired]. destruct e; cbn [dur_of] in *; try reflexivity.
  unfold remaining_at. destruct r; cbn [loop expired];
    (destruct (Z.ltb_spec (now + 0 - (now + dur + over)) 0); [reflexivity | lia]).
Qed.

(** a negative timeout is already expired: nothing is read *)
Theorem negative_times_out_at_once over now T evs : T < 0 -> expect_loop over now (Within T) evs = (TimedOut, now).
Proof.
  intros H. unfold expect_loop. destruct evs; cbn [loop expired]; (destruct (Z.ltb_spec T 0); [reflexivity | lia]).
Qed.

(** waitnoecho follows the same conventions: it answers True no later than one nap after the echo went off, and
    False (timeout) no earlier than the deadline *)
Lemma waitnoecho_bounds nap d : 0 < nap -> forall fuel now rem off, rem = Within (d - now) \/ (exists p, rem = Within (d - p) /\ p <= now /\ now <= p + nap) ->
  let '(r, fin) := waitnoecho fuel nap (Some d) now rem off in
  (r = Some false -> d < fin + nap) /\ (r = Some true -> exists o, off = Some o /\ o <= fin).
Proof.
  intros Hn. induction fuel as [|f IH]; intros now rem off Hr; cbn [waitnoecho]; [split; discriminate|].
  destruct off as [o|].
  - destruct (Z.leb_spec o now) as [Ho|Ho]; [split; [discriminate | intros _; exists o; auto]|].
    destruct (expired rem) eqn:E.
    + split; [|discriminate]. intros _. destruct Hr as [->|(p & -> & Hp1 & Hp2)]; cbn in E; apply Z.ltb_lt in E; lia.
    + apply IH. right. exists now. unfold remaining_at. repeat split; lia.
  - destruct (expired rem) eqn:E.
    + split; [|discriminate]. intros _. destruct Hr as [->|(p & -> & Hp1 & Hp2)]; cbn in E; apply Z.ltb_lt in E; lia.
    + apply IH. right. exists now. unfold remaining_at. repeat split; lia.
Qed.

(** a read that returns AFTER the deadline (a slow log file, descheduling: the environment law does not hold for it): its data is
    still searched - a hit is a hit -, and when it does not match, the call reports TIMEOUT at the head of the next iteration
    without reading again, whatever the transport would deliver next.  (This is how the scripted transports of C01-C04 present a
    late read to the Expecter model: the data, then the expiry of the time.) *)
Lemma late_miss_times_out over d now rem dur r : expired rem = false -> d < now + dur + over ->
  loop over (Some d) now rem (RMiss dur :: r) = (TimedOut, now + dur + over).
Proof.
  intros He Hl. cbn [loop]. rewrite He. cbn [dur_of remaining_at].
  destruct r as [|e r]; cbn [loop]; unfold expired; replace (d - (now + dur + over) <? 0) with true by (symmetry; apply Z.ltb_lt; lia); reflexivity.
Qed.
Lemma late_hit_is_a_hit over d now rem dur r : expired rem = false ->
  loop over (Some d) now rem (RHit dur :: r) = (Matched, now + dur + over).
Proof. intros He. cbn [loop]. rewrite He. reflexivity. Qed.
