From Coq Require Import ZArith NArith List Bool.
Import ListNotations.
From PV Require Import Split.Which.
Local Open Scope N_scope.

Section Facts.
  Variable is_exec : text -> bool.
  Variable defpath : text.

  Lemma find_first {A} (p : A -> bool) l r : find p l = Some r ->
    exists pre post, l = pre ++ r :: post /\ p r = true /\ forall x, In x pre -> p x = false.
  Proof.
    induction l as [|x l IH]; cbn [find]; [discriminate|]. destruct (p x) eqn:E.
    - intros [= <-]. exists [], l. repeat split; auto. intros ? [].
    - intros H. destruct (IH H) as (pre & post & -> & Hr & Hpre). exists (x :: pre), post.
      repeat split; auto. intros y [<-|Hy]; auto.
  Qed.

  Lemma which_explicit f env osenv : has_slash f = true -> is_exec f = true ->
    which is_exec defpath f env osenv = Some f.
  Proof. intros H1 H2. unfold which. now rewrite H1, H2. Qed.

  Lemma which_first_on_path f env osenv r : has_slash f && is_exec f = false ->
    which is_exec defpath f env osenv = Some r ->
    exists pre post, candidates defpath f env osenv = pre ++ r :: post /\ is_exec r = true /\
                     forall x, In x pre -> is_exec x = false.
  Proof. intros H. unfold which. rewrite H. apply find_first. Qed.

  Lemma which_some_exec f env osenv r : which is_exec defpath f env osenv = Some r -> is_exec r = true.
  Proof.
    unfold which. destruct (has_slash f && is_exec f) eqn:E.
    - intros [= <-]. now apply andb_prop in E.
    - intros H. now destruct (find_first _ _ _ H) as (? & ? & _ & ? & _).
  Qed.

  Lemma which_none f env osenv : which is_exec defpath f env osenv = None ->
    forall x, In x (candidates defpath f env osenv) -> is_exec x = false.
  Proof.
    unfold which. destruct (has_slash f && is_exec f); [discriminate|].
    intros H x Hx. now apply (find_none _ _ H).
  Qed.

  (** the env argument's PATH, when the argument is given, decides alone *)
  Lemma which_env_wins f e os1 os2 :
    which is_exec defpath f (Some e) os1 = which is_exec defpath f (Some e) os2.
  Proof. reflexivity. Qed.
  Lemma which_empty_path_is_default f os : which is_exec defpath f (Some None) os = which is_exec defpath f (Some (Some [])) os.
  Proof. reflexivity. Qed.
End Facts.
