(** Round trip of pexpect.utils.split_command_line, over the definition REGENERATED from the
    source on every run (Gen/SplitCmd.v). *)
From Coq Require Import ZArith NArith List Bool Lia.
Import ListNotations.
From PV Require Import Base.Chars Gen.SplitCmd Split.Spec.
Local Open Scope N_scope.
Arguments N.eqb : simpl never.
Arguments isspace : simpl never.

Definition run (s : st) (l : text) : st := fold_left step l s.
Lemma run_app s a b : run s (a ++ b) = run (run s a) b.
Proof. unfold run. apply fold_left_app. Qed.

Definition outside (z : Z) : Prop := z = 0%Z \/ z = 4%Z.

(** characterisation of the generated [step], one lemma per (state class, character class) *)
Lemma step_ws_space al c : isspace c = true -> N.eqb c 92 = false -> N.eqb c 39 = false -> N.eqb c 34 = false ->
  step (mk al [] 4%Z) c = mk al [] 4%Z.
Proof. intros H1 H2 H3 H4. unfold step. cbn. rewrite ?H1, ?H2, ?H3, ?H4. cbn. reflexivity. Qed.

Lemma step_basic_space al a c : isspace c = true -> N.eqb c 92 = false -> N.eqb c 39 = false -> N.eqb c 34 = false ->
  step (mk al a 0%Z) c = mk (al ++ [a]) [] 4%Z.
Proof. intros H1 H2 H3 H4. unfold step. cbn. rewrite ?H1, ?H2, ?H3, ?H4. cbn. reflexivity. Qed.

Lemma step_out_bs al a z : outside z -> step (mk al a z) 92 = mk al a 1%Z.
Proof. intros [->| ->]; reflexivity. Qed.
Lemma step_out_sq al a z : outside z -> step (mk al a z) 39 = mk al a 2%Z.
Proof. intros [->| ->]; reflexivity. Qed.
Lemma step_out_dq al a z : outside z -> step (mk al a z) 34 = mk al a 3%Z.
Proof. intros [->| ->]; reflexivity. Qed.
Lemma step_esc al a c : step (mk al a 1%Z) c = mk al (a ++ [c]) 0%Z.
Proof. reflexivity. Qed.
Lemma step_sq_close al a : step (mk al a 2%Z) 39 = mk al a 0%Z.
Proof. reflexivity. Qed.
Lemma step_sq_char al a c : N.eqb c 39 = false -> step (mk al a 2%Z) c = mk al (a ++ [c]) 2%Z.
Proof. intros H. unfold step. cbn. rewrite H. reflexivity. Qed.
Lemma step_dq_close al a : step (mk al a 3%Z) 34 = mk al a 0%Z.
Proof. reflexivity. Qed.
Lemma step_dq_char al a c : N.eqb c 34 = false -> step (mk al a 3%Z) c = mk al (a ++ [c]) 3%Z.
Proof. intros H. unfold step. cbn. rewrite H. reflexivity. Qed.

Lemma space_not_special c : isspace c = true -> N.eqb c 92 = false /\ N.eqb c 39 = false /\ N.eqb c 34 = false.
Proof.
  intros H. repeat split; destruct (N.eqb_spec c 92), (N.eqb_spec c 39), (N.eqb_spec c 34); subst;
    try reflexivity; vm_compute in H; discriminate.
Qed.

(** whitespace between arguments *)
Lemma run_ws_idle al w : all_space w = true -> run (mk al [] 4%Z) w = mk al [] 4%Z.
Proof.
  induction w as [|c w IH]; cbn [all_space forallb]; intros H; [reflexivity|].
  apply andb_prop in H as [Hc Hw]. destruct (space_not_special c Hc) as (H1 & H2 & H3).
  unfold run; cbn [fold_left]. rewrite step_ws_space by assumption. apply IH, Hw.
Qed.
Lemma run_ws_after_arg al a w : all_space w = true -> w <> [] -> run (mk al a 0%Z) w = mk (al ++ [a]) [] 4%Z.
Proof.
  destruct w as [|c w]; [congruence|]. cbn [all_space forallb]. intros H _.
  apply andb_prop in H as [Hc Hw]. destruct (space_not_special c Hc) as (H1 & H2 & H3).
  unfold run; cbn [fold_left]. rewrite step_basic_space by assumption. apply run_ws_idle, Hw.
Qed.

(** each quoting style delivers the argument *)
Lemma run_quote_bs al a0 z a : outside z -> a <> [] -> run (mk al a0 z) (quote_bs a) = mk al (a0 ++ a) 0%Z.
Proof.
  intros Hz Hne. destruct a as [|c a]; [congruence|]. clear Hne.
  revert a0 z Hz c. induction a as [|d a IH]; intros a0 z Hz c.
  - unfold run, quote_bs; cbn [flat_map app fold_left]. rewrite step_out_bs by assumption. now rewrite step_esc.
  - change (quote_bs (c :: d :: a)) with ([92; c] ++ quote_bs (d :: a)). rewrite run_app.
    unfold run at 2; cbn [fold_left]. rewrite step_out_bs by assumption. rewrite step_esc.
    rewrite IH by (left; reflexivity). now rewrite <- app_assoc.
Qed.

Lemma run_sq_inner al a0 a : run (mk al a0 2%Z) (flat_map (fun c => if N.eqb c 39 then [39; 92; 39; 39] else [c]) a)
  = mk al (a0 ++ a) 2%Z.
Proof.
  revert a0. induction a as [|c a IH]; intros a0; cbn [flat_map].
  - now rewrite app_nil_r.
  - rewrite run_app. destruct (N.eqb c 39) eqn:E.
    + apply N.eqb_eq in E; subst. change (run (mk al a0 2%Z) [39; 92; 39; 39]) with (mk al (a0 ++ [39]) 2%Z).
      rewrite IH, <- app_assoc. reflexivity.
    + unfold run at 2; cbn [fold_left]. rewrite step_sq_char by assumption.
      rewrite IH, <- app_assoc. reflexivity.
Qed.
Lemma run_quote_sq al a0 z a : outside z -> run (mk al a0 z) (quote_sq a) = mk al (a0 ++ a) 0%Z.
Proof.
  intros Hz. unfold quote_sq. change (39 :: ?l) with ([39] ++ l). rewrite !run_app.
  unfold run at 3; cbn [fold_left]. rewrite step_out_sq by assumption. rewrite run_sq_inner. reflexivity.
Qed.

Lemma run_dq_inner al a0 a : existsb (N.eqb 34) a = false -> run (mk al a0 3%Z) a = mk al (a0 ++ a) 3%Z.
Proof.
  revert a0. induction a as [|c a IH]; intros a0 H; cbn [existsb] in *.
  - now rewrite app_nil_r.
  - apply orb_false_elim in H as [Hc Ha]. rewrite N.eqb_sym in Hc.
    unfold run; cbn [fold_left]. rewrite step_dq_char by assumption. fold (run (mk al (a0 ++ [c]) 3%Z) a).
    rewrite IH by assumption. now rewrite <- app_assoc.
Qed.
Lemma run_quote_dq al a0 z a : outside z -> existsb (N.eqb 34) a = false ->
  run (mk al a0 z) (quote_dq a) = mk al (a0 ++ a) 0%Z.
Proof.
  intros Hz Ha. unfold quote_dq. change (34 :: ?l) with ([34] ++ l). rewrite !run_app.
  unfold run at 3; cbn [fold_left]. rewrite step_out_dq by assumption. rewrite run_dq_inner by assumption. reflexivity.
Qed.

Lemma run_quote q al a0 z a : outside z -> a <> [] -> usable q a = true ->
  run (mk al a0 z) (quote q a) = mk al (a0 ++ a) 0%Z.
Proof.
  intros Hz Hne Hu. destruct q; cbn [quote].
  - now apply run_quote_bs.
  - now apply run_quote_sq.
  - apply run_quote_dq; [assumption|]. cbn in Hu. now apply negb_true_iff in Hu.
Qed.

Lemma body_roundtrip items : wf items -> forall al,
  finish (run (mk al [] 4%Z) (body items)) = al ++ argv items.
Proof.
  induction items as [|[[q a] w] r IH]; cbn [wf body argv map]; intros Hwf al.
  - cbn. now rewrite app_nil_r.
  - destruct Hwf as (Hne & Hu & Hw & Hlast & Hr). cbn [fst snd].
    rewrite run_app, run_quote by (try right; auto). cbn [app].
    destruct w as [|c w].
    + (* no whitespace after it: it is the last item *)
      destruct r as [|i r]; [|exfalso; now apply Hlast]. cbn [body app run fold_left].
      unfold finish. cbn. destruct a; [congruence|]. reflexivity.
    + rewrite run_app, run_ws_after_arg by (auto; congruence).
      rewrite (IH Hr). now rewrite <- app_assoc.
Qed.

(** the round trip: any leading whitespace, then the quoted arguments separated by whitespace *)
Lemma split_roundtrip lead items :
  all_space lead = true -> wf items -> split (lead ++ body items) = argv items.
Proof.
  intros Hl Hwf. unfold split.
  replace (fold_left step (lead ++ body items) init) with (run init (lead ++ body items)) by reflexivity.
  rewrite run_app. replace init with (mk [] [] 4%Z) by reflexivity. rewrite run_ws_idle by assumption.
  now rewrite body_roundtrip.
Qed.

(** an un-quoted word made of ordinary characters is also delivered as is *)
Definition plain (c : N) : bool := negb (isspace c || N.eqb c 92 || N.eqb c 39 || N.eqb c 34).
Lemma run_plain al a0 z a : outside z -> a <> [] -> forallb plain a = true ->
  run (mk al a0 z) a = mk al (a0 ++ a) 0%Z.
Proof.
  intros Hz Hne. destruct a as [|c a]; [congruence|]. clear Hne. revert a0 z Hz c.
  assert (one : forall al a0 z c, outside z -> plain c = true -> step (mk al a0 z) c = mk al (a0 ++ [c]) 0%Z).
  { intros al' a0 z c Hz Hp. unfold plain in Hp. apply negb_true_iff in Hp.
    apply orb_false_elim in Hp as [Hp H34]. apply orb_false_elim in Hp as [Hp H39].
    apply orb_false_elim in Hp as [Hsp H92].
    destruct Hz as [-> | ->]; unfold step; cbn; rewrite ?Hsp, ?H92, ?H39, ?H34; reflexivity. }
  assert (rest : forall b a0, forallb plain b = true -> run (mk al a0 0%Z) b = mk al (a0 ++ b) 0%Z).
  { clear a. induction b as [|d a IH]; intros a0 H; cbn [forallb] in H.
    - unfold run; cbn [fold_left]. now rewrite app_nil_r.
    - apply andb_prop in H as [Hc Hr]. unfold run; cbn [fold_left]. rewrite one by (auto; left; reflexivity).
      change (fold_left step a ?s) with (run s a). rewrite IH by assumption. now rewrite <- app_assoc. }
  intros a0 z Hz c H. cbn [forallb] in H. apply andb_prop in H as [Hc Hr].
  unfold run; cbn [fold_left]. rewrite one by assumption.
  change (fold_left step a ?s) with (run s a). rewrite rest by assumption. now rewrite <- app_assoc.
Qed.

(** non-vacuity: a concrete command line meeting the premises *)
Example wf_example :
  wf [(BS, [97; 32], [32; 9]); (SQ, [39; 98], [32]); (DQ, [99; 92], [])] /\ all_space [32; 32] = true.
Proof. cbn. repeat split; solve [discriminate | reflexivity | intros _; discriminate | intros H; exfalso; apply H; reflexivity | congruence]. Qed.
