(** C13 (command-line part): quoting styles and the shape of a command line built from an argv. *)
From Coq Require Import ZArith NArith List Bool.
Import ListNotations.
From PV Require Import Base.Chars.
Local Open Scope N_scope.

Definition text := list N.
Definition all_space (w : text) : bool := forallb isspace w.

Inductive style := BS | SQ | DQ.

(** backslash in front of every character *)
Definition quote_bs (a : text) : text := flat_map (fun c => [92; c]) a.
(** '...' with every embedded single quote spliced as '\'' *)
Definition quote_sq (a : text) : text :=
  39 :: flat_map (fun c => if N.eqb c 39 then [39; 92; 39; 39] else [c]) a ++ [39].
(** "..." - usable when the argument contains no double quote (backslash is literal inside) *)
Definition quote_dq (a : text) : text := 34 :: a ++ [34].

Definition quote (q : style) (a : text) : text :=
  match q with BS => quote_bs a | SQ => quote_sq a | DQ => quote_dq a end.
Definition usable (q : style) (a : text) : bool :=
  match q with DQ => negb (existsb (N.eqb 34) a) | _ => true end.

(** one item = (quoting style, argument, whitespace that follows it) *)
Definition item := (style * text * text)%type.
Fixpoint body (items : list item) : text :=
  match items with
  | [] => []
  | (q, a, w) :: r => quote q a ++ w ++ body r
  end.
Fixpoint wf (items : list item) : Prop :=
  match items with
  | [] => True
  | (q, a, w) :: r =>
      a <> [] /\ usable q a = true /\ all_space w = true /\ (r <> [] -> w <> []) /\ wf r
  end.
Definition argv (items : list item) : list text := map (fun i => snd (fst i)) items.
