(** C13 (executable lookup): model of pexpect.utils.which over an abstract executability
    predicate ([is_executable_file] touches the file system and is exercised, not modelled). *)
From Coq Require Import ZArith NArith List Bool.
Import ListNotations.
From PV Require Import Base.V.
Local Open Scope N_scope.

Definition text := list N.

Fixpoint text_eqb (a b : text) : bool :=
  match a, b with
  | [], [] => true
  | x :: a', y :: b' => N.eqb x y && text_eqb a' b'
  | _, _ => false
  end.

(** [p.split(sep)] for a one-character separator *)
Fixpoint split_on (sep : N) (l cur : text) : list text :=
  match l with
  | [] => [rev cur]
  | c :: r => if N.eqb c sep then rev cur :: split_on sep r [] else split_on sep r (c :: cur)
  end.

(** posixpath.join(d, f) *)
Definition join (d f : text) : text :=
  match f with
  | 47 :: _ => f
  | _ => match rev d with
         | [] => f
         | 47 :: _ => d ++ f
         | _ => d ++ 47 :: f
         end
  end.

Definition has_slash (f : text) : bool := existsb (N.eqb 47) f.   (* os.path.dirname(f) != '' *)

Section Which.
  Variable is_exec : text -> bool.
  Variable defpath : text.

  (** env : the env argument (None = not given), as the value of its PATH entry (None = no entry);
      osenv : the PATH entry of os.environ *)
  Definition effective_path (env : option (option text)) (osenv : option text) : text :=
    let p := match env with Some e => e | None => osenv end in
    match p with Some (c :: r) => c :: r | _ => defpath end.

  Definition candidates (f : text) (env : option (option text)) (osenv : option text) : list text :=
    map (fun d => join d f) (split_on 58 (effective_path env osenv) []).

  Definition which (f : text) (env : option (option text)) (osenv : option text) : option text :=
    if has_slash f && is_exec f then Some f
    else find is_exec (candidates f env osenv).
End Which.

(** correspondence entry point: executability = membership in a list *)
Definition which_case (c : text * option (option text) * option text * list text * text) : V :=
  match c with (f, env, osenv, execs, defpath) =>
    vopt vtext (which (fun p => existsb (text_eqb p) execs) defpath f env osenv)
  end.
