From Coq Require Import ZArith NArith List Bool.
Import ListNotations.
From PV Require Import Base.Chars Gen.SplitCmd Split.Spec Split.Proofs Split.Which Split.WhichProofs Launch.Model.

(** a command line built by quoting an argv (any of the three styles per argument, any whitespace around) is launched with
    exactly that argv, its first element resolved on the effective PATH *)
Theorem launch_argv is_exec defpath lead items env osenv a0 rest p :
  all_space lead = true -> wf items -> argv items = a0 :: rest ->
  which is_exec defpath a0 env osenv = Some p ->
  exists name, prepare is_exec defpath (lead ++ body items) [] env osenv = inr (p :: rest, name).
Proof.
  intros Hl Hwf Ha Hw. unfold prepare. rewrite (split_roundtrip lead items Hl Hwf), Ha, Hw. eauto.
Qed.

(** ... and is refused when nothing executable is found, or when the command line holds no argument at all *)
Theorem launch_not_found is_exec defpath lead items env osenv a0 rest :
  all_space lead = true -> wf items -> argv items = a0 :: rest ->
  which is_exec defpath a0 env osenv = None ->
  prepare is_exec defpath (lead ++ body items) [] env osenv = inl (LNotFound a0).
Proof. intros Hl Hwf Ha Hw. unfold prepare. now rewrite (split_roundtrip lead items Hl Hwf), Ha, Hw. Qed.

(** with an explicit argument list nothing is parsed: the arguments are passed as they are *)
Theorem launch_explicit_args is_exec defpath command a args env osenv p :
  which is_exec defpath command env osenv = Some p ->
  exists name, prepare is_exec defpath command (a :: args) env osenv = inr (p :: a :: args, name).
Proof. intros Hw. unfold prepare. rewrite Hw. eauto. Qed.
