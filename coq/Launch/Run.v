From Coq Require Import ZArith NArith List Bool.
Import ListNotations.
From PV Require Import Base.V Split.Which Launch.Model.

(** (command, args, env, os PATH, executables, defpath, echo, dimensions, ignore_sighup, user preexec_fn given) *)
Definition launch_case (c : text * list text * option (option text) * option text * list text * text * bool * option (nat * nat) * bool * bool) : V :=
  match c with (command, args, env, osenv, execs, defpath, echo, dims, hup, pre) =>
    let k := launch_kwargs echo dims hup pre in
    VL [match prepare (fun p => existsb (text_eqb p) execs) defpath command args env osenv with
        | inl LIndexError => VL [VI 1]
        | inl (LNotFound cmd) => VL [VI 2; vtext cmd]
        | inr (argv, name) => VL [VI 0; vlist vtext argv; vtext name]
        end;
        VL [vbool (k_echo k); vopt (fun d => VL [vnat (fst d); vnat (snd d)]) (k_dims k); vbool (k_hup_wrapper k); vbool (k_user_preexec k)]]
  end.
