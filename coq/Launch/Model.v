(** C13: what pexpect.spawn._spawn (pty_spawn.py:268-330) hands to ptyprocess: the argument vector (split command line or
    command + args, first element replaced by the resolved executable), the name attribute, and the keyword arguments. *)
From Coq Require Import ZArith NArith List Bool.
Import ListNotations.
From PV Require Import Base.Chars Gen.SplitCmd Split.Which.

Inductive lerr := LIndexError | LNotFound (cmd : text).

Fixpoint join_sp (ls : list text) : text :=
  match ls with [] => [] | [x] => x | x :: r => x ++ 32%N :: join_sp r end.

Section Launch.
  Variable is_exec : text -> bool.
  Variable defpath : text.

  (** argv and name; [args = []] means "parse the command line" *)
  Definition prepare (command : text) (args : list text) (env : option (option text)) (osenv : option text)
    : lerr + (list text * text) :=
    let argv0 := match args with [] => split command | _ => command :: args end in
    match argv0 with
    | [] => inl LIndexError                                     (* self.args[0] on an empty list *)
    | c :: rest =>
        match which is_exec defpath c env osenv with
        | None => inl (LNotFound c)
        | Some p => inr (p :: rest, (60%N :: join_sp (p :: rest)) ++ [62%N])
        end
    end.
End Launch.

(** the keyword arguments: echo and the environment / working directory are passed as given, dimensions only when given,
    a preexec wrapper that ignores SIGHUP exactly when ignore_sighup is set *)
Record kwargs := { k_echo : bool; k_dims : option (nat * nat); k_hup_wrapper : bool; k_user_preexec : bool }.
Definition launch_kwargs (echo : bool) (dims : option (nat * nat)) (ignore_sighup user_preexec : bool) : kwargs :=
  {| k_echo := echo; k_dims := dims; k_hup_wrapper := ignore_sighup; k_user_preexec := user_preexec |}.
