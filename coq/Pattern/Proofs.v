From Coq Require Import ZArith NArith List Bool Lia.
Import ListNotations.
From PV Require Import Base.Utf8 Pattern.Model.
Local Open Scope N_scope.

Definition str_flags (m : mode) : N := if ignorecase m then N.lor F_S F_I else F_S.

(** a string pattern is the natively typed compiled pattern with DOTALL (+ IGNORECASE when ignorecase) *)
Lemma str_is_compiled_unicode m s : bytes_mode m = false ->
  compile1 m (OStr s) = compile1 m (ORe TStr s (norm_flags TStr (str_flags m))).
Proof. intros H. unfold compile1, coerce_string, str_flags. now rewrite H. Qed.

Lemma bytes_is_compiled m s : bytes_mode m = true ->
  compile1 m (OBytes s) = compile1 m (ORe TBytes s (str_flags m)).
Proof. intros H. unfold compile1, coerce_string, str_flags. now rewrite H. Qed.

(** ASCII text given to a bytes-mode object is the bytes pattern *)
Lemma ascii_text_is_bytes m s : bytes_mode m = true -> is_ascii s = true ->
  compile1 m (OStr s) = compile1 m (OBytes s) /\ prepare1 m (OStr s) = prepare1 m (OBytes s).
Proof. intros H Ha. unfold compile1, prepare1, coerce_string. now rewrite H, Ha. Qed.

Lemma utf8_ascii s : is_ascii s = true -> utf8_encode s = s.
Proof.
  induction s as [|c s IH]; cbn [is_ascii forallb utf8_encode flat_map]; [reflexivity|].
  intros H. apply andb_prop in H as [Hc Hs]. unfold utf8_char. rewrite Hc. cbn [app]. f_equal. now apply IH.
Qed.

(** a compiled pattern keeps its own flags, also when it is of the other string type: every flag bit other
    than UNICODE (bit 5, implied by / illegal for the string type) and LOCALE (bit 2, bytes-only) is preserved,
    the string type becomes the object's, an ASCII source is unchanged *)
Lemma testbit_U k : N.testbit F_U k = N.eqb 5 k.
Proof. change F_U with (2 ^ 5). apply N.pow2_bits_eqb. Qed.
Lemma testbit_L k : N.testbit F_L k = N.eqb 2 k.
Proof. change F_L with (2 ^ 2). apply N.pow2_bits_eqb. Qed.

Lemma compiled_keeps_flags m t src fl :
  exists t' src' fl', compile1 m (ORe t src fl) = inl (DRe t' src' fl') /\
    t' = (if bytes_mode m then TBytes else TStr) /\
    (is_ascii src = true -> src' = src) /\
    (forall k, k <> 5 -> k <> 2 -> N.testbit fl' k = N.testbit fl k).
Proof.
  unfold compile1, coerce_string, norm_flags.
  destruct t, (bytes_mode m); eexists _, _, _; (split; [reflexivity|]); (split; [reflexivity|]); split; auto;
    try apply utf8_ascii; intros k H5 H2;
    rewrite ?N.lor_spec, ?N.ldiff_spec, ?testbit_U, ?testbit_L;
    repeat match goal with |- context[N.eqb ?a k] => destruct (N.eqb_spec a k); [congruence|] end;
    cbn; rewrite ?andb_true_r, ?orb_false_r; reflexivity.
Qed.

(** a single pattern is a one-element list *)
Lemma single_is_list m p : (forall l, p <> OList l) -> p <> ONone ->
  compile_pattern_list m p = compile_pattern_list m (OList [p]).
Proof. intros H1 H2. destruct p; try reflexivity; [now elim H2 | now elim (H1 l)]. Qed.

(** every other object is rejected with TypeError *)
Lemma other_rejected m : compile1 m OOther = inr TypeError /\ compile1 m ONone = inr TypeError /\
  (forall l, compile1 m (OList l) = inr TypeError) /\
  prepare_exact m OOther = inr TypeError /\ prepare_exact m ONone = inr TypeError /\
  (forall t s f, prepare_exact m (ORe t s f) = inr TypeError) /\
  (bytes_mode m = false -> forall s, compile1 m (OBytes s) = inr TypeError).
Proof.
  repeat split; try reflexivity. intros H s. unfold compile1, coerce_string. now rewrite H.
Qed.

Lemma map_err_in {A B} (f : A -> B + err) l x e : In x l -> f x = inr e -> exists e', map_err f l = inr e'.
Proof.
  induction l as [|y l IH]; intros [] Hf; cbn [map_err].
  - subst. rewrite Hf. eauto.
  - destruct (f y); [|eauto]. destruct (IH H Hf) as [e' ->]. eauto.
Qed.

(** one bad entry anywhere in the list makes the whole call fail before anything is searched *)
Lemma bad_entry_rejects m l x e : In x l -> compile1 m x = inr e -> exists e', compile_pattern_list m (OList l) = inr e'.
Proof. intros. cbn. eapply map_err_in; eauto. Qed.
