From Coq Require Import ZArith NArith List Bool.
Import ListNotations.
From PV Require Import Base.V Pattern.Model.

Definition enc_t (t : styp) : V := match t with TStr => VI 0 | TBytes => VI 1 end.
Definition mask : N := 2 + 4 + 8 + 16 + 64 + 256.         (* I L M S X A : UNICODE is implied by the type *)
Definition enc_desc (d : desc) : V :=
  match d with
  | DRe t s fl => VL [VI 0; enc_t t; vtext s; vN (N.land fl mask)]
  | DLit t s => VL [VI 1; enc_t t; vtext s]
  | DEof => VL [VI 2] | DTimeout => VL [VI 3]
  end.
Definition enc_res (r : list desc + err) : V :=
  match r with inl l => VL [VI 0; vlist enc_desc l] | inr TypeError => VL [VI 1] | inr UnicodeError => VL [VI 2] end.
(** (bytes_mode, ignorecase, exact?, pattern) *)
Definition run_pattern (c : bool * bool * bool * pobj) : V :=
  match c with (b, i, ex, p) =>
    let m := {| bytes_mode := b; ignorecase := i |} in
    enc_res (if ex then prepare_exact m p else compile_pattern_list m p)
  end.
