(** C20: model of SpawnBase.compile_pattern_list / _coerce_expect_string / _coerce_expect_re and of the
    pattern preparation of expect_exact.  A compiled pattern is described by (string type, source, flags). *)
From Coq Require Import ZArith NArith List Bool.
Import ListNotations.
From PV Require Import Base.Utf8.
Local Open Scope N_scope.

Definition text := list N.
Inductive styp := TStr | TBytes.

(** re flag bits *)
Definition F_I := 2. Definition F_L := 4. Definition F_M := 8. Definition F_S := 16.
Definition F_U := 32. Definition F_X := 64. Definition F_A := 256.

Inductive pobj :=
| OStr (s : text) | OBytes (s : text)
| ORe (t : styp) (src : text) (fl : N)         (* a compiled pattern with its own flags *)
| OEof | OTimeout | ONone
| OOther                                        (* int, float, ... : not iterable, not a pattern *)
| OList (l : list pobj).

Inductive desc := DRe (t : styp) (src : text) (fl : N) | DLit (t : styp) (s : text) | DEof | DTimeout.
Inductive err := TypeError | UnicodeError.

Record mode := { bytes_mode : bool; ignorecase : bool }.

(** what re.compile records: str patterns carry re.UNICODE implicitly *)
Definition norm_flags (t : styp) (fl : N) : N :=
  match t with TStr => N.lor fl F_U | TBytes => fl end.

(** _coerce_expect_string *)
Definition coerce_string (m : mode) (p : pobj) : option (styp * text) + err :=
  match p with
  | OStr s => if bytes_mode m then (if is_ascii s then inl (Some (TBytes, s)) else inr UnicodeError)
              else inl (Some (TStr, s))
  | OBytes s => if bytes_mode m then inl (Some (TBytes, s)) else inl None   (* not an allowed string type *)
  | _ => inl None
  end.

(** one entry of compile_pattern_list *)
Definition compile1 (m : mode) (p : pobj) : desc + err :=
  match coerce_string m p with
  | inr e => inr e
  | inl (Some (t, s)) =>
      let fl := if ignorecase m then N.lor F_S F_I else F_S in
      inl (DRe t s (norm_flags t fl))
  | inl None =>
      match p with
      | OEof => inl DEof
      | OTimeout => inl DTimeout
      | ORe TStr src fl => if bytes_mode m then inl (DRe TBytes (utf8_encode src) (N.ldiff fl F_U))
                           else inl (DRe TStr src fl)
      | ORe TBytes src fl => if bytes_mode m then inl (DRe TBytes src fl)
                             else inl (DRe TStr src (norm_flags TStr (N.ldiff fl F_L)))   (* ascii sources *)
      | _ => inr TypeError
      end
  end.

Fixpoint map_err {A B} (f : A -> B + err) (l : list A) : list B + err :=
  match l with
  | [] => inl []
  | x :: r => match f x with
              | inr e => inr e
              | inl y => match map_err f r with inr e => inr e | inl ys => inl (y :: ys) end
              end
  end.

Definition compile_pattern_list (m : mode) (p : pobj) : list desc + err :=
  match p with
  | ONone => inl []
  | OList l => map_err (compile1 m) l
  | _ => map_err (compile1 m) [p]
  end.

(** expect_exact's preparation *)
Definition prepare1 (m : mode) (p : pobj) : desc + err :=
  match p with
  | OEof => inl DEof
  | OTimeout => inl DTimeout
  | _ => match coerce_string m p with
         | inr e => inr e
         | inl (Some (t, s)) => inl (DLit t s)
         | inl None => inr TypeError
         end
  end.

(** iterating a bytes object yields ints, a str yields one-character strings *)
Definition prepare_exact (m : mode) (p : pobj) : list desc + err :=
  match p with
  | OEof | OTimeout => map_err (prepare1 m) [p]
  | OList l => map_err (prepare1 m) l
  | OStr s => match coerce_string m p with
              | inl (Some _) | inr _ => map_err (prepare1 m) [p]
              | inl None => inr TypeError
              end
  | OBytes s => if bytes_mode m then map_err (prepare1 m) [p]
                else match s with [] => inl [] | _ => inr TypeError end        (* iter(b'..') -> ints *)
  | _ => inr TypeError
  end.
