From Coq Require Import ZArith NArith List Bool.
Import ListNotations.
From PV Require Import Base.V Base.PySeq Base.Rx Expect.Model Expect.Run Async.Model.

(** each operation comes with the transport events that occur during it (a call stops consuming when it returns) *)
Fixpoint run_aops (ops : list (aop rx * list ev)) (s : st) : list V :=
  match ops with
  | [] => []
  | (ABlocking c t0, evs) :: r => match expect_loop rx rx_search c t0 s evs with
                                  | (x, s', evs') => enc_step (Some x, s', length evs') :: run_aops r s'
                                  end
  | (AAwait c, evs) :: r => match await_call rx rx_search c s evs with
                            | (x, s', evs') => enc_step (Some x, s', length evs') :: run_aops r s'
                            end
  | (AIdle d, _) :: r => enc_step (None, idle_data s d, 0) :: run_aops r (idle_data s d)
  end.
Definition run_async (ops : list (aop rx * list ev)) : V := VL (run_aops ops {| pend := []; buf := [] |}).
