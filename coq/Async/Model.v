(** C14: the asyncio path.  expect_async (pexpect/_async_w_await.py) runs Expecter.existing_data, then PatternWaiter
    feeds every chunk to Expecter.new_data, EOF to Expecter.eof and the wait_for timeout to Expecter.timeout: the very
    functions of the blocking loop, driven by the same kinds of events.  What is specific to the asyncio path is data that
    arrives while no call is outstanding: PatternWaiter.data_received then appends it to BOTH buffers. *)
From Coq Require Import ZArith NArith List Bool Arith.
Import ListNotations.
From PV Require Import Base.PySeq Expect.Model Expect.Spec.

Section Async.
  Variable rx : Type.
  Variable re_search : rx -> text -> nat -> option (nat * nat).

  (** data_received while the future is done (pexpect/_async_w_await.py:93-96) *)
  Definition idle_data (s : st) (d : text) : st := {| pend := pend s ++ d; buf := buf s ++ d |}.

  (** one awaited call = existing_data, then new_data / eof / timeout per event: Model.expect_loop *)
  Definition await_call (c : cfg rx) (s : st) (evs : list ev) : res * st * list ev := expect_loop rx re_search c false s evs.

  (** histories mixing blocking calls, awaited calls and output arriving between calls *)
  Inductive aop := ABlocking (c : cfg rx) (t0 : bool) | AAwait (c : cfg rx) | AIdle (d : text).
  Fixpoint ahistory (ops : list aop) (s : st) (evs : list ev) : list (option res * st * nat) :=
    match ops with
    | [] => []
    | ABlocking c t0 :: r => match expect_loop rx re_search c t0 s evs with
                             | (x, s', evs') => (Some x, s', length evs') :: ahistory r s' evs'
                             end
    | AAwait c :: r => match await_call c s evs with
                       | (x, s', evs') => (Some x, s', length evs') :: ahistory r s' evs'
                       end
    | AIdle d :: r => (None, idle_data s d, length evs) :: ahistory r (idle_data s d) evs
    end.

  (** the reference: only the pending text; idle output is simply pending text *)
  Fixpoint nahistory (ops : list aop) (p : text) (evs : list ev) : list (option res * text * nat) :=
    match ops with
    | [] => []
    | ABlocking c t0 :: r => match ncall rx re_search c t0 p evs with
                             | (x, p', evs') => (Some x, p', length evs') :: nahistory r p' evs'
                             end
    | AAwait c :: r => match ncall rx re_search c false p evs with
                       | (x, p', evs') => (Some x, p', length evs') :: nahistory r p' evs'
                       end
    | AIdle d :: r => (None, p ++ d, length evs) :: nahistory r (p ++ d) evs
    end.
End Async.
Arguments ABlocking {rx}. Arguments AAwait {rx}. Arguments AIdle {rx}.
