From Coq Require Import ZArith NArith List Bool Arith Lia.
Import ListNotations.
From PV Require Import Base.PySeq Expect.Model Expect.Spec Expect.Refine Async.Model.

Section Proofs.
  Variable rx : Type.
  Variable re_search : rx -> text -> nat -> option (nat * nat).

  Lemma idle_inv s d : Inv s -> Inv (idle_data s d).
  Proof. intros [x Hx]. exists x. cbn. now rewrite Hx, app_assoc. Qed.

  Definition wf_aop (o : aop rx) : Prop := match o with ABlocking c _ | AAwait c => wfW rx c | AIdle _ => True end.
  Definition exact_span (o : aop rx) : Prop :=
    match o with ABlocking c _ | AAwait c => ckind c = KRe \/ W c <> None | AIdle _ => True end.

  (** blocking and awaited calls, in any mixture and with output arriving in between, all behave like the naive
      procedure on the pending text: same outcome, before/after, events consumed, pending text *)
  Theorem ahistory_refines : forall ops s evs, Forall wf_aop ops -> Inv s ->
    Forall2 (fun o xy => match fst xy, snd xy with
                         | (r, s', n), (r2, p2, n2) =>
                             option_map (strip) r = option_map (strip) r2 /\ (exact_span o -> r = r2) /\ pend s' = p2 /\ n = n2
                         end) ops
      (combine (ahistory rx re_search ops s evs) (nahistory rx re_search ops (pend s) evs)).
  Proof.
    induction ops as [|o ops IH]; intros s evs Hwf HI; cbn [ahistory nahistory combine]; [constructor|].
    inversion Hwf as [|? ? Ho Hops]; subst. destruct o as [c t0|c|d]; cbn [wf_aop] in Ho.
    - pose proof (expect_refines rx re_search c t0 s evs Ho HI) as A.
      destruct (expect_loop rx re_search c t0 s evs) as [[r s'] e']. destruct (ncall rx re_search c t0 (pend s) evs) as [[r2 p2] e2].
      destruct A as (A1 & A2 & A3 & A4 & A5). subst p2 e2. cbn [combine]. constructor; [|now apply IH].
      cbn [fst snd option_map exact_span]. repeat split; auto; [now rewrite A1 | intros H; now rewrite (A2 H)].
    - unfold await_call. pose proof (expect_refines rx re_search c false s evs Ho HI) as A.
      destruct (expect_loop rx re_search c false s evs) as [[r s'] e']. destruct (ncall rx re_search c false (pend s) evs) as [[r2 p2] e2].
      destruct A as (A1 & A2 & A3 & A4 & A5). subst p2 e2. cbn [combine]. constructor; [|now apply IH].
      cbn [fst snd option_map exact_span]. repeat split; auto; [now rewrite A1 | intros H; now rewrite (A2 H)].
    - cbn [combine]. constructor; [cbn; auto|]. apply (IH (idle_data s d) evs Hops (idle_inv s d HI)).
  Qed.

  (** in particular an awaited call and a blocking call from the same state on the same events agree exactly *)
  Theorem await_is_blocking c s evs : await_call rx re_search c s evs = expect_loop rx re_search c false s evs.
  Proof. reflexivity. Qed.
End Proofs.
