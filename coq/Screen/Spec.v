(** Documentation-level reference for pexpect.screen: the grid is a function from 0-based
    (row, column) to a character; every operation says, cell by cell, what the new grid is. *)
From Coq Require Import ZArith NArith List Bool Arith.
Import ListNotations.
From PV Require Import Screen.Model.
Local Open Scope Z_scope.

Record ascr := mkA {
  aR : Z; aC : Z; ar : Z; ac : Z; asr : Z; asc : Z; atop : Z; abot : Z;
  ag : nat -> nat -> N
}.

Definition clamp (n hi : Z) : Z := Z.max 1 (Z.min n hi).          (* nearest edge *)
Definition row_of (i : nat) : Z := Z.of_nat i + 1.               (* 1-based coordinate of a 0-based index *)

Definition a_set_g (a : ascr) g := mkA (aR a) (aC a) (ar a) (ac a) (asr a) (asc a) (atop a) (abot a) g.
Definition a_goto (a : ascr) r c :=
  mkA (aR a) (aC a) (clamp r (aR a)) (clamp c (aC a)) (asr a) (asc a) (atop a) (abot a) (ag a).

(** the cells of the rectangle spanned by two (clamped) corners, in either order, become ch *)
Definition a_rect (a : ascr) (rs cs re ce : Z) (ch : N) : ascr :=
  let r1 := Z.min (clamp rs (aR a)) (clamp re (aR a)) in let r2 := Z.max (clamp rs (aR a)) (clamp re (aR a)) in
  let c1 := Z.min (clamp cs (aC a)) (clamp ce (aC a)) in let c2 := Z.max (clamp cs (aC a)) (clamp ce (aC a)) in
  a_set_g a (fun i j => if (r1 <=? row_of i) && (row_of i <=? r2) && (c1 <=? row_of j) && (row_of j <=? c2)
                        then ch else ag a i j).

Definition a_put (a : ascr) (r c : Z) (ch : N) : ascr :=
  a_set_g a (fun i j => if (row_of i =? clamp r (aR a)) && (row_of j =? clamp c (aC a)) then ch else ag a i j).

(** insert: the character goes to (r, c); the rest of that row moves one column right, the last one is lost *)
Definition a_insert (a : ascr) (r c : Z) (ch : N) : ascr :=
  let r := clamp r (aR a) in let c := clamp c (aC a) in
  a_set_g a (fun i j => if row_of i =? r
                        then (if row_of j =? c then ch
                              else if (c <? row_of j) && (row_of j <=? aC a) then ag a i (j - 1) else ag a i j)
                        else ag a i j).

(** scrolling inside the region [atop, abot]: each row takes its neighbour's contents; the vacated row keeps its own *)
Definition a_scroll_up (a : ascr) : ascr :=
  a_set_g a (fun i j => if (atop a <=? row_of i) && (row_of i <? abot a) then ag a (S i) j else ag a i j).
Definition a_scroll_down (a : ascr) : ascr :=
  a_set_g a (fun i j => if (atop a <? row_of i) && (row_of i <=? abot a) then ag a (i - 1) j else ag a i j).

Definition a_erase_line (a : ascr) := a_rect a (ar a) 1 (ar a) (aC a) SPACE.

Definition astep (a : ascr) (o : sop) : ascr :=
  match o with
  | OPutAbs r c ch => a_put a r c ch
  | OPut ch => a_put a (ar a) (ac a) ch
  | OInsertAbs r c ch => a_insert a r c ch
  | OInsert ch => a_insert a (ar a) (ac a) ch
  | OFill ch => a_set_g a (fun _ _ => ch)
  | OFillRegion rs cs re ce ch => a_rect a rs cs re ce ch
  | OCr => a_goto a (ar a) 1
  | OLf => if ar a <? aR a then a_goto a (ar a + 1) (ac a) else a_erase_line (a_scroll_up a)
  | OCrlf => let a := a_goto a (ar a) 1 in
             if ar a <? aR a then a_goto a (ar a + 1) (ac a) else a_erase_line (a_scroll_up a)
  | OHome r c => a_goto a r c
  | OBack n => a_goto a (ar a) (ac a - n)
  | ODown n => a_goto a (ar a + n) (ac a)
  | OForward n => a_goto a (ar a) (ac a + n)
  | OUp n => a_goto a (ar a - n) (ac a)
  | OUpReverse => if 1 <? ar a then a_goto a (ar a - 1) (ac a) else a_scroll_up a
  | OSave => mkA (aR a) (aC a) (ar a) (ac a) (ar a) (ac a) (atop a) (abot a) (ag a)
  | ORestore => a_goto a (asr a) (asc a)
  | OScrollScreen => mkA (aR a) (aC a) (ar a) (ac a) (asr a) (asc a) 1 (aR a) (ag a)
  | OScrollRows t b => mkA (aR a) (aC a) (ar a) (ac a) (asr a) (asc a) (clamp t (aR a)) (clamp b (aR a)) (ag a)
  | OScrollDown => a_scroll_down a
  | OScrollUp => a_scroll_up a
  | OEraseEol => a_rect a (ar a) (ac a) (ar a) (aC a) SPACE
  | OEraseSol => a_rect a (ar a) 1 (ar a) (ac a) SPACE
  | OEraseLine => a_erase_line a
  | OEraseDown =>   (* from the cursor to the end of its line, and every row below *)
      a_set_g a (fun i j => if ((row_of i =? ar a) && (ac a <=? row_of j) && (row_of j <=? aC a))
                               || ((ar a <? row_of i) && (row_of i <=? aR a) && (row_of j <=? aC a))
                            then SPACE else ag a i j)
  | OEraseUp =>     (* from the start of the cursor's line to the cursor, and every row above *)
      a_set_g a (fun i j => if ((row_of i =? ar a) && (row_of j <=? ac a))
                               || ((row_of i <? ar a) && (row_of j <=? aC a))
                            then SPACE else ag a i j)
  | OEraseScreen => a_set_g a (fun _ _ => SPACE)
  end.

(** the model state [s] represents the reference state [a] *)
Definition rep (s : scr) (a : ascr) : Prop :=
  rows s = aR a /\ cols s = aC a /\ cur_r s = ar a /\ cur_c s = ac a /\ sav_r s = asr a /\ sav_c s = asc a /\
  sr_start s = atop a /\ sr_end s = abot a /\
  forall i j, (Z.of_nat i < rows s) -> (Z.of_nat j < cols s) -> cell (w s) i j = ag a i j.

Definition a_init (r c : Z) : ascr := mkA r c 1 1 1 1 1 r (fun _ _ => SPACE).
