(** correspondence entry point for the screen model *)
From Coq Require Import ZArith NArith List Bool.
Import ListNotations.
From PV Require Import Base.V Screen.Model.

Definition enc_scr (s : scr) : V :=
  VL [vlist vtext (w s); VI (cur_r s); VI (cur_c s); VI (sav_r s); VI (sav_c s); VI (sr_start s); VI (sr_end s);
      vtext (dump s); vtext (to_str s); vtext (pretty s); vN (get s)].

Definition enc_short (s : scr) : V :=
  VL [vlist vtext (w s); VI (cur_r s); VI (cur_c s); VI (sav_r s); VI (sav_c s); VI (sr_start s); VI (sr_end s)].

(** the state after every operation; the accessors on the last one *)
Fixpoint run_ops (s : scr) (ops : list sop) : list V :=
  match ops with
  | [] => []
  | [o] => [enc_scr (sstep s o)]
  | o :: r => let s' := sstep s o in enc_short s' :: run_ops s' r
  end.

(** (rows, cols, ops, probes): states after each op, then get_abs / get_region probes on the final state *)
Definition run_screen (c : Z * Z * list sop * list (Z * Z * Z * Z)) : V :=
  match c with (r, cl, ops, probes) =>
    let final := fold_left sstep ops (init r cl) in
    VL [VL (run_ops (init r cl) ops);
        vlist (fun p => match p with (a, b, c2, d) =>
                 VL [vN (get_abs final a b); vlist vtext (get_region final a b c2 d)] end) probes]
  end.
