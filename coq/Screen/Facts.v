(** Shape invariant of the screen model and cell-level characterisations of its operations. *)
From Coq Require Import ZArith NArith List Bool Arith Lia.
Import ListNotations.
From PV Require Import Base.PySeq Base.PySeqFacts Screen.Model.
Local Open Scope Z_scope.

Definition in_range (x hi : Z) : Prop := 1 <= x <= hi.

Record wf (s : scr) : Prop := {
  wf_rows : 1 <= rows s; wf_cols : 1 <= cols s;
  wf_len : Z.of_nat (length (w s)) = rows s;
  wf_row : Forall (fun row => Z.of_nat (length row) = cols s) (w s);
  wf_cr : in_range (cur_r s) (rows s); wf_cc : in_range (cur_c s) (cols s);
  wf_sr : in_range (sav_r s) (rows s); wf_sc : in_range (sav_c s) (cols s);
  wf_top : in_range (sr_start s) (rows s); wf_bot : in_range (sr_end s) (rows s)
}.

Lemma constrain_range n hi : 1 <= hi -> in_range (constrain n 1 hi) hi.
Proof. intros H. unfold constrain, in_range. destruct (Z.ltb_spec n 1), (Z.ltb_spec hi n); lia. Qed.
Lemma constrain_id n hi : in_range n hi -> constrain n 1 hi = n.
Proof. unfold constrain, in_range. intros H. destruct (Z.ltb_spec n 1), (Z.ltb_spec hi n); lia. Qed.

(** set_nth *)
Lemma set_nth_length {A} n (x : A) l : length (set_nth n x l) = length l.
Proof. revert n; induction l as [|h t IH]; intros [|n]; cbn; auto. Qed.
Lemma nth_set_nth {A} n m (x d : A) l : (n < length l)%nat ->
  nth m (set_nth n x l) d = if Nat.eqb m n then x else nth m l d.
Proof.
  revert n m; induction l as [|h t IH]; intros n m H; [cbn in H; lia|].
  destruct n as [|n], m as [|m]; cbn; auto. apply IH. cbn in H. lia.
Qed.
Lemma set_nth_Forall {A} (P : A -> Prop) n x l : Forall P l -> P x -> Forall P (set_nth n x l).
Proof.
  revert n; induction l as [|h t IH]; intros n Hl Hx; [destruct n; constructor|].
  inversion Hl; subst. destruct n; cbn; constructor; auto.
Qed.

Lemma init_wf r c : 1 <= r -> 1 <= c -> wf (init r c).
Proof.
  intros Hr Hc. constructor; cbn; unfold in_range; try lia.
  - rewrite repeat_length. lia.
  - apply Forall_forall. intros row Hin. apply repeat_spec in Hin. subst. rewrite repeat_length. lia.
Qed.

(** put_abs *)
Lemma put_abs_wf s r c ch : wf s -> wf (put_abs s r c ch).
Proof.
  intros H. destruct H. constructor; cbn; auto.
  - now rewrite set_nth_length.
  - apply set_nth_Forall; auto. rewrite set_nth_length.
    pose proof (constrain_range r (rows s) wf_rows0) as Hr. unfold in_range in Hr.
    rewrite Forall_forall in wf_row0. apply wf_row0. apply nth_In. lia.
Qed.

Lemma put_abs_cell s r c ch i j : wf s ->
  cell (w (put_abs s r c ch)) i j =
  if (Nat.eqb i (Z.to_nat (constrain r 1 (rows s) - 1)) && Nat.eqb j (Z.to_nat (constrain c 1 (cols s) - 1)))%bool
  then ch else cell (w s) i j.
Proof.
  intros H. destruct H. unfold cell, put_abs. cbn [w set_w].
  pose proof (constrain_range r (rows s) wf_rows0) as Hr. pose proof (constrain_range c (cols s) wf_cols0) as Hc.
  unfold in_range in *.
  set (ri := Z.to_nat (constrain r 1 (rows s) - 1)). set (ci := Z.to_nat (constrain c 1 (cols s) - 1)).
  assert (Hri : (ri < length (w s))%nat) by (subst ri; lia).
  rewrite nth_set_nth by exact Hri.
  destruct (Nat.eqb_spec i ri) as [->|Hne]; cbn [andb]; [|reflexivity].
  assert (Hci : (ci < length (nth ri (w s) []))%nat).
  { rewrite Forall_forall in wf_row0. specialize (wf_row0 (nth ri (w s) []) (nth_In _ _ Hri)). subst ci. lia. }
  rewrite nth_set_nth by exact Hci. reflexivity.
Qed.

Lemma get_abs_cell s r c : get_abs s r c =
  cell (w s) (Z.to_nat (constrain r 1 (rows s) - 1)) (Z.to_nat (constrain c 1 (cols s) - 1)).
Proof. reflexivity. Qed.

(** the non-grid fields are untouched by grid writes *)
Definition same_fields (a b : scr) : Prop :=
  rows a = rows b /\ cols a = cols b /\ cur_r a = cur_r b /\ cur_c a = cur_c b /\
  sav_r a = sav_r b /\ sav_c a = sav_c b /\ sr_start a = sr_start b /\ sr_end a = sr_end b.
Lemma same_fields_refl a : same_fields a a.
Proof. repeat split. Qed.
Lemma same_fields_trans a b c : same_fields a b -> same_fields b c -> same_fields a c.
Proof. unfold same_fields. intuition congruence. Qed.
Lemma put_abs_fields s r c ch : same_fields (put_abs s r c ch) s.
Proof. repeat split. Qed.

(** zrange *)
Lemma in_zrange a b x : In x (zrange a b) <-> a <= x <= b.
Proof.
  unfold zrange. rewrite in_map_iff. split.
  - intros (k & <- & Hk). apply in_seq in Hk. lia.
  - intros H. exists (Z.to_nat (x - a)). split; [lia|]. apply in_seq. lia.
Qed.

(** a row of writes, a rectangle of writes *)
Lemma fold_put_row s r ch cs : wf s -> in_range r (rows s) -> (forall c, In c cs -> in_range c (cols s)) ->
  let s' := fold_left (fun s c => put_abs s r c ch) cs s in
  wf s' /\ same_fields s' s /\
  forall i j, cell (w s') i j =
    if (Nat.eqb i (Z.to_nat (r - 1)) && existsb (fun c => Nat.eqb j (Z.to_nat (c - 1))) cs)%bool then ch else cell (w s) i j.
Proof.
  revert s. induction cs as [|c cs IH]; intros s Hwf Hr Hcs; cbn [fold_left existsb].
  - split; [exact Hwf|]. split; [apply same_fields_refl|]. intros. now rewrite andb_false_r.
  - assert (Hwf' : wf (put_abs s r c ch)) by now apply put_abs_wf.
    destruct (IH (put_abs s r c ch) Hwf') as (W & F & C).
    + exact Hr.
    + intros c' Hc'. cbn. apply Hcs. now right.
    + split; [exact W|]. split; [eapply same_fields_trans; [exact F | apply put_abs_fields]|].
      intros i j. rewrite C, put_abs_cell by exact Hwf.
      rewrite (constrain_id r (rows s) Hr), (constrain_id c (cols s) (Hcs c (or_introl eq_refl))).
      cbn [rows cols put_abs set_w].
      destruct (Nat.eqb i (Z.to_nat (r - 1))); cbn [andb]; [|reflexivity].
      destruct (Nat.eqb j (Z.to_nat (c - 1))); cbn [orb]; [now destruct (existsb _ cs) | reflexivity].
Qed.

Lemma fold_put_rect s ch cs rs : wf s -> (forall r, In r rs -> in_range r (rows s)) ->
  (forall c, In c cs -> in_range c (cols s)) ->
  let s' := fold_left (fun s r => fold_left (fun s c => put_abs s r c ch) cs s) rs s in
  wf s' /\ same_fields s' s /\
  forall i j, cell (w s') i j =
    if (existsb (fun r => Nat.eqb i (Z.to_nat (r - 1))) rs && existsb (fun c => Nat.eqb j (Z.to_nat (c - 1))) cs)%bool
    then ch else cell (w s) i j.
Proof.
  revert s. induction rs as [|r rs IH]; intros s Hwf Hrs Hcs; cbn [fold_left existsb].
  - split; [exact Hwf|]. split; [apply same_fields_refl | reflexivity].
  - destruct (fold_put_row s r ch cs Hwf (Hrs r (or_introl eq_refl)) Hcs) as (W1 & F1 & C1).
    set (s1 := fold_left (fun s c => put_abs s r c ch) cs s) in *.
    destruct F1 as (Fr & Fc & Frest).
    destruct (IH s1 W1) as (W & F & C).
    + intros r' Hr'. rewrite Fr. apply Hrs. now right.
    + intros c' Hc'. rewrite Fc. now apply Hcs.
    + split; [exact W|]. split; [eapply same_fields_trans; [exact F | repeat split; tauto]|].
      intros i j. rewrite C, C1.
      destruct (Nat.eqb i (Z.to_nat (r - 1))); cbn [orb andb].
      * destruct (existsb _ cs); [now destruct (existsb _ rs) | now rewrite andb_false_r].
      * reflexivity.
Qed.

(** the documented meaning of fill_region: exactly the cells of the (constrained, ordered) rectangle change *)
Definition in_rect (s : scr) (rs cs re ce : Z) (r c : Z) : bool :=
  let '(rs, cs, re, ce) := norm_region s rs cs re ce in
  (rs <=? r) && (r <=? re) && (cs <=? c) && (c <=? ce).

Lemma existsb_zrange a b (i : nat) : 1 <= a ->
  existsb (fun r => Nat.eqb i (Z.to_nat (r - 1))) (zrange a b) = ((a <=? Z.of_nat i + 1) && (Z.of_nat i + 1 <=? b))%bool.
Proof.
  intros Ha. destruct (existsb _ (zrange a b)) eqn:E.
  - apply existsb_exists in E as (r & Hr & Hi). apply in_zrange in Hr. apply Nat.eqb_eq in Hi.
    symmetry. apply andb_true_iff. split; apply Z.leb_le; lia.
  - symmetry. apply andb_false_iff.
    destruct (Z.leb_spec a (Z.of_nat i + 1)) as [H1|H1]; [|now left].
    destruct (Z.leb_spec (Z.of_nat i + 1) b) as [H2|H2]; [|now right].
    exfalso. assert (In (Z.of_nat i + 1) (zrange a b)) as Hin by (apply in_zrange; lia).
    rewrite <- not_true_iff_false in E. apply E. apply existsb_exists. exists (Z.of_nat i + 1).
    split; [exact Hin|]. apply Nat.eqb_eq. lia.
Qed.

Lemma norm_region_range s rs cs re ce : wf s ->
  let '(a, b, c, d) := norm_region s rs cs re ce in
  in_range a (rows s) /\ in_range c (rows s) /\ a <= c /\ in_range b (cols s) /\ in_range d (cols s) /\ b <= d.
Proof.
  intros H. destruct H. unfold norm_region.
  pose proof (constrain_range rs (rows s) wf_rows0). pose proof (constrain_range re (rows s) wf_rows0).
  pose proof (constrain_range cs (cols s) wf_cols0). pose proof (constrain_range ce (cols s) wf_cols0).
  unfold in_range in *.
  destruct (Z.ltb_spec (constrain re 1 (rows s)) (constrain rs 1 (rows s)));
  destruct (Z.ltb_spec (constrain ce 1 (cols s)) (constrain cs 1 (cols s))); lia.
Qed.

Theorem fill_region_spec s rs cs re ce ch : wf s ->
  let s' := fill_region s rs cs re ce ch in
  wf s' /\ same_fields s' s /\
  forall i j, cell (w s') i j =
    if in_rect s rs cs re ce (Z.of_nat i + 1) (Z.of_nat j + 1) then ch else cell (w s) i j.
Proof.
  intros Hwf. unfold fill_region, in_rect.
  pose proof (norm_region_range s rs cs re ce Hwf) as NR.
  destruct (norm_region s rs cs re ce) as [[[a b] c] d]. destruct NR as (Ha & Hc & Hac & Hb & Hd & Hbd).
  destruct (fold_put_rect s ch (zrange b d) (zrange a c) Hwf) as (W & F & C).
  - intros r Hr. apply in_zrange in Hr. unfold in_range in *. lia.
  - intros r Hr. apply in_zrange in Hr. unfold in_range in *. lia.
  - split; [exact W|]. split; [exact F|]. intros i j. rewrite C.
    unfold in_range in *. rewrite !existsb_zrange by lia. now rewrite andb_assoc.
Qed.

(** -- scrolling -------------------------------------------------------------------------------- *)
Lemma nth_firstn_lt {A} (l : list A) k i d : (i < k)%nat -> nth i (firstn k l) d = nth i l d.
Proof.
  revert k i; induction l as [|h t IH]; intros k i H; [now rewrite firstn_nil|].
  destruct k; [lia|]. destruct i; cbn; [reflexivity | apply IH; lia].
Qed.
Lemma nth_skipn_add {A} (l : list A) k i d : nth i (skipn k l) d = nth (k + i) l d.
Proof.
  revert l; induction k as [|k IH]; intros l; [reflexivity|].
  destruct l as [|h t]; [cbn; now destruct i | cbn; apply IH].
Qed.
Lemma Forall_firstn {A} (P : A -> Prop) n l : Forall P l -> Forall P (firstn n l).
Proof. revert n; induction l; intros [|n] H; cbn; try constructor; inversion H; subst; auto. Qed.
Lemma Forall_skipn {A} (P : A -> Prop) n l : Forall P l -> Forall P (skipn n l).
Proof. revert n; induction l; intros [|n] H; cbn; auto. inversion H; subst; auto. Qed.

(** [shift_rows a e l]: rows a .. e-1 take the contents of the next row (0-based, a <= e < length) *)
Definition up_rows {A} (a e : nat) (l : list A) : list A := firstn a l ++ firstn (e - a) (skipn (S a) l) ++ skipn e l.
Definition down_rows {A} (a e : nat) (l : list A) : list A := firstn (S a) l ++ firstn (e - a) (skipn a l) ++ skipn (S e) l.

Lemma up_rows_spec {A} (a e : nat) (l : list A) d : (a <= e)%nat -> (e < length l)%nat ->
  length (up_rows a e l) = length l /\
  forall i, nth i (up_rows a e l) d = if ((a <=? i) && (i <? e))%nat%bool then nth (S i) l d else nth i l d.
Proof.
  intros Hae He. unfold up_rows. split.
  - rewrite !app_length, !firstn_length, !skipn_length. lia.
  - intros i. destruct (Nat.leb_spec a i) as [Hai|Hai]; cbn [andb].
    + rewrite app_nth2 by (rewrite firstn_length; lia). rewrite firstn_length.
      replace (Nat.min a (length l)) with a by lia.
      destruct (Nat.ltb_spec i e) as [Hie|Hie].
      * rewrite app_nth1 by (rewrite firstn_length, skipn_length; lia).
        rewrite nth_firstn_lt by lia. rewrite nth_skipn_add. f_equal. lia.
      * rewrite app_nth2 by (rewrite firstn_length, skipn_length; lia).
        rewrite firstn_length, skipn_length. rewrite nth_skipn_add. f_equal. lia.
    + rewrite app_nth1 by (rewrite firstn_length; lia). now apply nth_firstn_lt.
Qed.

Lemma down_rows_spec {A} (a e : nat) (l : list A) d : (a <= e)%nat -> (e < length l)%nat ->
  length (down_rows a e l) = length l /\
  forall i, nth i (down_rows a e l) d = if ((a <? i) && (i <=? e))%nat%bool then nth (i - 1) l d else nth i l d.
Proof.
  intros Hae He. unfold down_rows. split.
  - rewrite !app_length, !firstn_length, !skipn_length. lia.
  - intros i. destruct (Nat.ltb_spec a i) as [Hai|Hai]; cbn [andb].
    + rewrite app_nth2 by (rewrite firstn_length; lia). rewrite firstn_length.
      replace (Nat.min (S a) (length l)) with (S a) by lia.
      destruct (Nat.leb_spec i e) as [Hie|Hie].
      * rewrite app_nth1 by (rewrite firstn_length, skipn_length; lia).
        rewrite nth_firstn_lt by lia. rewrite nth_skipn_add. f_equal. lia.
      * rewrite app_nth2 by (rewrite firstn_length, skipn_length; lia).
        rewrite firstn_length, skipn_length. rewrite nth_skipn_add. f_equal. lia.
    + rewrite app_nth1 by (rewrite firstn_length; lia). apply nth_firstn_lt; lia.
Qed.

Lemma norm_idx_nat len z : 0 <= z <= Z.of_nat len -> norm_idx len z = Z.to_nat z.
Proof. intros H. norm_tac. Qed.

Lemma scroll_up_w s : wf s ->
  w (scroll_up s) = let a := Z.to_nat (sr_start s - 1) in let e := Z.to_nat (sr_end s - 1) in
                    if (a <=? e)%nat then up_rows a e (w s) else w s.
Proof.
  intros H. destruct H. unfold in_range in *. unfold scroll_up. cbn [w set_w]. cbv zeta.
  unfold py_slice_assign, py_slice.
  rewrite !norm_idx_nat by lia.
  set (a := Z.to_nat (sr_start s - 1)). set (e := Z.to_nat (sr_end s - 1)).
  replace (Z.to_nat (sr_start s - 1 + 1)) with (S a) by lia.
  replace (Z.to_nat (sr_end s - 1 + 1)) with (S e) by lia.
  destruct (Nat.leb_spec a e) as [Hae|Hae].
  - unfold up_rows. replace (Nat.max a e) with e by lia. replace (S e - S a)%nat with (e - a)%nat by lia. reflexivity.
  - replace (Nat.max a e) with a by lia. replace (S e - S a)%nat with 0%nat by lia. rewrite firstn_O. cbn [app].
    apply firstn_skipn.
Qed.

Lemma scroll_down_w s : wf s ->
  w (scroll_down s) = let a := Z.to_nat (sr_start s - 1) in let e := Z.to_nat (sr_end s - 1) in
                      if (a <=? e)%nat then down_rows a e (w s) else w s.
Proof.
  intros H. destruct H. unfold in_range in *. unfold scroll_down. cbn [w set_w]. cbv zeta.
  unfold py_slice_assign, py_slice.
  rewrite !norm_idx_nat by lia.
  set (a := Z.to_nat (sr_start s - 1)). set (e := Z.to_nat (sr_end s - 1)).
  replace (Z.to_nat (sr_start s - 1 + 1)) with (S a) by lia.
  replace (Z.to_nat (sr_end s - 1 + 1)) with (S e) by lia.
  destruct (Nat.leb_spec a e) as [Hae|Hae].
  - unfold down_rows. replace (Nat.max (S a) (S e)) with (S e) by lia. reflexivity.
  - replace (Nat.max (S a) (S e)) with (S a) by lia. replace (e - a)%nat with 0%nat by lia. rewrite firstn_O. cbn [app].
    apply firstn_skipn.
Qed.

Lemma rows_subset_wf s g : wf s -> length g = length (w s) -> Forall (fun row => Z.of_nat (length row) = cols s) g -> wf (set_w s g).
Proof. intros H Hl Hf. destruct H. constructor; cbn; auto. now rewrite Hl. Qed.

Lemma scroll_up_wf s : wf s -> wf (scroll_up s).
Proof.
  intros H. pose proof (scroll_up_w s H) as E. cbv zeta in E.
  replace (scroll_up s) with (set_w s (w (scroll_up s))) by reflexivity. rewrite E.
  destruct (Nat.leb_spec (Z.to_nat (sr_start s - 1)) (Z.to_nat (sr_end s - 1))) as [Hae|Hae].
  - pose proof H as H'. destruct H' as [? ? Hl Hr ? ? ? ? Ht Hb]. unfold in_range in *.
    apply rows_subset_wf; [exact H | |].
    + apply (up_rows_spec _ _ (w s) []); lia.
    + unfold up_rows. apply Forall_app; split; [|apply Forall_app; split];
        auto using Forall_firstn, Forall_skipn.
  - now destruct s.
Qed.

Lemma scroll_down_wf s : wf s -> wf (scroll_down s).
Proof.
  intros H. pose proof (scroll_down_w s H) as E. cbv zeta in E.
  replace (scroll_down s) with (set_w s (w (scroll_down s))) by reflexivity. rewrite E.
  destruct (Nat.leb_spec (Z.to_nat (sr_start s - 1)) (Z.to_nat (sr_end s - 1))) as [Hae|Hae].
  - pose proof H as H'. destruct H' as [? ? Hl Hr ? ? ? ? Ht Hb]. unfold in_range in *.
    apply rows_subset_wf; [exact H | |].
    + apply (down_rows_spec _ _ (w s) []); lia.
    + unfold down_rows. apply Forall_app; split; [|apply Forall_app; split];
        auto using Forall_firstn, Forall_skipn.
  - now destruct s.
Qed.

(** the documented meaning of scrolling: within the region each row takes the contents of its neighbour *)
Theorem scroll_up_spec s : wf s -> same_fields (scroll_up s) s /\
  forall i j, cell (w (scroll_up s)) i j =
    if ((sr_start s <=? Z.of_nat i + 1) && (Z.of_nat i + 1 <? sr_end s))%bool then cell (w s) (S i) j else cell (w s) i j.
Proof.
  intros H. split; [repeat split|]. intros i j. unfold cell. rewrite (scroll_up_w s H). cbv zeta.
  destruct H. unfold in_range in *.
  destruct (Nat.leb_spec (Z.to_nat (sr_start s - 1)) (Z.to_nat (sr_end s - 1))) as [Hae|Hae].
  - destruct (up_rows_spec (Z.to_nat (sr_start s - 1)) (Z.to_nat (sr_end s - 1)) (w s) [] Hae ltac:(lia)) as [_ R].
    rewrite R.
    replace ((Z.to_nat (sr_start s - 1) <=? i)%nat) with (sr_start s <=? Z.of_nat i + 1)
      by (destruct (Z.leb_spec (sr_start s) (Z.of_nat i + 1)), (Nat.leb_spec (Z.to_nat (sr_start s - 1)) i); try reflexivity; lia).
    replace ((i <? Z.to_nat (sr_end s - 1))%nat) with (Z.of_nat i + 1 <? sr_end s)
      by (destruct (Z.ltb_spec (Z.of_nat i + 1) (sr_end s)), (Nat.ltb_spec i (Z.to_nat (sr_end s - 1))); try reflexivity; lia).
    now destruct (_ && _)%bool.
  - replace ((sr_start s <=? Z.of_nat i + 1) && (Z.of_nat i + 1 <? sr_end s))%bool with false; [reflexivity|].
    symmetry. apply andb_false_iff.
    destruct (Z.leb_spec (sr_start s) (Z.of_nat i + 1)); [right; apply Z.ltb_ge; lia | now left].
Qed.

Theorem scroll_down_spec s : wf s -> same_fields (scroll_down s) s /\
  forall i j, cell (w (scroll_down s)) i j =
    if ((sr_start s <? Z.of_nat i + 1) && (Z.of_nat i + 1 <=? sr_end s))%bool then cell (w s) (i - 1) j else cell (w s) i j.
Proof.
  intros H. split; [repeat split|]. intros i j. unfold cell. rewrite (scroll_down_w s H). cbv zeta.
  destruct H. unfold in_range in *.
  destruct (Nat.leb_spec (Z.to_nat (sr_start s - 1)) (Z.to_nat (sr_end s - 1))) as [Hae|Hae].
  - destruct (down_rows_spec (Z.to_nat (sr_start s - 1)) (Z.to_nat (sr_end s - 1)) (w s) [] Hae ltac:(lia)) as [_ R].
    rewrite R.
    replace ((Z.to_nat (sr_start s - 1) <? i)%nat) with (sr_start s <? Z.of_nat i + 1)
      by (destruct (Z.ltb_spec (sr_start s) (Z.of_nat i + 1)), (Nat.ltb_spec (Z.to_nat (sr_start s - 1)) i); try reflexivity; lia).
    replace ((i <=? Z.to_nat (sr_end s - 1))%nat) with (Z.of_nat i + 1 <=? sr_end s)
      by (destruct (Z.leb_spec (Z.of_nat i + 1) (sr_end s)), (Nat.leb_spec i (Z.to_nat (sr_end s - 1))); try reflexivity; lia).
    now destruct (_ && _)%bool.
  - replace ((sr_start s <? Z.of_nat i + 1) && (Z.of_nat i + 1 <=? sr_end s))%bool with false; [reflexivity|].
    symmetry. apply andb_false_iff.
    destruct (Z.ltb_spec (sr_start s) (Z.of_nat i + 1)); [right; apply Z.leb_gt; lia | now left].
Qed.

(** -- cursor, saved cursor, scroll region: field updates --------------------------------------- *)
Lemma set_cur_wf s r c : wf s -> in_range r (rows s) -> in_range c (cols s) -> wf (set_cur s r c).
Proof. intros H Hr Hc. destruct H. constructor; cbn; auto. Qed.
Lemma cursor_move_wf s r c : wf s -> wf (cursor_home s r c).
Proof.
  intros H. destruct H. unfold cursor_home, cursor_constrain, set_cur. cbn.
  constructor; cbn; auto using constrain_range.
Qed.
Lemma cursor_back_wf s n : wf s -> wf (cursor_back s n).
Proof. intros H. destruct H. unfold cursor_back, cursor_constrain, set_cur. cbn. constructor; cbn; auto using constrain_range. Qed.
Lemma cursor_forward_wf s n : wf s -> wf (cursor_forward s n).
Proof. intros H. destruct H. unfold cursor_forward, cursor_constrain, set_cur. cbn. constructor; cbn; auto using constrain_range. Qed.
Lemma cursor_down_wf s n : wf s -> wf (cursor_down s n).
Proof. intros H. destruct H. unfold cursor_down, cursor_constrain, set_cur. cbn. constructor; cbn; auto using constrain_range. Qed.
Lemma cursor_up_wf s n : wf s -> wf (cursor_up s n).
Proof. intros H. destruct H. unfold cursor_up, cursor_constrain, set_cur. cbn. constructor; cbn; auto using constrain_range. Qed.
Lemma cursor_save_wf s : wf s -> wf (cursor_save_attrs s).
Proof. intros H. destruct H. constructor; cbn; auto. Qed.
Lemma cursor_restore_wf s : wf s -> wf (cursor_restore_attrs s).
Proof. intros H. now apply cursor_move_wf. Qed.
Lemma scroll_screen_wf s : wf s -> wf (scroll_screen s).
Proof. intros H. destruct H. constructor; cbn; auto; unfold in_range; lia. Qed.
Lemma scroll_screen_rows_wf s a b : wf s -> wf (scroll_screen_rows s a b).
Proof.
  intros H. destruct H. unfold scroll_screen_rows, scroll_constrain, set_sr. cbn.
  constructor; cbn; auto using constrain_range.
Qed.

Lemma fill_region_wf s rs cs re ce ch : wf s -> wf (fill_region s rs cs re ce ch).
Proof. intros H. now destruct (fill_region_spec s rs cs re ce ch H). Qed.

Lemma fold_wf {A} (f : scr -> A -> scr) (l : list A) : (forall s x, wf s -> wf (f s x)) -> forall s, wf s -> wf (fold_left f l s).
Proof. intros Hf. induction l as [|x l IH]; intros s H; cbn; auto. Qed.

Lemma insert_abs_wf s r c ch : wf s -> wf (insert_abs s r c ch).
Proof.
  intros H. unfold insert_abs. apply put_abs_wf. apply fold_wf; [|exact H].
  intros s0 x H0. now apply put_abs_wf.
Qed.

Lemma erase_line_wf s : wf s -> wf (erase_line s).
Proof. apply fill_region_wf. Qed.

Ltac split_if := match goal with |- context[if ?b then _ else _] => destruct b end.
Lemma lf_wf s : wf s -> wf (lf s).
Proof. intros H. unfold lf. cbv zeta. split_if; auto using erase_line_wf, scroll_up_wf, cursor_down_wf. Qed.
Lemma cr_wf s : wf s -> wf (cr s).
Proof. apply cursor_move_wf. Qed.
Lemma up_reverse_wf s : wf s -> wf (cursor_up_reverse s).
Proof. intros H. unfold cursor_up_reverse. cbv zeta. split_if; auto using scroll_up_wf, cursor_up_wf. Qed.
Lemma erase_down_wf s : wf s -> wf (erase_down s).
Proof. intros H. unfold erase_down, erase_end_of_line. cbv zeta. split_if; auto using fill_region_wf. Qed.
Lemma erase_up_wf s : wf s -> wf (erase_up s).
Proof. intros H. unfold erase_up, erase_start_of_line. cbv zeta. split_if; auto using fill_region_wf. Qed.

Theorem sstep_wf s o : wf s -> wf (sstep s o).
Proof.
  intros H. destruct o; cbn [sstep].
  - now apply put_abs_wf. - now apply put_abs_wf. - now apply insert_abs_wf. - now apply insert_abs_wf.
  - now apply fill_region_wf. - now apply fill_region_wf.
  - now apply cr_wf. - now apply lf_wf. - apply lf_wf. now apply cr_wf.
  - now apply cursor_move_wf. - now apply cursor_back_wf. - now apply cursor_down_wf.
  - now apply cursor_forward_wf. - now apply cursor_up_wf. - now apply up_reverse_wf.
  - now apply cursor_save_wf. - now apply cursor_restore_wf.
  - now apply scroll_screen_wf. - now apply scroll_screen_rows_wf. - now apply scroll_down_wf. - now apply scroll_up_wf.
  - now apply fill_region_wf. - now apply fill_region_wf. - now apply fill_region_wf.
  - now apply erase_down_wf. - now apply erase_up_wf. - now apply fill_region_wf.
Qed.

(** every sequence of operations keeps the grid rows x cols and cursor / scroll region on the screen *)
Theorem steps_wf ops : forall s, wf s -> wf (fold_left sstep ops s).
Proof. induction ops as [|o ops IH]; intros s H; cbn; auto using sstep_wf. Qed.

(** -- further cell-level / field-level characterisations (exported by Props/C19.v) ------------ *)
Theorem put_abs_spec s r c ch : wf s ->
  wf (put_abs s r c ch) /\ same_fields (put_abs s r c ch) s /\
  forall i j, cell (w (put_abs s r c ch)) i j =
    if (Nat.eqb i (Z.to_nat (constrain r 1 (rows s) - 1)) && Nat.eqb j (Z.to_nat (constrain c 1 (cols s) - 1)))%bool
    then ch else cell (w s) i j.
Proof.
  intros H. split; [now apply put_abs_wf|]. split; [apply put_abs_fields|].
  intros i j. now apply put_abs_cell.
Qed.

(** save followed by restore brings the cursor back where it was and touches nothing but the saved cursor *)
Theorem save_restore_roundtrip s : wf s ->
  let s' := cursor_restore_attrs (cursor_save_attrs s) in
  cur_r s' = cur_r s /\ cur_c s' = cur_c s /\ sav_r s' = cur_r s /\ sav_c s' = cur_c s /\
  w s' = w s /\ rows s' = rows s /\ cols s' = cols s /\ sr_start s' = sr_start s /\ sr_end s' = sr_end s.
Proof.
  intros H. destruct H. cbn.
  rewrite (constrain_id (cur_r s) (rows s)) by assumption.
  rewrite (constrain_id (cur_c s) (cols s)) by assumption.
  repeat split.
Qed.

(** a restore, whatever happened to the cursor in between, returns to the saved position (moves do not touch it) *)
Definition is_move (o : sop) : bool :=
  match o with
  | OHome _ _ | OBack _ | OForward _ | ODown _ | OUp _ => true
  | _ => false
  end.

Lemma move_frame s o : is_move o = true ->
  w (sstep s o) = w s /\ sav_r (sstep s o) = sav_r s /\ sav_c (sstep s o) = sav_c s /\
  sr_start (sstep s o) = sr_start s /\ sr_end (sstep s o) = sr_end s /\ rows (sstep s o) = rows s /\ cols (sstep s o) = cols s.
Proof. destruct o; cbn; intros E; try discriminate E; repeat split. Qed.

Theorem moves_frame ops : forall s, forallb is_move ops = true ->
  w (fold_left sstep ops s) = w s /\ sav_r (fold_left sstep ops s) = sav_r s /\ sav_c (fold_left sstep ops s) = sav_c s /\
  sr_start (fold_left sstep ops s) = sr_start s /\ sr_end (fold_left sstep ops s) = sr_end s /\
  rows (fold_left sstep ops s) = rows s /\ cols (fold_left sstep ops s) = cols s.
Proof.
  induction ops as [|o ops IH]; intros s E; cbn [fold_left].
  - repeat split.
  - cbn [forallb] in E. apply andb_true_iff in E. destruct E as [Eo Er].
    destruct (move_frame s o Eo) as (A & B & C & D & F & G & I).
    destruct (IH (sstep s o) Er) as (A' & B' & C' & D' & F' & G' & I').
    repeat split; congruence.
Qed.

(** save ; any cursor movements ; restore = back at the saved position, grid and scroll region as they were *)
Theorem save_moves_restore s ops : wf s -> forallb is_move ops = true ->
  let s' := cursor_restore_attrs (fold_left sstep ops (cursor_save_attrs s)) in
  cur_r s' = cur_r s /\ cur_c s' = cur_c s /\ w s' = w s /\ sr_start s' = sr_start s /\ sr_end s' = sr_end s.
Proof.
  intros H E. cbv zeta.
  destruct (moves_frame ops (cursor_save_attrs s) E) as (A & B & C & D & F & G & I).
  destruct H. unfold cursor_restore_attrs, cursor_home, cursor_constrain. cbn [cur_r cur_c set_cur w sr_start sr_end rows cols].
  rewrite B, C, G, I, A, D, F. cbn [cursor_save_attrs set_sav sav_r sav_c rows cols w sr_start sr_end].
  rewrite (constrain_id (cur_r s) (rows s)) by assumption.
  rewrite (constrain_id (cur_c s) (cols s)) by assumption.
  repeat split.
Qed.
