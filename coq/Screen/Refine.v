(** C19: every operation of the screen model does what the reference says, cell by cell and field by field. *)
From Coq Require Import ZArith NArith List Bool Arith Lia ZifyBool.
Import ListNotations.
From PV Require Import Base.PySeq Screen.Model Screen.Facts Screen.Spec.
Local Open Scope Z_scope.
Set Default Timeout 100.

Lemma constrain_clamp n hi : 1 <= hi -> constrain n 1 hi = clamp n hi.
Proof. intros H. unfold constrain, clamp. destruct (Z.ltb_spec n 1), (Z.ltb_spec hi n); lia. Qed.

Lemma norm_region_minmax s rs cs re ce : wf s ->
  norm_region s rs cs re ce =
  (Z.min (clamp rs (rows s)) (clamp re (rows s)), Z.min (clamp cs (cols s)) (clamp ce (cols s)),
   Z.max (clamp rs (rows s)) (clamp re (rows s)), Z.max (clamp cs (cols s)) (clamp ce (cols s))).
Proof.
  intros H. destruct H. unfold norm_region. rewrite !constrain_clamp by assumption.
  destruct (Z.ltb_spec (clamp re (rows s)) (clamp rs (rows s))), (Z.ltb_spec (clamp ce (cols s)) (clamp cs (cols s)));
    cbv iota beta; (f_equal; [f_equal; [f_equal|]|]); lia.
Qed.

Lemma eqb_idx (i : nat) z : 1 <= z -> Nat.eqb i (Z.to_nat (z - 1)) = (row_of i =? z).
Proof. intros H. unfold row_of. destruct (Nat.eqb_spec i (Z.to_nat (z - 1))), (Z.eqb_spec (Z.of_nat i + 1) z); try reflexivity; lia. Qed.

Lemma clamp_range n hi : 1 <= hi -> 1 <= clamp n hi <= hi.
Proof. unfold clamp. lia. Qed.

Section Ops.
  Variables (s : scr) (a : ascr).
  Hypothesis Hwf : wf s.
  Hypothesis Hrep : rep s a.

  Let HR : rows s = aR a. Proof. apply Hrep. Qed.
  Let HC : cols s = aC a. Proof. apply Hrep. Qed.

  Ltac fields := destruct Hrep as (R1 & R2 & R3 & R4 & R5 & R6 & R7 & R8 & RG); destruct Hwf.

  Lemma put_abs_rep r c ch : rep (put_abs s r c ch) (a_put a r c ch).
  Proof.
    fields. unfold rep. cbn [rows cols cur_r cur_c sav_r sav_c sr_start sr_end put_abs set_w a_put a_set_g aR aC ar ac asr asc atop abot ag].
    repeat (split; [assumption|]). intros i j Hi Hj.
    change (set_nth _ _ (w s)) with (w (put_abs s r c ch)).
    rewrite put_abs_cell by (constructor; assumption).
    rewrite !constrain_clamp by assumption. rewrite <- R1, <- R2.
    rewrite !eqb_idx by (apply clamp_range; assumption). rewrite RG by assumption. reflexivity.
  Qed.

  Lemma fill_region_rep rs cs re ce ch : rep (fill_region s rs cs re ce ch) (a_rect a rs cs re ce ch).
  Proof.
    destruct (fill_region_spec s rs cs re ce ch Hwf) as (_ & F & C).
    destruct F as (F1 & F2 & F3 & F4 & F5 & F6 & F7 & F8).
    fields. unfold rep. rewrite F1, F2, F3, F4, F5, F6, F7, F8.
    cbn [a_rect a_set_g aR aC ar ac asr asc atop abot ag].
    repeat (split; [assumption|]). intros i j Hi Hj. rewrite C.
    unfold in_rect. rewrite norm_region_minmax by (constructor; assumption).
    rewrite <- R1, <- R2. unfold row_of. rewrite RG by assumption. reflexivity.
  Qed.

  Lemma scroll_up_rep : rep (scroll_up s) (a_scroll_up a).
  Proof.
    destruct (scroll_up_spec s Hwf) as (F & C). destruct F as (F1 & F2 & F3 & F4 & F5 & F6 & F7 & F8).
    fields. unfold rep. rewrite F1, F2, F3, F4, F5, F6, F7, F8.
    cbn [a_scroll_up a_set_g aR aC ar ac asr asc atop abot ag]. repeat (split; [assumption|]).
    intros i j Hi Hj. rewrite C. rewrite <- R7, <- R8. unfold row_of, in_range in *.
    destruct ((sr_start s <=? Z.of_nat i + 1) && (Z.of_nat i + 1 <? sr_end s)) eqn:E.
    - apply RG; [|assumption]. lia.
    - now apply RG.
  Qed.

  Lemma scroll_down_rep : rep (scroll_down s) (a_scroll_down a).
  Proof.
    destruct (scroll_down_spec s Hwf) as (F & C). destruct F as (F1 & F2 & F3 & F4 & F5 & F6 & F7 & F8).
    fields. unfold rep. rewrite F1, F2, F3, F4, F5, F6, F7, F8.
    cbn [a_scroll_down a_set_g aR aC ar ac asr asc atop abot ag]. repeat (split; [assumption|]).
    intros i j Hi Hj. rewrite C. rewrite <- R7, <- R8. unfold row_of, in_range in *.
    destruct ((sr_start s <? Z.of_nat i + 1) && (Z.of_nat i + 1 <=? sr_end s)) eqn:E.
    - apply RG; [|assumption]. lia.
    - now apply RG.
  Qed.

  Lemma goto_rep r c : rep (cursor_home s r c) (a_goto a r c).
  Proof.
    fields. unfold rep, cursor_home, cursor_constrain, set_cur, a_goto. cbn.
    rewrite !constrain_clamp by assumption. rewrite <- R1, <- R2. repeat (split; [auto|]). exact RG.
  Qed.
End Ops.

(** reference states that agree on all fields and on every cell of the grid *)
Definition aeq (a1 a2 : ascr) : Prop :=
  aR a1 = aR a2 /\ aC a1 = aC a2 /\ ar a1 = ar a2 /\ ac a1 = ac a2 /\ asr a1 = asr a2 /\ asc a1 = asc a2 /\
  atop a1 = atop a2 /\ abot a1 = abot a2 /\
  forall i j, Z.of_nat i < aR a1 -> Z.of_nat j < aC a1 -> ag a1 i j = ag a2 i j.

Lemma rep_ext s a1 a2 : rep s a1 -> aeq a1 a2 -> rep s a2.
Proof.
  intros (R1 & R2 & R3 & R4 & R5 & R6 & R7 & R8 & RG) (E1 & E2 & E3 & E4 & E5 & E6 & E7 & E8 & EG).
  unfold rep. repeat (split; [congruence|]). intros i j Hi Hj. rewrite RG by assumption. apply EG; congruence.
Qed.

Lemma rep_wf_fields s a : wf s -> rep s a ->
  1 <= aR a /\ 1 <= aC a /\ 1 <= ar a <= aR a /\ 1 <= ac a <= aC a /\ 1 <= asr a <= aR a /\ 1 <= asc a <= aC a /\
  1 <= atop a <= aR a /\ 1 <= abot a <= aR a.
Proof.
  intros H (R1 & R2 & R3 & R4 & R5 & R6 & R7 & R8 & _). destruct H. unfold in_range in *.
  rewrite <- R1, <- R2, <- R3, <- R4, <- R5, <- R6, <- R7, <- R8. repeat split; lia.
Qed.

Lemma clamp_id n hi : 1 <= n <= hi -> clamp n hi = n.
Proof. unfold clamp. lia. Qed.
Ltac unfold_spec0 := unfold a_erase_line, a_rect, a_put, a_insert, a_scroll_up, a_scroll_down, a_goto, a_set_g, row_of in *;
                     cbn [aR aC ar ac asr asc atop abot ag] in *.
Ltac norm_clamp := repeat match goal with
                          | |- context[clamp ?n ?hi] => rewrite (clamp_id n hi) by lia
                          end; rewrite ?Z.min_id, ?Z.max_id.
Ltac unfold_spec := unfold_spec0; norm_clamp.


Ltac cells := repeat match goal with |- context[if ?b then _ else _] => let E := fresh "E" in destruct b eqn:E end;
              try reflexivity; try (exfalso; lia).

Lemma same_fields_rep_fields s1 s : same_fields s1 s ->
  rows s1 = rows s /\ cols s1 = cols s /\ cur_r s1 = cur_r s /\ cur_c s1 = cur_c s.
Proof. intros (F1 & F2 & F3 & F4 & _). auto. Qed.

(** line feed *)
Lemma lf_rep s a : wf s -> rep s a -> rep (lf s) (astep a OLf).
Proof.
  intros Hwf Hrep. pose proof (rep_wf_fields s a Hwf Hrep) as (B1 & B2 & B3 & B4 & B5 & B6 & B7 & B8).
  pose proof Hrep as (R1 & R2 & R3 & R4 & R5 & R6 & R7 & R8 & RG).
  unfold lf. cbv zeta. cbn [astep].
  assert (H1 : rep (cursor_down s 1) (a_goto a (ar a + 1) (ac a))).
  { unfold cursor_down. rewrite R3, R4. apply (goto_rep s a Hwf Hrep). }
  assert (W1 : wf (cursor_down s 1)) by now apply cursor_down_wf.
  set (s1 := cursor_down s 1) in *. set (a0 := a_goto a (ar a + 1) (ac a)) in *.
  assert (Hc : cur_r s1 = clamp (ar a + 1) (aR a)) by (destruct H1 as (_ & _ & -> & _); reflexivity). unfold clamp in Hc.
  rewrite R3. destruct (Z.eqb_spec (ar a) (cur_r s1)) as [Heq|Hne]; destruct (Z.ltb_spec (ar a) (aR a)) as [Hlt|Hge]; try lia.
  - (* at the last row: scroll and blank the line *)
    pose proof (scroll_up_rep s1 a0 W1 H1) as H2. pose proof (scroll_up_wf s1 W1) as W2.
    set (s2 := scroll_up s1) in *. set (a2 := a_scroll_up a0) in *.
    pose proof H2 as (Q1 & Q2 & Q3 & Q4 & _).
    unfold erase_line. rewrite Q3, Q2.
    eapply rep_ext; [apply (fill_region_rep s2 a2 W2 H2)|].
    subst a2 a0. unfold aeq.
    assert (Hcl : clamp (ar a + 1) (aR a) = ar a) by (unfold clamp; lia).
    unfold_spec0. rewrite ?Hcl. norm_clamp.
    repeat (split; [first [reflexivity | lia]|]). reflexivity.
  - exact H1.
Qed.

Lemma up_reverse_rep s a : wf s -> rep s a -> rep (cursor_up_reverse s) (astep a OUpReverse).
Proof.
  intros Hwf Hrep. pose proof (rep_wf_fields s a Hwf Hrep) as (B1 & B2 & B3 & B4 & B5 & B6 & B7 & B8).
  pose proof Hrep as (R1 & R2 & R3 & R4 & R5 & R6 & R7 & R8 & RG).
  unfold cursor_up_reverse. cbv zeta. cbn [astep].
  assert (H1 : rep (cursor_up s 1) (a_goto a (ar a - 1) (ac a))).
  { unfold cursor_up. rewrite R3, R4. apply (goto_rep s a Hwf Hrep). }
  assert (W1 : wf (cursor_up s 1)) by now apply cursor_up_wf.
  set (s1 := cursor_up s 1) in *. set (a0 := a_goto a (ar a - 1) (ac a)) in *.
  assert (Hc : cur_r s1 = clamp (ar a - 1) (aR a)) by (destruct H1 as (_ & _ & -> & _); reflexivity). unfold clamp in Hc.
  rewrite R3. destruct (Z.eqb_spec (ar a) (cur_r s1)) as [Heq|Hne]; destruct (Z.ltb_spec 1 (ar a)) as [Hlt|Hge]; try lia.
  - eapply rep_ext; [apply (scroll_up_rep s1 a0 W1 H1)|].
    subst a0. unfold aeq.
    assert (Hcl : clamp (ar a - 1) (aR a) = ar a) by (unfold clamp; lia).
    unfold_spec0. rewrite ?Hcl. norm_clamp. repeat (split; [first [reflexivity | lia]|]). reflexivity.
  - exact H1.
Qed.

Lemma erase_down_rep s a : wf s -> rep s a -> rep (erase_down s) (astep a OEraseDown).
Proof.
  intros Hwf Hrep. pose proof (rep_wf_fields s a Hwf Hrep) as (B1 & B2 & B3 & B4 & B5 & B6 & B7 & B8).
  pose proof Hrep as (R1 & R2 & R3 & R4 & R5 & R6 & R7 & R8 & RG).
  unfold erase_down, erase_end_of_line. cbv zeta. cbn [astep].
  assert (H1 : rep (fill_region s (cur_r s) (cur_c s) (cur_r s) (cols s) SPACE) (a_rect a (ar a) (ac a) (ar a) (aC a) SPACE)).
  { rewrite R3, R4, R2. apply (fill_region_rep s a Hwf Hrep). }
  assert (W1 : wf (fill_region s (cur_r s) (cur_c s) (cur_r s) (cols s) SPACE)) by now apply fill_region_wf.
  set (s1 := fill_region s (cur_r s) (cur_c s) (cur_r s) (cols s) SPACE) in *.
  set (a1 := a_rect a (ar a) (ac a) (ar a) (aC a) SPACE) in *.
  pose proof H1 as (Q1 & Q2 & Q3 & Q4 & _). rewrite Q1, Q2, Q3.
  destruct (Z.ltb_spec (ar a1) (aR a1)) as [Hlt|Hge].
  - eapply rep_ext; [apply (fill_region_rep s1 a1 W1 H1)|].
    subst a1. unfold aeq. unfold_spec. repeat (split; [first [reflexivity | lia]|]).
    intros i j Hi Hj. cells.
  - eapply rep_ext; [exact H1|].
    subst a1. unfold aeq. unfold_spec. repeat (split; [first [reflexivity | lia]|]).
    intros i j Hi Hj. cells.
Qed.

Lemma erase_up_rep s a : wf s -> rep s a -> rep (erase_up s) (astep a OEraseUp).
Proof.
  intros Hwf Hrep. pose proof (rep_wf_fields s a Hwf Hrep) as (B1 & B2 & B3 & B4 & B5 & B6 & B7 & B8).
  pose proof Hrep as (R1 & R2 & R3 & R4 & R5 & R6 & R7 & R8 & RG).
  unfold erase_up, erase_start_of_line. cbv zeta. cbn [astep].
  assert (H1 : rep (fill_region s (cur_r s) 1 (cur_r s) (cur_c s) SPACE) (a_rect a (ar a) 1 (ar a) (ac a) SPACE)).
  { rewrite R3, R4. apply (fill_region_rep s a Hwf Hrep). }
  assert (W1 : wf (fill_region s (cur_r s) 1 (cur_r s) (cur_c s) SPACE)) by now apply fill_region_wf.
  set (s1 := fill_region s (cur_r s) 1 (cur_r s) (cur_c s) SPACE) in *.
  set (a1 := a_rect a (ar a) 1 (ar a) (ac a) SPACE) in *.
  pose proof H1 as (Q1 & Q2 & Q3 & Q4 & _). rewrite Q2, Q3.
  destruct (Z.ltb_spec 1 (ar a1)) as [Hlt|Hge].
  - eapply rep_ext; [apply (fill_region_rep s1 a1 W1 H1)|].
    subst a1. unfold aeq. unfold_spec. repeat (split; [first [reflexivity | lia]|]).
    intros i j Hi Hj. cells.
  - eapply rep_ext; [exact H1|].
    subst a1. unfold aeq. unfold_spec. repeat (split; [first [reflexivity | lia]|]).
    intros i j Hi Hj. cells.
Qed.


(** insert: the shifting loop *)
Lemma zrange_cons a b : a <= b -> zrange a b = a :: zrange (a + 1) b.
Proof.
  intros H. unfold zrange. replace (Z.to_nat (b + 1 - a)) with (S (Z.to_nat (b + 1 - (a + 1)))) by lia.
  cbn [seq map]. f_equal; [lia|]. rewrite <- seq_shift, map_map. apply map_ext. intros k. lia.
Qed.
Lemma zrange_nil a b : b < a -> zrange a b = [].
Proof. intros H. unfold zrange. now replace (Z.to_nat (b + 1 - a)) with 0%nat by lia. Qed.

Lemma shift_fold s r : wf s -> in_range r (rows s) -> forall n lo hi, Z.to_nat (hi + 1 - lo) = n -> 2 <= lo -> hi <= cols s ->
  let s' := fold_right (fun ci s => put_abs s r ci (get_abs s r (ci - 1))) s (zrange lo hi) in
  wf s' /\ same_fields s' s /\
  forall i j, cell (w s') i j =
    if Nat.eqb i (Z.to_nat (r - 1)) && (lo <=? Z.of_nat j + 1) && (Z.of_nat j + 1 <=? hi)
    then cell (w s) i (j - 1) else cell (w s) i j.
Proof.
  intros Hwf Hr. induction n as [|n IH]; intros lo hi Hn Hlo Hhi.
  - rewrite zrange_nil by lia. cbn [fold_right]. split; [exact Hwf|]. split; [apply same_fields_refl|].
    intros i j. replace (Nat.eqb i (Z.to_nat (r - 1)) && (lo <=? Z.of_nat j + 1) && (Z.of_nat j + 1 <=? hi)) with false by lia. reflexivity.
  - rewrite zrange_cons by lia. cbn [fold_right].
    destruct (IH (lo + 1) hi ltac:(lia) ltac:(lia) Hhi) as (W1 & F1 & C1).
    set (s1 := fold_right (fun ci s => put_abs s r ci (get_abs s r (ci - 1))) s (zrange (lo + 1) hi)) in *.
    destruct F1 as (Fr & Fc & Frest).
    split; [now apply put_abs_wf|]. split; [eapply same_fields_trans; [apply put_abs_fields | repeat split; tauto]|].
    intros i j. rewrite put_abs_cell by exact W1. rewrite Fr, Fc.
    pose proof Hwf as Hwf'. destruct Hwf'. unfold in_range in *.
    rewrite (constrain_id r (rows s)) by (unfold in_range; lia). rewrite (constrain_id lo (cols s)) by (unfold in_range; lia).
    rewrite get_abs_cell, Fr, Fc.
    rewrite (constrain_id r (rows s)) by (unfold in_range; lia). rewrite (constrain_id (lo - 1) (cols s)) by (unfold in_range; lia).
    rewrite !C1.
    destruct (Nat.eqb_spec i (Z.to_nat (r - 1))) as [->|Hi]; cbn [andb].
    + rewrite Nat.eqb_refl. cbn [andb].
      destruct (Nat.eqb_spec j (Z.to_nat (lo - 1))) as [->|Hj].
      * replace ((lo + 1 <=? Z.of_nat (Z.to_nat (lo - 1 - 1)) + 1) && (Z.of_nat (Z.to_nat (lo - 1 - 1)) + 1 <=? hi)) with false by lia.
        replace ((lo <=? Z.of_nat (Z.to_nat (lo - 1)) + 1) && (Z.of_nat (Z.to_nat (lo - 1)) + 1 <=? hi)) with true by lia.
        f_equal. lia.
      * replace ((lo <=? Z.of_nat j + 1) && (Z.of_nat j + 1 <=? hi)) with ((lo + 1 <=? Z.of_nat j + 1) && (Z.of_nat j + 1 <=? hi)) by lia.
        reflexivity.
    + reflexivity.
Qed.

Lemma fold_left_rev_fr {A B} (f : A -> B -> A) l s : fold_left f (rev l) s = fold_right (fun x s => f s x) s l.
Proof. induction l as [|x l IH]; cbn; [reflexivity|]. now rewrite fold_left_app, IH. Qed.

Lemma insert_abs_rep s a r c ch : wf s -> rep s a -> rep (insert_abs s r c ch) (a_insert a r c ch).
Proof.
  intros Hwf Hrep. pose proof (rep_wf_fields s a Hwf Hrep) as (B1 & B2 & B3 & B4 & B5 & B6 & B7 & B8).
  pose proof Hrep as (R1 & R2 & R3 & R4 & R5 & R6 & R7 & R8 & RG).
  pose proof Hwf as Hwf'. destruct Hwf'.
  unfold insert_abs. cbv zeta. rewrite !constrain_clamp by assumption.
  pose proof (clamp_range r (rows s) wf_rows) as Hr. pose proof (clamp_range c (cols s) wf_cols) as Hc.
  set (r' := clamp r (rows s)) in *. set (c' := clamp c (cols s)) in *.
  rewrite fold_left_rev_fr.
  destruct (shift_fold s r' Hwf ltac:(unfold in_range; lia) _ (c' + 1) (cols s) eq_refl ltac:(lia) ltac:(lia)) as (W1 & F1 & C1).
  set (s1 := fold_right _ s (zrange (c' + 1) (cols s))) in *.
  destruct F1 as (F1 & F2 & F3 & F4 & F5 & F6 & F7 & F8).
  unfold rep. cbn [rows cols cur_r cur_c sav_r sav_c sr_start sr_end put_abs set_w].
  rewrite F1, F2, F3, F4, F5, F6, F7, F8. cbn [a_insert a_set_g aR aC ar ac asr asc atop abot ag].
  repeat (split; [assumption|]). intros i j Hi Hj.
  change (set_nth _ _ (w s1)) with (w (put_abs s1 r' c' ch)).
  rewrite put_abs_cell by exact W1. rewrite F1, F2.
  rewrite (constrain_id r' (rows s)) by (unfold in_range; lia). rewrite (constrain_id c' (cols s)) by (unfold in_range; lia).
  rewrite C1. rewrite <- R1, <- R2. fold r' c'. unfold row_of.
  rewrite !eqb_idx by lia. unfold row_of.
  destruct (Z.eqb_spec (Z.of_nat i + 1) r') as [Hir|Hir]; cbn [andb].
  - destruct (Z.eqb_spec (Z.of_nat j + 1) c') as [Hjc|Hjc].
    + reflexivity.
    + replace ((c' + 1 <=? Z.of_nat j + 1) && (Z.of_nat j + 1 <=? cols s)) with ((c' <? Z.of_nat j + 1) && (Z.of_nat j + 1 <=? cols s)) by lia.
      destruct ((c' <? Z.of_nat j + 1) && (Z.of_nat j + 1 <=? cols s)) eqn:E.
      * apply RG; lia.
      * now apply RG.
  - now apply RG.
Qed.

(** the master refinement: one operation *)
Theorem sstep_rep s a o : wf s -> rep s a -> rep (sstep s o) (astep a o).
Proof.
  intros Hwf Hrep. pose proof (rep_wf_fields s a Hwf Hrep) as (B1 & B2 & B3 & B4 & B5 & B6 & B7 & B8).
  pose proof Hrep as (R1 & R2 & R3 & R4 & R5 & R6 & R7 & R8 & RG).
  destruct o; cbn [sstep astep].
  - (* put_abs *) now apply put_abs_rep.
  - (* put *) unfold put. rewrite R3, R4. apply (put_abs_rep s a Hwf Hrep).
  - (* insert_abs *) now apply insert_abs_rep.
  - (* insert *) unfold insert. rewrite R3, R4. now apply insert_abs_rep.
  - (* fill *) unfold fill. eapply rep_ext; [apply (fill_region_rep s a Hwf Hrep)|]. rewrite R1, R2.
    unfold aeq. unfold_spec. repeat (split; [reflexivity|]). intros i j Hi Hj.
    replace (_ && _ && _ && _) with true by lia. reflexivity.
  - (* fill_region *) now apply fill_region_rep.
  - (* cr *) unfold cr. rewrite R3. apply (goto_rep s a Hwf Hrep).
  - (* lf *) now apply lf_rep.
  - (* crlf *) unfold crlf. apply (lf_rep (cr s) (a_goto a (ar a) 1)); [now apply cr_wf|]. unfold cr. rewrite R3. apply (goto_rep s a Hwf Hrep).
  - (* home *) now apply goto_rep.
  - (* back *) unfold cursor_back. rewrite R3, R4. apply (goto_rep s a Hwf Hrep).
  - (* down *) unfold cursor_down. rewrite R3, R4. apply (goto_rep s a Hwf Hrep).
  - (* forward *) unfold cursor_forward. rewrite R3, R4. apply (goto_rep s a Hwf Hrep).
  - (* up *) unfold cursor_up. rewrite R3, R4. apply (goto_rep s a Hwf Hrep).
  - (* up reverse *) now apply up_reverse_rep.
  - (* save *) unfold rep, cursor_save_attrs, set_sav. cbn. repeat (split; [first [assumption | reflexivity | congruence]|]). exact RG.
  - (* restore *) unfold cursor_restore_attrs. rewrite R5, R6. apply (goto_rep s a Hwf Hrep).
  - (* scroll_screen *) unfold rep, scroll_screen, set_sr. cbn. repeat (split; [first [assumption | reflexivity | congruence]|]). exact RG.
  - (* scroll rows *) unfold rep, scroll_screen_rows, scroll_constrain, set_sr. cbn.
    destruct Hwf. rewrite !constrain_clamp by assumption. repeat (split; [first [assumption | reflexivity | congruence]|]). exact RG.
  - (* scroll_down *) now apply scroll_down_rep.
  - (* scroll_up *) now apply scroll_up_rep.
  - (* erase eol *) unfold erase_end_of_line. rewrite R3, R4, R2. apply (fill_region_rep s a Hwf Hrep).
  - (* erase sol *) unfold erase_start_of_line. rewrite R3, R4. apply (fill_region_rep s a Hwf Hrep).
  - (* erase line *) unfold erase_line. rewrite R3, R2. apply (fill_region_rep s a Hwf Hrep).
  - (* erase down *) now apply erase_down_rep.
  - (* erase up *) now apply erase_up_rep.
  - (* erase screen *) unfold erase_screen, fill. eapply rep_ext; [apply (fill_region_rep s a Hwf Hrep)|]. rewrite R1, R2.
    unfold aeq. unfold_spec. repeat (split; [reflexivity|]). intros i j Hi Hj.
    replace (_ && _ && _ && _) with true by lia. reflexivity.
Qed.

(** every sequence of operations yields the same screen as the reference grid *)
Theorem steps_rep ops : forall s a, wf s -> rep s a -> rep (fold_left sstep ops s) (fold_left astep ops a) /\ wf (fold_left sstep ops s).
Proof.
  induction ops as [|o ops IH]; intros s a Hwf Hrep; cbn [fold_left]; [now split|].
  apply IH; [now apply sstep_wf | now apply sstep_rep].
Qed.

Lemma init_rep r c : 1 <= r -> 1 <= c -> rep (init r c) (a_init r c).
Proof.
  intros Hr Hc. unfold rep, init, a_init. cbn. repeat (split; [reflexivity|]).
  intros i j Hi Hj. unfold cell.
  rewrite (nth_indep _ [] (repeat SPACE (Z.to_nat c))) by (rewrite repeat_length; lia).
  rewrite nth_repeat. apply nth_repeat.
Qed.

(** the read accessors describe the same grid *)
Lemma get_abs_rep s a r c : wf s -> rep s a ->
  get_abs s r c = ag a (Z.to_nat (clamp r (aR a) - 1)) (Z.to_nat (clamp c (aC a) - 1)).
Proof.
  intros Hwf (R1 & R2 & _ & _ & _ & _ & _ & _ & RG). pose proof Hwf as Hwf'. destruct Hwf'.
  rewrite get_abs_cell, !constrain_clamp by assumption. rewrite <- R1, <- R2.
  pose proof (clamp_range r (rows s) wf_rows). pose proof (clamp_range c (cols s) wf_cols).
  apply RG; lia.
Qed.

(** -- dump / str / pretty read the reference grid ------------------------------------------------------------ *)
Definition agrid (a : ascr) : list (list N) :=
  map (fun i => map (fun j => ag a i j) (seq 0%nat (Z.to_nat (aC a)))) (seq 0%nat (Z.to_nat (aR a))).

Lemma list_as_map {A} (d : A) (l : list A) : l = map (fun j => nth j l d) (seq 0%nat (length l)).
Proof.
  induction l as [|x l IH]; [reflexivity|]. cbn [length seq map nth]. f_equal.
  rewrite <- seq_shift, map_map. exact IH.
Qed.

Lemma grid_rep s a : wf s -> rep s a -> w s = agrid a.
Proof.
  intros Hwf (R1 & R2 & _ & _ & _ & _ & _ & _ & RG). destruct Hwf as [wf_rows0 wf_cols0 wf_len0 wf_row0 _ _ _ _ _ _]. unfold agrid. rewrite <- R1, <- R2.
  rewrite (list_as_map [] (w s)) at 1.
  assert (HL : length (w s) = Z.to_nat (rows s)) by lia. rewrite HL.
  apply map_ext_in. intros i Hi. apply in_seq in Hi.
  assert (Hrow : Z.of_nat (length (nth i (w s) [])) = cols s).
  { rewrite Forall_forall in wf_row0. apply wf_row0. apply nth_In. lia. }
  rewrite (list_as_map SPACE (nth i (w s) [])) at 1.
  assert (HC : length (nth i (w s) []) = Z.to_nat (cols s)) by lia. rewrite HC.
  apply map_ext_in. intros j Hj. apply in_seq in Hj.
  apply (RG i j); lia.
Qed.

Theorem dump_rep s a : wf s -> rep s a -> dump s = concat (agrid a).
Proof. intros Hwf Hr. unfold dump. now rewrite (grid_rep s a Hwf Hr). Qed.

Theorem to_str_rep s a : wf s -> rep s a -> to_str s = join [10%N] (agrid a).
Proof. intros Hwf Hr. unfold to_str. now rewrite (grid_rep s a Hwf Hr). Qed.

Theorem pretty_rep s a : wf s -> rep s a ->
  pretty s = (let top := (43 :: repeat 45 (Z.to_nat (aC a)) ++ [43; 10])%N in
              top ++ join [10%N] (map (fun l => (124 :: l ++ [124])%N) (agrid a)) ++ [10%N] ++ top).
Proof. intros Hwf Hr. unfold pretty. rewrite (grid_rep s a Hwf Hr). destruct Hr as (_ & R2 & _). now rewrite R2. Qed.

(** get_region reads the reference grid over the normalised rectangle *)
Theorem get_region_rep s a rs cs re ce : wf s -> rep s a ->
  get_region s rs cs re ce =
    (let '(rs', cs', re', ce') := norm_region s rs cs re ce in
     map (fun r => map (fun c => ag a (Z.to_nat (clamp r (aR a) - 1)) (Z.to_nat (clamp c (aC a) - 1))) (zrange cs' ce')) (zrange rs' re')).
Proof.
  intros Hwf Hr. unfold get_region. destruct (norm_region s rs cs re ce) as [[[rs' cs'] re'] ce'].
  apply map_ext. intros r. apply map_ext. intros c. now apply get_abs_rep.
Qed.

(** -- the reference determines the screen ------------------------------------------------------ *)
(** every well-shaped screen represents a reference state: its own reading *)
Definition abs_of (s : scr) : ascr :=
  mkA (rows s) (cols s) (cur_r s) (cur_c s) (sav_r s) (sav_c s) (sr_start s) (sr_end s) (fun i j => cell (w s) i j).
Lemma abs_of_rep s : rep s (abs_of s).
Proof. unfold rep, abs_of. cbn. repeat split. Qed.

(** ... and two well-shaped screens that represent the same reference state are the same screen, field by field and
    cell by cell (so "the same screen as the reference" leaves no freedom, e.g. in cells outside the stated ranges) *)
Theorem rep_injective s1 s2 a : wf s1 -> wf s2 -> rep s1 a -> rep s2 a -> s1 = s2.
Proof.
  intros W1 W2 R1 R2.
  pose proof (grid_rep s1 a W1 R1) as G1. pose proof (grid_rep s2 a W2 R2) as G2.
  destruct R1 as (A1 & B1 & C1 & D1 & E1 & F1 & H1 & I1 & _).
  destruct R2 as (A2 & B2 & C2 & D2 & E2 & F2 & H2 & I2 & _).
  destruct s1, s2. cbn in *. congruence.
Qed.

(** hence: two histories the reference cannot tell apart (same fields, same cells on the screen - [aeq], no appeal to
    extensionality of functions) leave the very same screen *)
Theorem same_reference_same_screen ops1 ops2 s : wf s ->
  aeq (fold_left astep ops1 (abs_of s)) (fold_left astep ops2 (abs_of s)) ->
  fold_left sstep ops1 s = fold_left sstep ops2 s.
Proof.
  intros W E.
  destruct (steps_rep ops1 s (abs_of s) W (abs_of_rep s)) as [R1 W1].
  destruct (steps_rep ops2 s (abs_of s) W (abs_of_rep s)) as [R2 W2].
  exact (rep_injective _ _ _ W1 W2 (rep_ext _ _ _ R1 E) R2).
Qed.
