(** Executable model of pexpect/screen.py (class screen), method by method.  Python integers are Z,
    characters are code points (N); the grid is a list of rows.  No proofs here. *)
From Coq Require Import ZArith NArith List Bool Arith.
Import ListNotations.
From PV Require Import Base.PySeq.
Local Open Scope Z_scope.

Record scr := mkScr {
  rows : Z; cols : Z;
  cur_r : Z; cur_c : Z;
  sav_r : Z; sav_c : Z;
  sr_start : Z; sr_end : Z;
  w : list (list N)
}.

Definition SPACE : N := 32%N.

Definition constrain (n lo hi : Z) : Z := if n <? lo then lo else if hi <? n then hi else n.

Definition init (r c : Z) : scr :=
  mkScr r c 1 1 1 1 1 r (repeat (repeat SPACE (Z.to_nat c)) (Z.to_nat r)).

Definition set_w (s : scr) (g : list (list N)) : scr :=
  mkScr (rows s) (cols s) (cur_r s) (cur_c s) (sav_r s) (sav_c s) (sr_start s) (sr_end s) g.
Definition set_cur (s : scr) (r c : Z) : scr :=
  mkScr (rows s) (cols s) r c (sav_r s) (sav_c s) (sr_start s) (sr_end s) (w s).
Definition set_sav (s : scr) (r c : Z) : scr :=
  mkScr (rows s) (cols s) (cur_r s) (cur_c s) r c (sr_start s) (sr_end s) (w s).
Definition set_sr (s : scr) (a b : Z) : scr :=
  mkScr (rows s) (cols s) (cur_r s) (cur_c s) (sav_r s) (sav_c s) a b (w s).

(** list update at a 0-based position (in range whenever the coordinates were constrained) *)
Fixpoint set_nth {A} (n : nat) (x : A) (l : list A) : list A :=
  match l, n with
  | [], _ => []
  | _ :: t, O => x :: t
  | h :: t, S k => h :: set_nth k x t
  end.

Definition cell (g : list (list N)) (r c : nat) : N := nth c (nth r g []) SPACE.

(** put_abs (r, c, ch): self.w[r-1][c-1] = ch after constraining *)
Definition put_abs (s : scr) (r c : Z) (ch : N) : scr :=
  let r := constrain r 1 (rows s) in
  let c := constrain c 1 (cols s) in
  let ri := Z.to_nat (r - 1) in
  let ci := Z.to_nat (c - 1) in
  set_w s (set_nth ri (set_nth ci ch (nth ri (w s) [])) (w s)).

Definition get_abs (s : scr) (r c : Z) : N :=
  let r := constrain r 1 (rows s) in
  let c := constrain c 1 (cols s) in
  cell (w s) (Z.to_nat (r - 1)) (Z.to_nat (c - 1)).

Definition put (s : scr) (ch : N) : scr := put_abs s (cur_r s) (cur_c s) ch.
Definition get (s : scr) : N := get_abs s (cur_r s) (cur_c s).

(** range(a, b+1) *)
Definition zrange (a b : Z) : list Z := map (fun k => a + Z.of_nat k) (seq 0 (Z.to_nat (b + 1 - a))).

Definition norm_region (s : scr) (rs cs re ce : Z) : Z * Z * Z * Z :=
  let rs := constrain rs 1 (rows s) in
  let re := constrain re 1 (rows s) in
  let cs := constrain cs 1 (cols s) in
  let ce := constrain ce 1 (cols s) in
  let '(rs, re) := if re <? rs then (re, rs) else (rs, re) in
  let '(cs, ce) := if ce <? cs then (ce, cs) else (cs, ce) in
  (rs, cs, re, ce).

Definition fill_region (s : scr) (rs cs re ce : Z) (ch : N) : scr :=
  let '(rs, cs, re, ce) := norm_region s rs cs re ce in
  fold_left (fun s r => fold_left (fun s c => put_abs s r c ch) (zrange cs ce) s) (zrange rs re) s.

Definition fill (s : scr) (ch : N) : scr := fill_region s 1 1 (rows s) (cols s) ch.

Definition get_region (s : scr) (rs cs re ce : Z) : list (list N) :=
  let '(rs, cs, re, ce) := norm_region s rs cs re ce in
  map (fun r => map (fun c => get_abs s r c) (zrange cs ce)) (zrange rs re).

(** insert_abs: shift right from column c, last character lost *)
Definition insert_abs (s : scr) (r c : Z) (ch : N) : scr :=
  let r := constrain r 1 (rows s) in
  let c := constrain c 1 (cols s) in
  let cis := rev (zrange (c + 1) (cols s)) in           (* range(cols, c, -1) *)
  let s := fold_left (fun s ci => put_abs s r ci (get_abs s r (ci - 1))) cis s in
  put_abs s r c ch.
Definition insert (s : scr) (ch : N) : scr := insert_abs s (cur_r s) (cur_c s) ch.

(** cursor *)
Definition cursor_constrain (s : scr) : scr :=
  set_cur s (constrain (cur_r s) 1 (rows s)) (constrain (cur_c s) 1 (cols s)).
Definition cursor_home (s : scr) (r c : Z) : scr := cursor_constrain (set_cur s r c).
Definition cursor_back (s : scr) (n : Z) : scr := cursor_constrain (set_cur s (cur_r s) (cur_c s - n)).
Definition cursor_forward (s : scr) (n : Z) : scr := cursor_constrain (set_cur s (cur_r s) (cur_c s + n)).
Definition cursor_down (s : scr) (n : Z) : scr := cursor_constrain (set_cur s (cur_r s + n) (cur_c s)).
Definition cursor_up (s : scr) (n : Z) : scr := cursor_constrain (set_cur s (cur_r s - n) (cur_c s)).
Definition cursor_save_attrs (s : scr) : scr := set_sav s (cur_r s) (cur_c s).
Definition cursor_restore_attrs (s : scr) : scr := cursor_home s (sav_r s) (sav_c s).

(** scrolling *)
Definition scroll_constrain (s : scr) : scr :=
  set_sr s (constrain (sr_start s) 1 (rows s)) (constrain (sr_end s) 1 (rows s)).
Definition scroll_screen (s : scr) : scr := set_sr s 1 (rows s).
Definition scroll_screen_rows (s : scr) (rs re : Z) : scr := scroll_constrain (set_sr s rs re).

(** self.w[s:e] = deepcopy(self.w[s+1:e+1]) *)
Definition scroll_up (s : scr) : scr :=
  let a := sr_start s - 1 in
  let e := sr_end s - 1 in
  set_w s (py_slice_assign (w s) a e (py_slice (w s) (Some (a + 1)) (Some (e + 1)))).
(** self.w[s+1:e+1] = deepcopy(self.w[s:e]) *)
Definition scroll_down (s : scr) : scr :=
  let a := sr_start s - 1 in
  let e := sr_end s - 1 in
  set_w s (py_slice_assign (w s) (a + 1) (e + 1) (py_slice (w s) (Some a) (Some e))).

(** erasing *)
Definition erase_end_of_line (s : scr) : scr := fill_region s (cur_r s) (cur_c s) (cur_r s) (cols s) SPACE.
Definition erase_start_of_line (s : scr) : scr := fill_region s (cur_r s) 1 (cur_r s) (cur_c s) SPACE.
Definition erase_line (s : scr) : scr := fill_region s (cur_r s) 1 (cur_r s) (cols s) SPACE.
Definition erase_down (s : scr) : scr :=
  let s := erase_end_of_line s in
  if cur_r s <? rows s then fill_region s (cur_r s + 1) 1 (rows s) (cols s) SPACE else s.
Definition erase_up (s : scr) : scr :=
  let s := erase_start_of_line s in
  if 1 <? cur_r s then fill_region s (cur_r s - 1) 1 1 (cols s) SPACE else s.
Definition erase_screen (s : scr) : scr := fill s SPACE.

(** line discipline *)
Definition cr (s : scr) : scr := cursor_home s (cur_r s) 1.
Definition lf (s : scr) : scr :=
  let old_r := cur_r s in
  let s := cursor_down s 1 in
  if old_r =? cur_r s then erase_line (scroll_up s) else s.
Definition crlf (s : scr) : scr := lf (cr s).
Definition cursor_up_reverse (s : scr) : scr :=
  let old_r := cur_r s in
  let s := cursor_up s 1 in
  if old_r =? cur_r s then scroll_up s else s.

(** accessors *)
Definition dump (s : scr) : list N := concat (w s).
Fixpoint join (sep : list N) (ls : list (list N)) : list N :=
  match ls with [] => [] | [x] => x | x :: r => x ++ sep ++ join sep r end.
Definition to_str (s : scr) : list N := join [10%N] (w s).
Definition pretty (s : scr) : list N :=
  let top := (43 :: repeat 45 (Z.to_nat (cols s)) ++ [43; 10])%N in
  top ++ join [10%N] (map (fun l => (124 :: l ++ [124])%N) (w s)) ++ [10%N] ++ top.

(** the operations as data, for histories *)
Inductive sop :=
| OPutAbs (r c : Z) (ch : N) | OPut (ch : N) | OInsertAbs (r c : Z) (ch : N) | OInsert (ch : N)
| OFill (ch : N) | OFillRegion (rs cs re ce : Z) (ch : N)
| OCr | OLf | OCrlf
| OHome (r c : Z) | OBack (n : Z) | ODown (n : Z) | OForward (n : Z) | OUp (n : Z) | OUpReverse
| OSave | ORestore
| OScrollScreen | OScrollRows (rs re : Z) | OScrollDown | OScrollUp
| OEraseEol | OEraseSol | OEraseLine | OEraseDown | OEraseUp | OEraseScreen.

Definition sstep (s : scr) (o : sop) : scr :=
  match o with
  | OPutAbs r c ch => put_abs s r c ch | OPut ch => put s ch
  | OInsertAbs r c ch => insert_abs s r c ch | OInsert ch => insert s ch
  | OFill ch => fill s ch | OFillRegion rs cs re ce ch => fill_region s rs cs re ce ch
  | OCr => cr s | OLf => lf s | OCrlf => crlf s
  | OHome r c => cursor_home s r c | OBack n => cursor_back s n | ODown n => cursor_down s n
  | OForward n => cursor_forward s n | OUp n => cursor_up s n | OUpReverse => cursor_up_reverse s
  | OSave => cursor_save_attrs s | ORestore => cursor_restore_attrs s
  | OScrollScreen => scroll_screen s | OScrollRows a b => scroll_screen_rows s a b
  | OScrollDown => scroll_down s | OScrollUp => scroll_up s
  | OEraseEol => erase_end_of_line s | OEraseSol => erase_start_of_line s | OEraseLine => erase_line s
  | OEraseDown => erase_down s | OEraseUp => erase_up s | OEraseScreen => erase_screen s
  end.
