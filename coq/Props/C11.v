(** C11 Logging fidelity.  Property theorems only. *)
From Coq Require Import ZArith NArith List Bool.
Import ListNotations.
From PV Require Import Base.Utf8 IO.Model IO.Proofs.

(** logfile_read receives exactly the texts delivered to matching - once, in order *)
Theorem C11_read_log_is_delivered : forall unicode L T ops, has_read L = true ->
  writes LRead (events (snd (run unicode L T ops))) = delivered (snd (run unicode L T ops)).
Proof. exact read_log_is_delivered. Qed.
Print Assumptions C11_read_log_is_delivered.

(** logfile receives reads and sends interleaved in the order the operations happened *)
Theorem C11_all_log_is_the_interleaving : forall unicode L T ops,
  has_all L = true -> has_read L = true -> has_send L = true ->
  writes LAll (events (snd (run unicode L T ops))) = rw_writes (events (snd (run unicode L T ops))).
Proof. exact all_log_is_the_interleaving. Qed.
Print Assumptions C11_all_log_is_the_interleaving.

(** every write to a log file is immediately followed by a flush of that file *)
Theorem C11_every_write_is_flushed : forall unicode L T ops, flushed (events (snd (run unicode L T ops))) = true.
Proof. exact every_write_is_flushed. Qed.
Print Assumptions C11_every_write_is_flushed.

Example C11_example :
  writes LAll (events (snd (run true {| has_all := true; has_read := true; has_send := true |} TSocket
                              [Read [104; 105]%N; SendLine true [111; 107]%N; Read [33]%N])))
  = [[104; 105]; [111; 107; 10]; [33]]%N.
Proof. vm_compute. reflexivity. Qed.
