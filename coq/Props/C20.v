(** C20 A pattern means the same in every accepted form; other objects are rejected.  Property theorems only.
    A compiled pattern is described by (string type, source, flags); what such a descriptor matches is CPython's re. *)
From Coq Require Import ZArith NArith List Bool.
Import ListNotations.
From PV Require Import Base.Utf8 Pattern.Model Pattern.Proofs.
Local Open Scope N_scope.

Theorem C20_str_is_compiled_dotall : forall m s, bytes_mode m = false ->
  compile1 m (OStr s) = compile1 m (ORe TStr s (norm_flags TStr (str_flags m))).
Proof. exact str_is_compiled_unicode. Qed.
Print Assumptions C20_str_is_compiled_dotall.

Theorem C20_bytes_is_compiled_dotall : forall m s, bytes_mode m = true ->
  compile1 m (OBytes s) = compile1 m (ORe TBytes s (str_flags m)).
Proof. exact bytes_is_compiled. Qed.
Print Assumptions C20_bytes_is_compiled_dotall.

Theorem C20_ascii_text_in_bytes_mode : forall m s, bytes_mode m = true -> is_ascii s = true ->
  compile1 m (OStr s) = compile1 m (OBytes s) /\ prepare1 m (OStr s) = prepare1 m (OBytes s).
Proof. exact ascii_text_is_bytes. Qed.
Print Assumptions C20_ascii_text_in_bytes_mode.

Theorem C20_compiled_keeps_its_flags : forall m t src fl,
  exists t' src' fl', compile1 m (ORe t src fl) = inl (DRe t' src' fl') /\
    t' = (if bytes_mode m then TBytes else TStr) /\
    (is_ascii src = true -> src' = src) /\
    (forall k, k <> 5 -> k <> 2 -> N.testbit fl' k = N.testbit fl k).
Proof. exact compiled_keeps_flags. Qed.
Print Assumptions C20_compiled_keeps_its_flags.

Theorem C20_single_is_one_element_list : forall m p, (forall l, p <> OList l) -> p <> ONone ->
  compile_pattern_list m p = compile_pattern_list m (OList [p]).
Proof. exact single_is_list. Qed.
Print Assumptions C20_single_is_one_element_list.

Theorem C20_other_objects_rejected : forall m,
  compile1 m OOther = inr TypeError /\ compile1 m ONone = inr TypeError /\
  (forall l, compile1 m (OList l) = inr TypeError) /\
  prepare_exact m OOther = inr TypeError /\ prepare_exact m ONone = inr TypeError /\
  (forall t s f, prepare_exact m (ORe t s f) = inr TypeError) /\
  (bytes_mode m = false -> forall s, compile1 m (OBytes s) = inr TypeError).
Proof. exact other_rejected. Qed.
Print Assumptions C20_other_objects_rejected.

Theorem C20_bad_entry_rejects_whole_list : forall m l x e, In x l -> compile1 m x = inr e ->
  exists e', compile_pattern_list m (OList l) = inr e'.
Proof. exact bad_entry_rejects. Qed.
Print Assumptions C20_bad_entry_rejects_whole_list.

Example C20_flags_example :
  compile1 {| bytes_mode := true; ignorecase := false |} (ORe TStr [104; 105] (F_I + F_U)) = inl (DRe TBytes [104; 105] F_I).
Proof. vm_compute. reflexivity. Qed.
