(** C06 Transport fidelity.  Property theorems only; proofs in Transport/Proofs.v.  The kernel endpoint (FIFO buffer,
    "peer has it open", "child alive") is a MODEL; the peer acts (write / exit / hang up) just before every system call
    of the reader, as an arbitrary schedule dictates, and the kernel may return any non-empty part of what is available. *)
From Coq Require Import ZArith NArith List Bool Arith.
Import ListNotations.
From PV Require Import Transport.Model Transport.Proofs Transport.Popen Transport.PopenProofs.

(** One pty read_nonblocking call, for every schedule, size and timeout mode: what it returns is taken from the front of
    what the kernel holds (initial buffer ++ what the peer wrote meanwhile), at most [size] bytes; EOF is raised only when
    the kernel buffer is drained AND the peer is gone (so nothing can follow); a read is only attempted after a positive
    poll (never blocks). *)
Theorem C06_pty_read : forall size t0 k s, ok_from size k [] (pty_read k s size t0).
Proof. exact pty_read_ok. Qed.
Print Assumptions C06_pty_read.

Theorem C06_fd_and_socket_read : forall size k s, ok_from size k [] (fd_read k s size) /\ ok_from size k [] (sock_read k s size).
Proof. intros. split; apply fd_read_ok. Qed.
Print Assumptions C06_fd_and_socket_read.

(** Any sequence of reads: the data returned so far, concatenated, followed by what is still in the kernel is exactly
    what was there plus what the peer wrote, in order - nothing lost, duplicated or reordered; no read exceeds its size. *)
Theorem C06_reads_conserve : forall f, (forall size k s, ok_from size k [] (f k s size)) ->
  forall sizes k s, let '(rs, k', _) := reads f sizes k s in
  call_ok k (flat_map data_of rs) k' /\ Forall2 (fun n r => length (data_of r) <= n) sizes rs.
Proof. exact reads_conserve. Qed.
Print Assumptions C06_reads_conserve.

(** once the peer is gone (closed or dead) it stays gone and the kernel buffer only shrinks: after EOF nothing was left behind *)
Theorem C06_gone_is_final : forall acts k, gone k -> gone (peer k acts) /\ kbuf (peer k acts) = kbuf k.
Proof. exact peer_gone. Qed.
Print Assumptions C06_gone_is_final.

(** a socket read leaves the socket's own timeout as it found it (it sets the read's timeout and puts the previous value back),
    whatever the outcome of the read *)
Theorem C06_socket_timeout_restored : forall sk t k s size,
  let '(r, k', s', sk') := sock_read_t sk t k s size in
  own sk' = own sk /\ (r, k', s') = sock_read k s size /\ tlog sk' = tlog sk ++ [t; own sk].
Proof. exact sock_timeout_restored. Qed.
Print Assumptions C06_socket_timeout_restored.

(** PopenSpawn: a reader thread moves the pipe into a queue, read_nonblocking drains the queue into a carry-over buffer.
    For every interleaving of the peer (writes, exit, hang-up), of the thread's steps (one os.read + put each) and of the
    iterations of the reader's loop, with the timeout expiring anywhere: one call returns at most size bytes, and what it
    returns followed by what is still undelivered (carry-over buffer, queue, pipe - in that order) is what was undelivered
    plus what the peer wrote meanwhile; the loop always terminates; EOF is raised only when buffer, queue and pipe are
    empty and the pipe is closed; it never reports a timeout (it returns the empty string instead). *)
Theorem C06_popen_read : forall w s size, PInv w ->
  match popen_read w s size with (ok, r, w', s') =>
    ok = true /\ PInv w' /\ data_of r ++ pending w' = pending w ++ read_written w s size /\ length (data_of r) <= size /\
    (r = REof -> pending w = [] /\ kopen (pk w) = false /\ w' = w) /\ r <> RTimeout /\ r <> RBlocked
  end.
Proof. exact popen_read_ok. Qed.
Print Assumptions C06_popen_read.

(** any sequence of PopenSpawn reads with anything happening in between conserves the stream; the invariant holds from
    a fresh object on; once EOF has been raised every later call raises it again *)
Theorem C06_popen_reads_conserve : forall ops w, PInv w ->
  match prun ops w with (rs, wr, w') => PInv w' /\ flat_map data_of rs ++ pending w' = pending w ++ wr end.
Proof. exact popen_reads_conserve. Qed.
Print Assumptions C06_popen_reads_conserve.
Theorem C06_popen_fresh : PInv pw0.
Proof. exact pw0_inv. Qed.
Print Assumptions C06_popen_fresh.
Theorem C06_popen_eof_sticky : forall w s size ok w' s' s2 size2, popen_read w s size = (ok, REof, w', s') ->
  popen_read w' s2 size2 = (true, REof, w', s2).
Proof. exact popen_eof_sticky. Qed.
Print Assumptions C06_popen_eof_sticky.

(** a by-product: the branch of read_nonblocking "EOF already reached but the carry-over buffer is not empty" is never
    taken - in every reachable state, once the end-of-file marker has been consumed the carry-over buffer is empty *)
Theorem C06_popen_eof_means_drained : forall w s size, PInv2 w -> match popen_read w s size with (_, _, w', _) => PInv2 w' end.
Proof. exact popen_read_inv2. Qed.
Print Assumptions C06_popen_eof_means_drained.

(** non-vacuity / the schedule that used to lose data: wait expires, child writes, child exits - the data is delivered *)
Example C06_last_words :
  fst (fst (pty_read {| kbuf := []; kopen := true; kalive := true |}
              [([], 0); ([], 0); ([], 0); ([PWrite [76; 87]%N; PExit], 0); ([], 0); ([], 9)] 100 false))
  = RData [76; 87]%N.
Proof. vm_compute. reflexivity. Qed.
