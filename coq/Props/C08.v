(** C08 Send fidelity.  Property theorems only. *)
From Coq Require Import ZArith NArith List Bool.
Import ListNotations.
From PV Require Import Base.Utf8 IO.Model IO.Proofs.

(** for every sequence of send-family calls (interleaved with reads) on every transport, in bytes and unicode mode:
    what goes on the wire is exactly, in call order, the encoding of each coerced argument (sendline adding one line
    separator; PopenSpawn as two writes) and one byte per control call - nothing else *)
Theorem C08_wire_is_what_was_sent : forall unicode L T ops,
  wire (snd (run unicode L T ops)) = flat_map (wire_of unicode T) ops.
Proof. exact wire_is_what_was_sent. Qed.
Print Assumptions C08_wire_is_what_was_sent.

(** the write loop behind send(): whatever part of the payload each write call accepts (or refuses for the moment, on a
    descriptor that asyncio has made non-blocking), the pieces that reach the descriptor are, in order, the payload;
    nothing is dropped, and with a descriptor that keeps accepting something everything is written *)
Theorem C08_write_loop_conserves : forall accepts b, let '(ps, lft) := write_all accepts b in concat ps ++ lft = b.
Proof. exact write_all_conserves. Qed.
Print Assumptions C08_write_loop_conserves.
Theorem C08_write_loop_completes : forall accepts b,
  length b <= length (filter (fun a => match a with Some (S _) => true | _ => false end) accepts) -> snd (write_all accepts b) = [].
Proof. exact write_all_completes. Qed.
Print Assumptions C08_write_loop_completes.

Example C08_example :
  let o := snd (run false {| has_all := false; has_read := false; has_send := false |} TPty
                  [Send true [233]%N; SendLine false [255]%N; Control 3%N]) in
  (concat (wire o), returns o) = ([195; 169; 255; 10; 3]%N, [2; 2; 1]).
Proof. vm_compute. reflexivity. Qed.
