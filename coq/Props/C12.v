(** C12 run(): complete output, each event answered once.  Property theorems only; proofs in Run/Proofs.v (which rest
    on the conservation theorem of C01 and the refinement of C03). *)
From Coq Require Import ZArith NArith List Bool Arith.
Import ListNotations.
From PV Require Import Base.PySeq Base.Rx Base.RxFacts Expect.Model Expect.SpecFacts Run.Model Run.Proofs.

(** For every event table (patterns of any kind incl. EOF/TIMEOUT as events, string / callback / invalid responses),
    every list of transport events and any number of loop iterations: the text run() returns is exactly what was read
    from the child up to the stop - all of it when the run ends at EOF or TIMEOUT (also when a TIMEOUT event's callback
    stops it), all that was consumed (the rest is still pending) when a callback stops it at a match; each piece once. *)
Theorem C12_run_output_complete :
  forall (rx : Type) (re_search : rx -> text -> nat -> option (nat * nat)),
  (forall r t p a b, re_search r t p = Some (a, b) -> a <= b) ->
  forall fuel Wd events evs, match Wd with Some w => 1 <= w | None => True end ->
  let r := run rx re_search fuel Wd events evs in
  exists used, evs = used ++ r_rest r /\
    match r_stop r with
    | StopEof | StopTimeout => r_out r = data_of used
    | _ => r_out r ++ pend (r_state r) = data_of used
    end.
Proof. exact run_output_complete. Qed.
Print Assumptions C12_run_output_complete.

(** a response is sent exactly when its own event fires: reacting to event i adds nothing or exactly the string / the
    callback's string registered for i *)
Theorem C12_response_of_the_event : forall responses i sent sent' stopnow,
  react responses i sent = Some (sent', stopnow) ->
  sent' = sent \/ exists s, sent' = sent ++ [s] /\
    (nth_error responses i = Some (RSend s) \/ nth_error responses i = Some (RCall (CbStr s))).
Proof. exact react_sent. Qed.
Print Assumptions C12_response_of_the_event.

(** non-vacuity: a TIMEOUT event between two chunks does not duplicate the first chunk *)
Example C12_timeout_event_no_duplicate :
  r_out (run rx rx_search 10 None [(PTimeout, RCall CbFalse)] [Data [65; 65]%N; Timeout; Data [66]%N; Eof]) = [65; 65; 66]%N.
Proof. vm_compute. reflexivity. Qed.

(** the timeout given to run(): a number is used as it is, None means never, and only "not given" / the marker -1 means the default
    of spawn (job run-args compares this with the timeout the spawn object is really created with) *)
Theorem C12_timeout_argument :
  spawn_timeout None = Some 30%Z /\ spawn_timeout (Some None) = None /\ forall t, spawn_timeout (Some (Some t)) = Some t.
Proof. exact spawn_timeout_spec. Qed.
Print Assumptions C12_timeout_argument.
