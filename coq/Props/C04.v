(** C04 EOF/TIMEOUT outcomes.  Property theorems only. *)
From Coq Require Import ZArith NArith List Bool Arith.
Import ListNotations.
From PV Require Import Base.PySeq Base.Rx Base.RxFacts Expect.Model Expect.Spec Expect.Refine Expect.SpecFacts.
From PV Require Transport.Model Transport.Proofs.
From PV Require Import Compose.Model Compose.Proofs.

(** When the stream ends / the time runs out / the transport fails before any window contained an occurrence:
    the result is "index of the marker if listed (Some i), else that exception (None)" - never another
    constructor -, before is all pending text, at EOF the pending text and the search buffer are cleared, after
    TIMEOUT or an error everything stays pending. *)
Theorem C04_eof_timeout_outcomes :
  forall (rx : Type) (re_search : rx -> text -> nat -> option (nat * nat)),
  (forall r t p a b, re_search r t p = Some (a, b) -> a <= b) ->
  forall (c : cfg rx) (t0 : bool) (s : st) (evs : list ev), wfW rx c -> Inv s ->
  match expect_loop rx re_search c t0 s evs with (r, s', evs') =>
    exists used, evs = used ++ evs' /\
    let P := pend s ++ data_of used in
    match r with
    | AtEof i b => i = eof_index c /\ b = P /\ pend s' = [] /\ buf s' = []
    | AtTimeout i b => i = timeout_index c /\ b = P /\ pend s' = P
    | Errored b => b = P /\ pend s' = P
    | Matched _ _ _ _ => True
    end
  end.
Proof. exact eof_timeout_outcomes. Qed.
Print Assumptions C04_eof_timeout_outcomes.

(** An occurrence already present in the searchable pending text wins over whatever the transport does
    next - EOF, TIMEOUT, an error, also with timeout 0: no event is consumed. *)
Theorem C04_pending_match_wins :
  forall (rx : Type) (re_search : rx -> text -> nat -> option (nat * nat))
         (c : cfg rx) (t0 : bool) (s : st) (evs : list ev) h, wfW rx c -> Inv s ->
  nsearch rx re_search c (lastW (W c) (pend s)) = Some h ->
  exists i b a sp s', expect_loop rx re_search c t0 s evs = (Matched i b a sp, s', evs) /\
                      strip (Matched i b a sp) = strip (fst (hit (pend s) (lastW (W c) (pend s)) h)).
Proof. exact pending_match_wins. Qed.
Print Assumptions C04_pending_match_wins.

(** After EOF every later call on an ended stream reports EOF again with empty before (it never blocks:
    the model's transport keeps answering EOF once the event list is exhausted). *)
Theorem C04_eof_is_sticky :
  forall (rx : Type) (re_search : rx -> text -> nat -> option (nat * nat)) (c : cfg rx) (t0 : bool),
  nsearch rx re_search c [] = None ->
  expect_loop rx re_search c t0 {| pend := []; buf := [] |} [] =
  (AtEof (eof_index c) [], {| pend := []; buf := [] |}, []).
Proof. exact eof_sticky. Qed.
Print Assumptions C04_eof_is_sticky.


(** END TO END (Compose/): over the kernel-endpoint model, with any transport whose read respects C06 (pty, fd, socket), a call
    reports EOF only when the kernel holds nothing more and the peer is gone; the index is that of the listed EOF marker (None:
    the exception); before is ALL the text that was pending or arrived - what was pending, what the kernel held, what the peer
    still wrote -, and nothing is left pending. *)
Theorem C04_end_to_end_eof :
  forall (rx : Type) (re_search : rx -> text -> nat -> option (nat * nat))
         (rd : T.kern -> T.sched -> nat -> T.res * T.kern * T.sched) (maxread : nat),
  (forall r t p a b, re_search r t p = Some (a, b) -> a <= b) ->
  (forall size k s, TP.ok_from size k [] (rd k s size)) ->
  forall c t0 fuel s k sc i b s' k' sc', wfW rx c -> Inv s ->
  expect_over rx re_search rd maxread fuel c t0 s k sc = Done (AtEof i b) s' k' sc' ->
  T.kbuf k' = [] /\ TP.gone k' /\ i = eof_index c /\ pend s' = [] /\ exists w, b = pend s ++ T.kbuf k ++ w.
Proof. exact expect_over_eof. Qed.
Print Assumptions C04_end_to_end_eof.

(** with timeout 0 the pending text is searched and one read is still attempted *)
Example C04_timeout_zero_reads_once :
  fst (fst (expect_loop rx rx_search {| ckind := KExact; pats := [PStr [98]%N; PTimeout]; W := None |} true
              {| pend := [97]%N; buf := [97]%N |} [Data [98]%N; Data [99]%N]))
  = Matched 0 [97]%N [98]%N (1, 2).
Proof. vm_compute. reflexivity. Qed.
