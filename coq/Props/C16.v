(** C16 REPLWrapper: each command returns exactly its own output.  Property theorems only. *)
From Coq Require Import ZArith NArith List Bool.
Import ListNotations.
From PV Require Import Base.PySeq Base.PySeqFacts Expect.Model Repl.Model Repl.Proofs.

(** For every REPL (any state space, any step function, any reaction to an interrupt) whose responses contain a prompt
    string only as the prompt that ends them, for every way each response is cut into reads, for the blocking and the
    awaited form, from any synchronised wrapper: run_command returns exactly the concatenated output of the command's
    lines (no prompt text, nothing of another command) when the REPL ends on its primary prompt; otherwise the input was
    incomplete: ValueError, the REPL has been interrupted; in both cases the wrapper is synchronised again (nothing
    pending, nothing unread) and the child has been sent exactly the command's lines. *)
Theorem C16_run_command_exact :
  forall (rstate : Type) (rstep : rstate -> text -> rstate * text * bool) (rint : rstate -> rstate * text) (prompt cont : text),
  prompt <> [] -> cont <> [] ->
  (forall q l, match rstep q l with (_, out, ok) => only_end prompt cont out ok end) ->
  (forall q, only_end prompt cont (snd (rint q)) true) ->
  forall async (w : world rstate) command cuts, sync rstate w ->
  exists w', run_command rstate rstep rint prompt cont async w command cuts = (fst (spec_command rstate rstep rint (rq w) command), w')
             /\ sync rstate w' /\ rq w' = snd (spec_command rstate rstep rint (rq w) command)
             /\ got w' = got w ++ cmdlines command.
Proof. exact run_command_exact. Qed.
Print Assumptions C16_run_command_exact.

(** every command of every session (any mix of complete and incomplete commands, blocking and awaited) gives the result
    computed on the REPL alone: no drift of the prompt synchronisation *)
Theorem C16_sessions :
  forall (rstate : Type) (rstep : rstate -> text -> rstate * text * bool) (rint : rstate -> rstate * text) (prompt cont : text),
  prompt <> [] -> cont <> [] ->
  (forall q l, match rstep q l with (_, out, ok) => only_end prompt cont out ok end) ->
  (forall q, only_end prompt cont (snd (rint q)) true) ->
  forall cmds (w : world rstate), sync rstate w ->
  exists w', session rstate rstep rint prompt cont w cmds = (fst (spec_session rstate rstep rint (rq w) cmds), w')
             /\ sync rstate w' /\ rq w' = snd (spec_session rstate rstep rint (rq w) cmds).
Proof. exact session_exact. Qed.
Print Assumptions C16_sessions.

(** the awaited form returns the same values (for every REPL, well-behaved or not) *)
Theorem C16_awaited_same :
  forall (rstate : Type) rstep rint prompt cont rest (w : world rstate) res l0 cuts,
  run_lines rstate rstep rint prompt cont true w res l0 rest cuts = run_lines rstate rstep rint prompt cont false w res l0 rest cuts.
Proof. exact awaited_same. Qed.
Print Assumptions C16_awaited_same.

(** the lines sent are the command: joined by newlines they give it back (commands whose only line separator is \n) *)
Theorem C16_lines_are_the_command : forall command, command <> [] -> nl_only command ->
  with_nl (cmdlines command) = command ++ [10%N].
Proof. exact cmdlines_sends_the_command. Qed.
Print Assumptions C16_lines_are_the_command.

(** the hypotheses are satisfiable with pexpect's own prompts: any REPL whose output never contains '[' *)
Definition pexpect_prompt : text := [91; 80; 69; 88; 80; 69; 67; 84; 95; 80; 82; 79; 77; 80; 84; 62]%N.
Definition pexpect_cont : text := [91; 80; 69; 88; 80; 69; 67; 84; 95; 80; 82; 79; 77; 80; 84; 43]%N.
Theorem C16_hypotheses_satisfiable : forall out ok, ~ In 91%N out -> only_end pexpect_prompt pexpect_cont out ok.
Proof.
  apply (only_end_first_char pexpect_prompt pexpect_cont 91%N (tl pexpect_prompt) (tl pexpect_cont)); try reflexivity.
  - cbn. intuition discriminate.
  - cbn. intuition discriminate.
  - discriminate.
Qed.
Print Assumptions C16_hypotheses_satisfiable.
