(** C05 Deadlines.  Property theorems only; proofs in Deadline/Proofs.v.  Virtual clock in integer ticks; the
    environment law [lawful eps over deadline now evs] says: a read handed the remaining time r returns (data or EOF)
    within max(r,0)+eps, raises TIMEOUT no earlier than after max(r,0) and never when there is no deadline; [over] is
    the time one loop iteration spends outside the read. *)
From Coq Require Import ZArith List Bool.
Import ListNotations.
From PV Require Import Deadline.Model Deadline.Proofs.
Local Open Scope Z_scope.

(** an expect call with timeout T finishes within T + eps + over whatever the child does (silence, an endless stream
    of non-matching output, EOF) ... *)
Theorem C05_deadline_upper_bound : forall eps over start T evs, 0 <= eps -> 0 <= over -> 0 <= T ->
  lawful eps over (Some (start + T)) start evs ->
  let '(out, fin) := expect_loop over start (Within T) evs in
  out <> Blocked -> fin <= start + T + eps + over.
Proof. exact deadline_upper_bound. Qed.
Print Assumptions C05_deadline_upper_bound.

(** ... and never reports TIMEOUT before T has elapsed *)
Theorem C05_no_early_timeout : forall eps over start T evs, 0 <= eps -> 0 <= over ->
  lawful eps over (Some (start + T)) start evs ->
  let '(out, fin) := expect_loop over start (Within T) evs in
  out = TimedOut -> start + T <= fin.
Proof. exact no_early_timeout. Qed.
Print Assumptions C05_no_early_timeout.

Theorem C05_none_never_times_out : forall eps over evs now, lawful eps over None now evs ->
  fst (loop over None now Forever evs) <> TimedOut.
Proof. exact none_never_times_out. Qed.
Print Assumptions C05_none_never_times_out.

(** timeout 0 still attempts one read (pending text is examined before the loop: C04_pending_match_wins) *)
Theorem C05_zero_reads_once : forall over now e r, 0 < dur_of e + over ->
  expect_loop over now (Within 0) (e :: r) =
  match e with
  | RHit d => (Matched, now + d + over) | RTimeout d => (TimedOut, now + d) | REof d => (Eof, now + d)
  | RMiss d => (TimedOut, now + d + over)
  end.
Proof. exact zero_reads_once. Qed.
Print Assumptions C05_zero_reads_once.

(** -1 is the instance default and None is "no deadline" on every entry point *)
Theorem C05_minus_one_is_default : forall e d, effective e d TDefault = d /\ effective e d TNone = Forever.
Proof. intros. split; reflexivity. Qed.
Print Assumptions C05_minus_one_is_default.

(** waitnoecho: False no earlier than one polling interval before the deadline, True only once the echo is off *)
Theorem C05_waitnoecho_bounds : forall nap d, 0 < nap -> forall fuel now rem off,
  rem = Within (d - now) \/ (exists p, rem = Within (d - p) /\ p <= now /\ now <= p + nap) ->
  let '(r, fin) := waitnoecho fuel nap (Some d) now rem off in
  (r = Some false -> d < fin + nap) /\ (r = Some true -> exists o, off = Some o /\ o <= fin).
Proof. exact waitnoecho_bounds. Qed.
Print Assumptions C05_waitnoecho_bounds.

(** a read that returns AFTER the deadline (the environment law broken: slow log file, descheduling) is not lost and not waited on
    again: a hit is reported as a hit; a miss is followed by TIMEOUT at the head of the next iteration, with no further read -
    whatever the transport holds next *)
Theorem C05_late_read : forall over d now rem dur r, expired rem = false ->
  loop over (Some d) now rem (RHit dur :: r) = (Matched, now + dur + over) /\
  (d < now + dur + over -> loop over (Some d) now rem (RMiss dur :: r) = (TimedOut, now + dur + over)).
Proof. exact (fun over d now rem dur r He => conj (late_hit_is_a_hit over d now rem dur r He) (late_miss_times_out over d now rem dur r He)). Qed.
Print Assumptions C05_late_read.

Example C05_lawful_example : lawful 1 1 (Some 10) 0 [RMiss 3; RMiss 2; RTimeout 4] /\
  expect_loop 1 0 (Within 10) [RMiss 3; RMiss 2; RTimeout 4] = (TimedOut, 11).
Proof. cbn. repeat split; try discriminate; auto with zarith. Qed.
