(** C03 No missed or late match: every chunking agrees with naive full re-search.
    Property theorems only; the proofs are in Expect/Refine.v. *)
From Coq Require Import ZArith NArith List Bool Arith.
Import ListNotations.
From PV Require Import Base.PySeq Base.Rx Expect.Model Expect.Spec Expect.Refine Expect.SpecFacts.

(** For every regex engine, every reachable state (the search buffer is a suffix of the pending text -
    however a previous call, with whatever window or patterns, left it), every pattern list, searcher
    kind, window (None or >= 1), timeout-0 flag and every list of transport events: the incremental
    Expecter and the naive procedure "after each read search all pending text (or its last W characters)"
    report the same outcome with the same before/after, consume the same number of events (the match is
    reported at the FIRST read after which the window contains an occurrence) and leave the same pending text. *)
Theorem C03_expecter_refines_naive :
  forall (rx : Type) (re_search : rx -> text -> nat -> option (nat * nat))
         (c : cfg rx) (t0 : bool) (s : st) (evs : list ev),
  wfW rx c -> Inv s ->
  agree rx c (expect_loop rx re_search c t0 s evs) (ncall rx re_search c t0 (pend s) evs).
Proof. exact expect_refines. Qed.
Print Assumptions C03_expecter_refines_naive.

(** ... also when W, the pattern list or the searcher change from call to call, and across assignments
    to the buffer attribute: whole histories agree step by step. *)
Theorem C03_histories_refine :
  forall (rx : Type) (re_search : rx -> text -> nat -> option (nat * nat))
         (ops : list (op rx)) (s : st) (evs : list ev),
  Forall (wf_op rx) ops -> Inv s ->
  Forall2 (fun o xy => agree_step rx o (fst xy) (snd xy)) ops
    (combine (history rx re_search ops s evs) (nhistory rx re_search ops (pend s) evs)) /\
  length (history rx re_search ops s evs) = length ops /\
  length (nhistory rx re_search ops (pend s) evs) = length ops.
Proof. exact history_refines. Qed.
Print Assumptions C03_histories_refine.

(** The incremental tail search of the string searcher finds exactly the occurrences of the full
    search, including those that straddle the boundary between old and fresh data. *)
Theorem C03_incremental_string_search :
  forall (rx : Type) (re_search : rx -> text -> nat -> option (nat * nat)) (c : cfg rx) (x B d : text),
  ckind c = KExact -> W c = None ->
  (forall s0, In (PStr s0) (pats c) -> forall k, PySeqFacts.occb s0 (x ++ B) k = false) ->
  (forall s0, In (PStr s0) (pats c) -> length s0 <= length B \/ x = []) ->
  shift3 (length x) (search rx re_search c (B ++ d) (length d)) = nsearch rx re_search c (x ++ B ++ d).
Proof. exact search_incremental. Qed.
Print Assumptions C03_incremental_string_search.

(** Which W is in force: the caller's own value when one is given - None meaning "search everything", whatever the
    spawn object's attribute says - and the attribute only when the caller gives none. *)
Theorem C03_window_in_force : forall (attr : option nat),
  (forall w, resolve_window (Some w) attr = w) /\ resolve_window None attr = attr.
Proof. exact resolve_window_spec. Qed.
Print Assumptions C03_window_in_force.

(** non-vacuity: a trimmed buffer left by a timed-out call with a shorter look-back is a reachable Inv state *)
Example C03_inv_example : Inv {| pend := [97; 98; 99; 100]%N; buf := [99; 100]%N |} /\
                          wfW rx {| ckind := KExact; pats := [PStr [98; 99]%N; PEof]; W := Some 3 |}.
Proof. split; [now exists [97; 98]%N | cbn; auto]. Qed.
