(** C19 Screen operations do what their documentation says and nothing else.  Property theorems only;
    proofs in Screen/Facts.v and Screen/Refine.v.  [astep] (Screen/Spec.v) is the documentation-level reference:
    a grid function plus cursor / saved cursor / scroll-region fields, every operation defined cell by cell. *)
From Coq Require Import ZArith NArith List Bool.
Import ListNotations.
From PV Require Import Screen.Model Screen.Facts Screen.Spec Screen.Refine.
Local Open Scope Z_scope.

(** Every operation, with any arguments (below range, edges, interior, above range, swapped corners), on any
    well-shaped screen: the model of the code changes exactly the cells and fields the reference changes. *)
Theorem C19_operation_refines_reference : forall s a o, wf s -> rep s a -> rep (sstep s o) (astep a o).
Proof. exact sstep_rep. Qed.
Print Assumptions C19_operation_refines_reference.

(** ... hence any sequence of operations yields the same screen as the reference grid, and the screen keeps its
    shape (rows x cols single characters, cursor / saved cursor / scroll region on the screen). *)
Theorem C19_sequences_refine_reference : forall ops s a, wf s -> rep s a ->
  rep (fold_left sstep ops s) (fold_left astep ops a) /\ wf (fold_left sstep ops s).
Proof. exact steps_rep. Qed.
Print Assumptions C19_sequences_refine_reference.

(** a fresh screen of any size >= 1x1 is well shaped and represents the blank reference *)
Theorem C19_initial_screen : forall r c, 1 <= r -> 1 <= c -> wf (init r c) /\ rep (init r c) (a_init r c).
Proof. intros r c Hr Hc. split; [now apply init_wf | now apply init_rep]. Qed.
Print Assumptions C19_initial_screen.

(** the read accessor get_abs (hence get) reads the same grid, with coordinates outside the screen taken to the nearest edge *)
Theorem C19_get_abs_reads_reference : forall s a r c, wf s -> rep s a ->
  get_abs s r c = ag a (Z.to_nat (clamp r (aR a) - 1)) (Z.to_nat (clamp c (aC a) - 1)).
Proof. exact get_abs_rep. Qed.
Print Assumptions C19_get_abs_reads_reference.

(** dump(), str() and pretty() render exactly the reference grid (rows x cols cells, row by row) *)
Theorem C19_dump_str_pretty_read_reference : forall s a, wf s -> rep s a ->
  dump s = concat (agrid a) /\ to_str s = join [10%N] (agrid a) /\
  pretty s = (let top := (43 :: repeat 45 (Z.to_nat (aC a)) ++ [43; 10])%N in
              top ++ join [10%N] (map (fun l => (124 :: l ++ [124])%N) (agrid a)) ++ [10%N] ++ top).
Proof. intros s a Hwf Hr. split; [now apply dump_rep | split; [now apply to_str_rep | now apply pretty_rep]]. Qed.
Print Assumptions C19_dump_str_pretty_read_reference.

(** get_region reads the reference grid over the rectangle after clamping and ordering its corners *)
Theorem C19_get_region_reads_reference : forall s a rs cs re ce, wf s -> rep s a ->
  get_region s rs cs re ce =
    (let '(rs', cs', re', ce') := norm_region s rs cs re ce in
     map (fun r => map (fun c => ag a (Z.to_nat (clamp r (aR a) - 1)) (Z.to_nat (clamp c (aC a) - 1))) (zrange cs' ce')) (zrange rs' re')).
Proof. exact get_region_rep. Qed.
Print Assumptions C19_get_region_reads_reference.

(** cell-level meaning of the two primitives everything is built from *)
Theorem C19_fill_region_cells : forall s rs cs re ce ch, wf s ->
  let s' := fill_region s rs cs re ce ch in
  wf s' /\ same_fields s' s /\
  forall i j, cell (w s') i j = if in_rect s rs cs re ce (Z.of_nat i + 1) (Z.of_nat j + 1) then ch else cell (w s) i j.
Proof. exact fill_region_spec. Qed.
Print Assumptions C19_fill_region_cells.

Theorem C19_scroll_up_cells : forall s, wf s -> same_fields (scroll_up s) s /\
  forall i j, cell (w (scroll_up s)) i j =
    if ((sr_start s <=? Z.of_nat i + 1) && (Z.of_nat i + 1 <? sr_end s))%bool then cell (w s) (S i) j else cell (w s) i j.
Proof. exact scroll_up_spec. Qed.
Print Assumptions C19_scroll_up_cells.

Theorem C19_scroll_down_cells : forall s, wf s -> same_fields (scroll_down s) s /\
  forall i j, cell (w (scroll_down s)) i j =
    if ((sr_start s <? Z.of_nat i + 1) && (Z.of_nat i + 1 <=? sr_end s))%bool then cell (w s) (i - 1) j else cell (w s) i j.
Proof. exact scroll_down_spec. Qed.
Print Assumptions C19_scroll_down_cells.

(** put_abs writes exactly one cell - the one at the coordinates taken to the nearest edge - and no field *)
Theorem C19_put_abs_cells : forall s r c ch, wf s ->
  wf (put_abs s r c ch) /\ same_fields (put_abs s r c ch) s /\
  forall i j, cell (w (put_abs s r c ch)) i j =
    if (Nat.eqb i (Z.to_nat (constrain r 1 (rows s) - 1)) && Nat.eqb j (Z.to_nat (constrain c 1 (cols s) - 1)))%bool
    then ch else cell (w s) i j.
Proof. exact put_abs_spec. Qed.
Print Assumptions C19_put_abs_cells.

(** cursor movements (home / back / forward / up / down, any arguments, any number of them) change the cursor and
    nothing else: grid, saved cursor, scroll region and size are as before *)
Theorem C19_cursor_moves_change_only_the_cursor : forall ops s, forallb is_move ops = true ->
  w (fold_left sstep ops s) = w s /\ sav_r (fold_left sstep ops s) = sav_r s /\ sav_c (fold_left sstep ops s) = sav_c s /\
  sr_start (fold_left sstep ops s) = sr_start s /\ sr_end (fold_left sstep ops s) = sr_end s /\
  rows (fold_left sstep ops s) = rows s /\ cols (fold_left sstep ops s) = cols s.
Proof. exact moves_frame. Qed.
Print Assumptions C19_cursor_moves_change_only_the_cursor.

(** save ; any cursor movements ; restore: the cursor is back where it was saved, grid and scroll region untouched *)
Theorem C19_save_moves_restore : forall s ops, wf s -> forallb is_move ops = true ->
  let s' := cursor_restore_attrs (fold_left sstep ops (cursor_save_attrs s)) in
  cur_r s' = cur_r s /\ cur_c s' = cur_c s /\ w s' = w s /\ sr_start s' = sr_start s /\ sr_end s' = sr_end s.
Proof. exact save_moves_restore. Qed.
Print Assumptions C19_save_moves_restore.

(** non-vacuity: a save at (2,3), movements off both edges, a restore *)
Example C19_save_moves_restore_somewhere :
  let s := fold_left sstep [OHome 2 3; OSave; OUp 9; OForward 99; OHome 0 0; ORestore] (init 3 4) in
  (cur_r s, cur_c s) = (2, 3).
Proof. vm_compute. reflexivity. Qed.

(** the reference leaves no freedom: every well-shaped screen has a reference reading, and two well-shaped screens with
    the same reading are the same screen - so two histories the reference cannot tell apart end in the very same screen *)
Theorem C19_reference_determines_screen : forall s1 s2 a, wf s1 -> wf s2 -> rep s1 a -> rep s2 a -> s1 = s2.
Proof. exact rep_injective. Qed.
Print Assumptions C19_reference_determines_screen.

Theorem C19_same_reference_same_screen : forall ops1 ops2 s, wf s ->
  aeq (fold_left astep ops1 (abs_of s)) (fold_left astep ops2 (abs_of s)) ->
  fold_left sstep ops1 s = fold_left sstep ops2 s.
Proof. exact same_reference_same_screen. Qed.
Print Assumptions C19_same_reference_same_screen.

(** non-vacuity: erase_down on the last row of a 2x3 screen keeps the cells left of the cursor *)
Example C19_erase_down_last_row :
  w (fold_left sstep [OFill 120%N; OHome 2 2; OEraseDown] (init 2 3)) = [[120; 120; 120]; [120; 32; 32]]%N.
Proof. vm_compute. reflexivity. Qed.
