From PV Require Import Expect.Model.
Theorem placeholder : True. Proof. exact I. Qed.
Print Assumptions placeholder.
