(** C01 Stream conservation.  Property theorems only; proofs in Expect/SpecFacts.v (on the naive
    reference) and Expect/Refine.v (transfer to the model of the code). *)
From Coq Require Import ZArith NArith List Bool Arith.
Import ListNotations.
From PV Require Import Base.PySeq Base.Rx Base.RxFacts Expect.Model Expect.Spec Expect.Refine Expect.SpecFacts Expect.Wrappers Expect.WrappersFacts.
From PV Require Transport.Model Transport.Proofs.
From PV Require Import Compose.Model Compose.Proofs.

(** For every history of expect-family calls (any searcher kind, patterns, window and timeout-0 flag per
    call) from any reachable state over any list of transport events: the text handed back so far - each
    call's before+after for a match, before at EOF - followed by what is still pending equals what was
    pending at the start plus everything read since.  [re_span]: a regex match does not end before it starts. *)
Theorem C01_history_conserves :
  forall (rx : Type) (re_search : rx -> text -> nat -> option (nat * nat)),
  (forall r t p a b, re_search r t p = Some (a, b) -> a <= b) ->
  forall (cs : list (cfg rx * bool)) (s : st) (evs : list ev),
  Forall (fun ct => wfW rx (fst ct)) cs -> Inv s ->
  match run_calls rx re_search cs s evs with (rs, s', evs') =>
    exists used, evs = used ++ evs' /\
                 flat_map handed rs ++ pend s' = pend s ++ data_of used /\ Inv s'
  end.
Proof. exact history_conserves. Qed.
Print Assumptions C01_history_conserves.

(** One call in detail: a TIMEOUT consumes nothing (before = all pending text, which stays pending), at EOF
    before is all pending text and the pending text is cleared, a transport error leaves everything pending. *)
Theorem C01_call_conserves :
  forall (rx : Type) (re_search : rx -> text -> nat -> option (nat * nat)),
  (forall r t p a b, re_search r t p = Some (a, b) -> a <= b) ->
  forall (c : cfg rx) (t0 : bool) (s : st) (evs : list ev), wfW rx c -> Inv s ->
  match expect_loop rx re_search c t0 s evs with (r, s', evs') =>
    exists used, evs = used ++ evs' /\ handed r ++ pend s' = pend s ++ data_of used /\ Inv s' /\
    (forall i b, r = AtTimeout i b -> b = pend s' /\ pend s' = pend s ++ data_of used) /\
    (forall i b, r = AtEof i b -> b = pend s ++ data_of used /\ pend s' = [] /\ buf s' = []) /\
    (forall b, r = Errored b -> b = pend s' /\ pend s' = pend s ++ data_of used)
  end.
Proof. exact call_conserves. Qed.
Print Assumptions C01_call_conserves.

(** Assigning to the buffer attribute replaces the pending text (and re-establishes the invariant). *)
Theorem C01_set_buffer_replaces : forall v, pend (set_buffer v) = v /\ buf (set_buffer v) = v /\ Inv (set_buffer v).
Proof. exact set_buffer_replaces. Qed.
Print Assumptions C01_set_buffer_replaces.

(** The executable regex engine used in the correspondence satisfies the premise. *)
Theorem C01_engine_span : forall r t p a b, rx_search r t p = Some (a, b) -> a <= b.
Proof. exact rx_search_span. Qed.
Print Assumptions C01_engine_span.

(** The file-like wrappers.  For every regex engine in which the compiled pattern '\r\n' matches only the text "\r\n",
    every search window (None or >= 1), every reachable state and every list of transport events:
    what readline() RETURNS followed by the pending text is what was pending plus what it read; an exception consumes
    nothing; '' is returned only at EOF with nothing pending. *)
Theorem C01_readline_returns_the_stream :
  forall (rx : Type) (re_search : rx -> text -> nat -> option (nat * nat)) (crlf_rx : rx) (Wd : option nat),
  (forall r t p a b, re_search r t p = Some (a, b) -> a <= b) ->
  match Wd with Some w => 1 <= w | None => True end ->
  (forall w a b, re_search crlf_rx w 0 = Some (a, b) -> firstn (b - a) (skipn a w) = crlf) ->
  forall s evs, Inv s ->
  match readline rx re_search crlf_rx Wd s evs with (r, s', e') =>
    exists used, evs = used ++ e' /\ Inv s' /\
    match r with
    | WText l => l ++ pend s' = pend s ++ data_of used /\ (l = [] -> pend s' = [] /\ pend s ++ data_of used = [])
    | WRaise _ => pend s' = pend s ++ data_of used
    end
  end.
Proof. exact readline_conserves. Qed.
Print Assumptions C01_readline_returns_the_stream.

(** readlines() / iteration, any number of lines: the lines returned, concatenated, followed by the pending text are the
    text received; when the loop ends normally (EOF) nothing is pending and the lines ARE the child's output; no line is empty *)
Theorem C01_readlines_return_the_stream :
  forall (rx : Type) (re_search : rx -> text -> nat -> option (nat * nat)) (crlf_rx : rx) (Wd : option nat),
  (forall r t p a b, re_search r t p = Some (a, b) -> a <= b) ->
  match Wd with Some w => 1 <= w | None => True end ->
  (forall w a b, re_search crlf_rx w 0 = Some (a, b) -> firstn (b - a) (skipn a w) = crlf) ->
  forall fuel s evs acc, Inv s ->
  match readlines rx re_search crlf_rx Wd fuel s evs acc with (ls, fin, s', e') =>
    exists used, evs = used ++ e' /\ Inv s' /\
    concat ls ++ pend s' = concat acc ++ pend s ++ data_of used /\
    (fin = LEnd -> pend s' = [] /\ concat ls = concat acc ++ pend s ++ data_of used) /\
    (forall l, In l ls -> In l acc \/ l <> [])
  end.
Proof. exact readlines_conserves. Qed.
Print Assumptions C01_readlines_return_the_stream.

(** read() without a size returns everything up to EOF and leaves nothing pending *)
Theorem C01_read_returns_the_stream :
  forall (rx : Type) (re_search : rx -> text -> nat -> option (nat * nat)) (Wd : option nat),
  (forall r t p a b, re_search r t p = Some (a, b) -> a <= b) ->
  match Wd with Some w => 1 <= w | None => True end ->
  forall s evs, Inv s ->
  match read_all rx re_search Wd s evs with (r, s', e') =>
    exists used, evs = used ++ e' /\ Inv s' /\
    match r with
    | WText t => t = pend s ++ data_of used /\ pend s' = []
    | WRaise _ => pend s' = pend s ++ data_of used
    end
  end.
Proof. exact read_all_conserves. Qed.
Print Assumptions C01_read_returns_the_stream.

(** read(n), no search window: the NEXT n characters are returned (at EOF: whatever was left, and nothing stays pending),
    nothing in front of them is skipped, what follows stays pending; read(0) reads nothing.  The premise about '.{n}' is a
    law of the regex engine (DOTALL: any n characters), proved for the executable engine below. *)
Theorem C01_read_n_returns_the_stream :
  forall (rx : Type) (re_search : rx -> text -> nat -> option (nat * nat)) (dot_n : nat -> rx) (Wd : option nat),
  (forall r t p a b, re_search r t p = Some (a, b) -> a <= b) ->
  match Wd with Some w => 1 <= w | None => True end ->
  (forall n w a b, re_search (dot_n n) w 0 = Some (a, b) -> a = 0 /\ b = n /\ n <= length w) ->
  forall n s evs, Wd = None -> Inv s ->
  match read_n rx re_search dot_n Wd n s evs with (r, s', e') =>
    exists used, evs = used ++ e' /\ Inv s' /\
    match r with
    | WText t => t ++ pend s' = pend s ++ data_of used /\ (length t = n \/ pend s' = [])
    | WRaise _ => pend s' = pend s ++ data_of used
    end
  end.
Proof. exact read_n_conserves. Qed.
Print Assumptions C01_read_n_returns_the_stream.
Theorem C01_engine_dot : forall n t a b, rx_search (Rep n Any) t 0 = Some (a, b) -> a = 0 /\ b = n /\ n <= length t.
Proof. exact rx_search_dot. Qed.
Print Assumptions C01_engine_dot.

(** the executable engine satisfies the premise about '\r\n' (indeed about every literal) *)
Theorem C01_engine_literal : forall s t pos a b, rx_search (Lit s) t pos = Some (a, b) ->
  b = a + length s /\ firstn (b - a) (skipn a t) = s.
Proof. exact rx_search_lit. Qed.
Print Assumptions C01_engine_literal.

(** END TO END (Compose/): the Expecter driven by the read_nonblocking of a transport over the kernel-endpoint model, reads made
    one at a time as long as the call goes on.  For every transport whose read respects C06 (proved for the pty, fd and socket
    reads: premises discharged below), every schedule of the peer, every history of calls: what the calls hand back, then what
    is pending in the object, then what the kernel still holds, is what was pending, what the kernel held, and what the peer
    wrote meanwhile ([w]) - nothing lost, duplicated or reordered between the kernel and the caller. *)
Theorem C01_end_to_end_histories :
  forall (rx : Type) (re_search : rx -> text -> nat -> option (nat * nat))
         (rd : T.kern -> T.sched -> nat -> T.res * T.kern * T.sched) (maxread : nat),
  (forall r t p a b, re_search r t p = Some (a, b) -> a <= b) ->
  (forall size k s, TP.ok_from size k [] (rd k s size)) ->
  forall fuel cs s k sc rs s' k' sc', Forall (wf_call rx) cs -> Inv s ->
  calls_over rx re_search rd maxread fuel cs s k sc = Some (rs, s', k', sc') ->
  Inv s' /\ exists w, flat_map handed rs ++ pend s' ++ T.kbuf k' = pend s ++ T.kbuf k ++ w.
Proof. exact calls_over_conserve. Qed.
Print Assumptions C01_end_to_end_histories.

(** the lazily driven call IS the list-driven Expecter (to which all of C01-C04 apply) on exactly the reads that were made *)
Theorem C01_end_to_end_is_the_expecter :
  forall (rx : Type) (re_search : rx -> text -> nat -> option (nat * nat))
         (rd : T.kern -> T.sched -> nat -> T.res * T.kern * T.sched) (maxread : nat) c t0 fuel s k sc r s' k' sc',
  expect_over rx re_search rd maxread fuel c t0 s k sc = Done r s' k' sc' ->
  exists n rs, TP.reads rd (repeat maxread n) k sc = (rs, k', sc') /\ expect_loop rx re_search c t0 s (map ev_of rs) = (r, s', []).
Proof. exact expect_over_is_expect_loop. Qed.
Print Assumptions C01_end_to_end_is_the_expecter.

Theorem C01_transports_qualify : forall t0,
  (forall size k s, TP.ok_from size k [] (T.pty_read k s size t0)) /\
  (forall size k s, TP.ok_from size k [] (T.fd_read k s size)) /\
  (forall size k s, TP.ok_from size k [] (T.sock_read k s size)).
Proof. exact (fun t0 => conj (pty_rd_ok t0) (conj fd_rd_ok sock_rd_ok)). Qed.
Print Assumptions C01_transports_qualify.

(** non-vacuity: a zero-width, end-anchored pattern on pending text "abc" keeps the text in before *)
Example C01_end_anchor :
  fst (fst (expect_loop rx rx_search {| ckind := KRe; pats := [PRe Eol]; W := None |} false
              {| pend := [97; 98; 99]%N; buf := [97; 98; 99]%N |} []))
  = Matched 0 [97; 98; 99]%N [] (3, 3).
Proof. vm_compute. reflexivity. Qed.
