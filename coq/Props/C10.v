(** C10 Lifecycle safety.  Property theorems only; proofs in Life/Proofs.v (same model and invariant as C09). *)
From Coq Require Import ZArith List Bool.
Import ListNotations.
From PV Require Import Life.Model Life.Proofs.
Local Open Scope Z_scope.

(** isalive() never lies: True only for a running child, False only for a dead child that has now been reaped (and
    the object is then marked terminated); it never fails in a reachable state *)
Theorem C10_isalive_truth : forall w, Inv w ->
  match isalive w with
  | (RBool true, w') => alive (ch w') = true /\ s_terminated (sp w') = s_terminated (sp w)
  | (RBool false, w') => alive (ch w') = false /\ reaped (ch w') = true /\ s_terminated (sp w') = true
  | _ => False
  end.
Proof. exact isalive_truth. Qed.
Print Assumptions C10_isalive_truth.

(** no operation sequence ever signals a pid whose process is not alive, and none fails with "no child process" *)
Theorem C10_kills_only_alive : forall ops w, Inv w -> Forall wf_op ops -> forallb no_close ops = true ->
  Forall (fun k => snd k = true) (kills (fold_left (fun w o => snd (lstep w o)) ops w)).
Proof. exact kills_only_alive. Qed.
Print Assumptions C10_kills_only_alive.

Theorem C10_no_echild : forall w o, Inv w -> wf_op o -> no_close o = true ->
  Inv (snd (lstep w o)) /\ fst (lstep w o) <> RaisePty 1.
Proof. exact lstep_inv. Qed.
Print Assumptions C10_no_echild.

(** terminate(force=True) leaves the child dead and reaped whether it ignores SIGHUP/SIGINT, is stopped, or has exited *)
Theorem C10_terminate_force_kills : forall w, Inv w ->
  match terminate w true with
  | (RBool true, w') => Inv w' /\ alive (ch w') = false /\ reaped (ch w') = true /\ t_terminated (pt w') = true
  | _ => False
  end.
Proof. exact terminate_force_kills. Qed.
Print Assumptions C10_terminate_force_kills.

Example C10_stubborn_stopped_child :
  fst (terminate (world0 true true true) true) = RBool true.
Proof. vm_compute. reflexivity. Qed.
