(** C10 Lifecycle safety.  Property theorems only; proofs in Life/Proofs.v (same model and invariant as C09). *)
From Coq Require Import ZArith List Bool.
Import ListNotations.
From PV Require Import Life.Model Life.Proofs Life.FdModel.
Local Open Scope Z_scope.

(** isalive() never lies: True only for a running child, False only for a dead child that has now been reaped (and
    the object is then marked terminated); it never fails in a reachable state *)
Theorem C10_isalive_truth : forall w, Inv w ->
  match isalive w with
  | (RBool true, w') => alive (ch w') = true /\ s_terminated (sp w') = s_terminated (sp w)
  | (RBool false, w') => alive (ch w') = false /\ reaped (ch w') = true /\ s_terminated (sp w') = true
  | _ => False
  end.
Proof. exact isalive_truth. Qed.
Print Assumptions C10_isalive_truth.

(** no operation sequence ever signals a pid whose process is not alive, and none fails with "no child process" *)
Theorem C10_kills_only_alive : forall ops w, Inv w -> Forall wf_op ops ->
  Forall (fun k => snd k = true) (kills (fold_left (fun w o => snd (lstep w o)) ops w)).
Proof. exact kills_only_alive_all. Qed.
Print Assumptions C10_kills_only_alive.

Theorem C10_no_echild : forall w o, Inv w -> wf_op o ->
  Inv (snd (lstep w o)) /\ fst (lstep w o) <> RaisePty 1.
Proof. exact lstep_inv_all. Qed.
Print Assumptions C10_no_echild.

(** terminate(force=True) leaves the child dead and reaped whether it ignores SIGHUP/SIGINT, is stopped, or has exited *)
Theorem C10_terminate_force_kills : forall w, Inv w ->
  match terminate w true with
  | (RBool true, w') => Inv w' /\ alive (ch w') = false /\ reaped (ch w') = true /\ t_terminated (pt w') = true
  | _ => False
  end.
Proof. exact terminate_force_kills. Qed.
Print Assumptions C10_terminate_force_kills.

(** close(force=True) leaves the child dead and reaped, the object terminated and closed with an invalid descriptor number,
    the descriptor released exactly once - whatever the child ignores, stopped or not, already exited or not *)
Theorem C10_close_force : forall w, Inv w ->
  match close w true with
  | (RNone, w') => closed_state w'
  | _ => False
  end.
Proof. exact close_force. Qed.
Print Assumptions C10_close_force.

(** close(force=False) succeeds in the same way or raises - and then the descriptor has been released and its number
    invalidated all the same (no stale handle) *)
Theorem C10_close_polite : forall w, Inv w ->
  match close w false with
  | (RNone, w') => closed_state w'
  | (RaisePty n, w') => n = 2%nat /\ Inv w' /\ s_fd_valid (sp w') = false /\ t_fd_open (pt w') = false
  | _ => False
  end.
Proof. exact close_polite. Qed.
Print Assumptions C10_close_polite.

(** close() is idempotent: on a closed object it signals nobody, releases nothing, changes no attribute *)
Theorem C10_close_idempotent : forall w force, closed_state w ->
  match close w force with
  | (RNone, w') => closed_state w' /\ kills w' = kills w /\ ch w' = ch w /\ fd_closes w' = fd_closes w /\
                   s_status (sp w') = s_status (sp w) /\ s_exit (sp w') = s_exit (sp w) /\ s_sig (sp w') = s_sig (sp w)
  | _ => False
  end.
Proof. exact close_idempotent. Qed.
Print Assumptions C10_close_idempotent.

(** over every operation sequence the descriptor is released at most once *)
Theorem C10_fd_released_at_most_once : forall ops w, Inv w -> Forall wf_op ops ->
  (fd_closes (fold_left (fun w o => snd (lstep w o)) ops w) <= 1)%nat.
Proof. exact fd_released_at_most_once. Qed.
Print Assumptions C10_fd_released_at_most_once.

(** after close() - whether it succeeded or raised - every I/O call on the object fails with an error and changes nothing,
    and the descriptor number never becomes valid again whatever is called afterwards: nothing can touch whoever owns the
    old descriptor number now *)
Theorem C10_io_after_close_fails : forall w force, Inv w ->
  let w' := snd (close w force) in fst (io w') = RaisePty 3 /\ snd (io w') = w'.
Proof. exact io_after_close. Qed.
Print Assumptions C10_io_after_close_fails.
Theorem C10_fd_stays_invalid : forall w o, Inv w -> wf_op o -> s_fd_valid (sp w) = false -> s_fd_valid (sp (snd (lstep w o))) = false.
Proof. exact fd_stays_invalid. Qed.
Print Assumptions C10_fd_stays_invalid.

(** dropping the object (the last reference goes away; PtyProcess.__del__ runs its close(), errors swallowed), in any reachable
    state: the child is dead and reaped even if it ignores or is stopped against the polite signals, the descriptor has been
    released - once in total -, and on an object already closed nothing happens at all *)
Theorem C10_drop_releases : forall w, Inv w ->
  let w' := snd (drop w) in
  Inv w' /\ dead w' /\ t_closed (pt w') = true /\ t_fd_open (pt w') = false /\ fd_closes w' = 1%nat /\ sp w' = sp w /\
  (t_closed (pt w) = true -> w' = w).
Proof. exact drop_spec. Qed.
Print Assumptions C10_drop_releases.

(** fdspawn / SocketSpawn (descriptor-based transports): over every sequence of close / isalive / send calls, with the
    descriptor possibly closed by somebody else in between, the object releases its descriptor at most once; a successful
    close is final: closing again does nothing, the object reports not alive and sending fails *)
Theorem C10_fd_released_once : forall is_socket ops w, FInv w -> (f_releases (frun is_socket ops w) <= 1)%nat.
Proof. exact fd_released_once. Qed.
Print Assumptions C10_fd_released_once.
Theorem C10_fd_closed_is_final : forall is_socket w, FInv w -> f_closed w = true ->
  fstep is_socket w FClose = (FOk, w) /\ fst (fstep is_socket w FIsalive) = FBool false /\ fstep is_socket w FSend = (FErr, w).
Proof. exact fd_closed_is_final. Qed.
Print Assumptions C10_fd_closed_is_final.
Theorem C10_fd_close_closes : forall is_socket w, FInv w -> f_valid w = true -> os_open w = true ->
  let '(r, w') := fstep is_socket w FClose in r = FOk /\ f_closed w' = true /\ f_valid w' = false /\ os_open w' = false.
Proof. exact fd_close_closes. Qed.
Print Assumptions C10_fd_close_closes.
Theorem C10_fd_fresh : FInv fd0.
Proof. exact fd0_inv. Qed.
Print Assumptions C10_fd_fresh.

Example C10_stubborn_stopped_child :
  fst (terminate (world0 true true true) true) = RBool true.
Proof. vm_compute. reflexivity. Qed.
