(** C02 A reported match is genuine, leftmost, and lowest-index on ties.  Property theorems only. *)
From Coq Require Import ZArith NArith List Bool Arith.
Import ListNotations.
From PV Require Import Base.PySeq Base.PySeqFacts Base.Rx Base.RxFacts Expect.Model Expect.Spec Expect.Refine Expect.SpecFacts.

(** Whenever a call returns index i for a text pattern (from any reachable state, any events): with P the
    pending text at the read that matched and w its searchable part (last W characters), pattern i has its
    leftmost candidate at span (st, en) of w; after = w[st:en]; before = P up to that position;
    before ++ after ++ new pending = P; the match object's span is (st, en); no listed pattern has a
    candidate starting earlier and among those starting at st the first listed wins. *)
Theorem C02_match_is_genuine_leftmost :
  forall (rx : Type) (re_search : rx -> text -> nat -> option (nat * nat)),
  (forall r t p a b, re_search r t p = Some (a, b) -> a <= b) ->
  forall (c : cfg rx) (t0 : bool) (s : st) (evs : list ev), wfW rx c -> Inv s ->
  forall i b a sp s' evs', expect_loop rx re_search c t0 s evs = (Matched i b a sp, s', evs') ->
  exists used st en, evs = used ++ evs' /\
    let P := pend s ++ data_of used in
    let w := lastW (W c) P in
    (exists e, nth_error (pats c) i = Some e /\ occ_full rx re_search c w e = Some (st, en)) /\
    a = firstn (en - st) (skipn st w) /\ b = firstn (length P - length w + st) P /\
    b ++ a ++ pend s' = P /\
    (ckind c = KRe \/ W c <> None -> sp = (st, en)) /\
    (forall j e a' b', nth_error (pats c) j = Some e -> occ_full rx re_search c w e = Some (a', b') ->
                       st <= a' /\ (a' = st -> i <= j)).
Proof. exact match_is_genuine_leftmost. Qed.
Print Assumptions C02_match_is_genuine_leftmost.

(** For the string searcher a candidate IS the leftmost occurrence of the literal: after is the literal
    itself and the literal occurs nowhere earlier in the searched text ... *)
Theorem C02_exact_candidate :
  forall (rx : Type) (re_search : rx -> text -> nat -> option (nat * nat)) (c : cfg rx) w s0 a b,
  ckind c = KExact -> occ_full rx re_search c w (PStr s0) = Some (a, b) ->
  b = a + length s0 /\ occb s0 w a = true /\ (forall k, k < a -> occb s0 w k = false) /\
  firstn (b - a) (skipn a w) = s0.
Proof. exact occ_full_exact. Qed.
Print Assumptions C02_exact_candidate.

(** ... and a literal without candidate does not occur at all. *)
Theorem C02_exact_no_candidate :
  forall (rx : Type) (re_search : rx -> text -> nat -> option (nat * nat)) (c : cfg rx) w s0,
  ckind c = KExact -> occ_full rx re_search c w (PStr s0) = None -> forall k, occb s0 w k = false.
Proof. exact occ_full_exact_none. Qed.
Print Assumptions C02_exact_no_candidate.

(** For the regex searcher a candidate is what the engine's search from position 0 returns; for the engine
    used to execute the model this is the leftmost position at which the pattern matches (law R, assumed of CPython's re). *)
Theorem C02_engine_leftmost : forall r t pos a b, rx_search r t pos = Some (a, b) ->
  pos <= a /\ a <= b /\ match_at t r a = Some b /\ forall k, pos <= k -> k < a -> match_at t r k = None.
Proof. exact rx_search_spec. Qed.
Print Assumptions C02_engine_leftmost.

(** EOF / TIMEOUT entries keep their positions in the list: the index reported for them is a position of
    that marker in the list as given (the last one if it is listed twice). *)
Theorem C02_marker_positions :
  forall (rx : Type) (p : entry rx -> bool) (l : list (entry rx)),
  match last_index p l with
  | Some i => (exists e, nth_error l i = Some e /\ p e = true) /\
              forall j e, nth_error l j = Some e -> p e = true -> j <= i
  | None => forall e, In e l -> p e = false
  end.
Proof. exact last_index_spec. Qed.
Print Assumptions C02_marker_positions.

(** non-vacuity: 'foo' listed second still wins over 'foobar' listed third and 'bar' listed first on "foobar" *)
Example C02_doc_example :
  fst (fst (expect_loop rx rx_search
              {| ckind := KExact; pats := [PStr [98;97;114]%N; PStr [102;111;111]%N; PStr [102;111;111;98;97;114]%N]; W := None |}
              false {| pend := []; buf := [] |} [Data [102;111;111;98;97;114]%N]))
  = Matched 1 [] [102;111;111]%N (0, 3).
Proof. vm_compute. reflexivity. Qed.
