(** C17 pxssh login: secrets only when asked, success only at a prompt, else raises.  Property theorems only; proofs
    (symbolic exploration of the model's complete decision tree) in Login/Proofs.v.  [run_login o script] is the
    chronological transcript and the outcome of login() when its environment answers from [script] (any list of
    expect outcomes and texts read back); [Stuck] = the script ran out, i.e. not a finished dialogue. *)
From Coq Require Import ZArith NArith List Bool Arith.
Import ListNotations.
From PV Require Import Login.Model Login.Proofs.
From PV Require Import Base.PySeq Base.Rx Expect.Model Expect.Refine Expect.SpecFacts Login.Prompt.

(** For EVERY dialogue and EVERY option setting: the password is sent only as the direct answer to a
    password/passphrase prompt and at most once; 'yes' only as the direct answer to the host-key question; the
    dialogue consists of at most 26 actions (finitely many expects, each with its own finite timeout); an
    ExceptionPxssh is raised only after closing the connection. *)
Theorem C17_secrets_only_when_asked : forall o script,
  let '(out, tr) := run_login o script in
  secrets_ok None tr = true /\ length (filter is_pw tr) <= 1 /\ length (filter is_yes tr) <= 1 /\ length tr <= 26 /\
  (forall w, out = Pxssh w -> In Close tr).
Proof. exact login_secrets_ok. Qed.
Print Assumptions C17_secrets_only_when_asked.

(** When at least one of auto_prompt_reset / sync_original_prompt is on: True is returned only if a shell prompt was
    evidenced (original prompt matched, or the re-sync read back a non-empty prompt-like text, or the unique prompt was seen) and - with
    auto_prompt_reset - only if the unique prompt was set; every other dialogue ends in ExceptionPxssh / EOF / TIMEOUT. *)
Theorem C17_success_only_at_a_prompt : forall o script, (auto_prompt_reset o || sync_original o = true) ->
  dialogue_ok o (run_login o script) = true.
Proof. exact login_dialogue_ok. Qed.
Print Assumptions C17_success_only_at_a_prompt.

(** With both switched off the full statement is FALSE of the code: a dialogue that only timed out returns True
    (the documented "hope for the best"; known finding K2). *)
Theorem C17_silent_success_refuted :
  run_login {| auto_prompt_reset := false; sync_original := false |} [AI 5] = (RetTrue, [Spawn; Ask QInit (AI 5)]).
Proof. exact silent_success. Qed.
Print Assumptions C17_silent_success_refuted.

(** prompt() delimits each command's output exactly.  The session from here on is o ++ p ++ rest: the output of the command, the
    prompt text, whatever follows (type-ahead: echoes, outputs and prompts of further commands).  Under the UNIQUENESS of the
    prompt (a hypothesis about the remote side: in every prefix of the session in which PROMPT occurs at all, its leftmost
    occurrence is p at the end of o) - for every regex engine, every way the session is cut into reads, whatever is already
    pending or arrives during the call, whatever the timeout: if prompt() reports a prompt (True), before is exactly o, after
    is exactly p, and what is pending afterwards is what had arrived of rest; if it reports False, nothing was consumed. *)
Theorem C17_prompt_delimits :
  forall (rx : Type) (re_search : rx -> text -> nat -> option (nat * nat)) (P : rx),
  (forall r t p a b, re_search r t p = Some (a, b) -> a <= b) ->
  forall o p rest t0 s evs, Inv s ->
  (forall t z a b, t ++ z = o ++ p ++ rest -> re_search P t 0 = Some (a, b) ->
                   a = length o /\ b = length o + length p /\ b <= length t) ->
  (exists z, (pend s ++ data_of evs) ++ z = o ++ p ++ rest) ->
  match prompt rx re_search P t0 s evs with
  | (PTrue, r, s', e') => exists sp used, evs = used ++ e' /\ r = Matched 0 o p sp /\
                          pend s' = skipn (length o + length p) (pend s ++ data_of used)
  | (PFalse, r, s', e') => exists used, evs = used ++ e' /\ pend s' = pend s ++ data_of used /\ r = AtTimeout (Some 1) (pend s')
  | (PRaises r, _, s', e') => forall i b a sp, r <> Matched i b a sp
  end.
Proof. exact prompt_delimits. Qed.
Print Assumptions C17_prompt_delimits.

(** non-vacuity, with the executable engine and PROMPT = \[PEXPECT\][\$\#] followed by a blank: two commands typed ahead, everything in one read *)
Example C17_prompt_type_ahead :
  let P := Seq (Lit [91; 80; 69; 88; 80; 69; 67; 84; 93]%N) (Seq (Cls false [36; 35]%N) (Chr 32%N)) in
  let session := [111; 49; 10; 91; 80; 69; 88; 80; 69; 67; 84; 93; 36; 32; 111; 50; 10; 91; 80; 69; 88; 80; 69; 67; 84; 93; 35; 32]%N in
  match prompt rx rx_search P false {| pend := []; buf := [] |} [Data session] with
  | (PTrue, Matched 0 b a _, s', _) =>
      b = [111; 49; 10]%N /\ a = [91; 80; 69; 88; 80; 69; 67; 84; 93; 36; 32]%N /\
      match prompt rx rx_search P false s' [] with
      | (PTrue, Matched 0 b2 a2 _, _, _) => b2 = [111; 50; 10]%N /\ a2 = [91; 80; 69; 88; 80; 69; 67; 84; 93; 35; 32]%N
      | _ => False
      end
  | _ => False
  end.
Proof. vm_compute. repeat split. Qed.

(** non-vacuity: a full successful dialogue (host key, password, terminal type, prompt, re-sync, unique prompt via csh) *)
Example C17_full_dialogue :
  fst (run_login {| auto_prompt_reset := true; sync_original := true |}
         [AI 0; AI 2; AI 4; AI 1; AT []; AT [36; 32]%N; AT [36; 32]%N; AT [36; 32]%N; AI 0; AI 1]) = RetTrue.
Proof. vm_compute. reflexivity. Qed.
