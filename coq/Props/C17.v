(** C17 pxssh login: secrets only when asked, success only at a prompt, else raises.  Property theorems only; proofs
    (symbolic exploration of the model's complete decision tree) in Login/Proofs.v.  [run_login o script] is the
    chronological transcript and the outcome of login() when its environment answers from [script] (any list of
    expect outcomes and texts read back); [Stuck] = the script ran out, i.e. not a finished dialogue. *)
From Coq Require Import ZArith NArith List Bool Arith.
Import ListNotations.
From PV Require Import Login.Model Login.Proofs.

(** For EVERY dialogue and EVERY option setting: the password is sent only as the direct answer to a
    password/passphrase prompt and at most once; 'yes' only as the direct answer to the host-key question; the
    dialogue consists of at most 26 actions (finitely many expects, each with its own finite timeout); an
    ExceptionPxssh is raised only after closing the connection. *)
Theorem C17_secrets_only_when_asked : forall o script,
  let '(out, tr) := run_login o script in
  secrets_ok None tr = true /\ length (filter is_pw tr) <= 1 /\ length (filter is_yes tr) <= 1 /\ length tr <= 26 /\
  (forall w, out = Pxssh w -> In Close tr).
Proof. exact login_secrets_ok. Qed.
Print Assumptions C17_secrets_only_when_asked.

(** When at least one of auto_prompt_reset / sync_original_prompt is on: True is returned only if a shell prompt was
    evidenced (original prompt matched, or the re-sync read back a non-empty prompt-like text, or the unique prompt was seen) and - with
    auto_prompt_reset - only if the unique prompt was set; every other dialogue ends in ExceptionPxssh / EOF / TIMEOUT. *)
Theorem C17_success_only_at_a_prompt : forall o script, (auto_prompt_reset o || sync_original o = true) ->
  dialogue_ok o (run_login o script) = true.
Proof. exact login_dialogue_ok. Qed.
Print Assumptions C17_success_only_at_a_prompt.

(** With both switched off the full statement is FALSE of the code: a dialogue that only timed out returns True
    (the documented "hope for the best"; known finding K2). *)
Theorem C17_silent_success_refuted :
  run_login {| auto_prompt_reset := false; sync_original := false |} [AI 5] = (RetTrue, [Spawn; Ask QInit (AI 5)]).
Proof. exact silent_success. Qed.
Print Assumptions C17_silent_success_refuted.

(** non-vacuity: a full successful dialogue (host key, password, terminal type, prompt, re-sync, unique prompt via csh) *)
Example C17_full_dialogue :
  fst (run_login {| auto_prompt_reset := true; sync_original := true |}
         [AI 0; AI 2; AI 4; AI 1; AT []; AT [36; 32]%N; AT [36; 32]%N; AT [36; 32]%N; AI 0; AI 1]) = RetTrue.
Proof. vm_compute. reflexivity. Qed.
