(** C13 Launch fidelity - property theorems only.  [split] is the definition regenerated from
    pexpect/utils.py on every run (Gen/SplitCmd.v). *)
From Coq Require Import ZArith NArith List Bool.
Import ListNotations.
From PV Require Import Base.Chars Gen.SplitCmd Split.Spec Split.Proofs Split.Which Split.WhichProofs Launch.Model Launch.Proofs.

(** Quoting any list of non-empty arguments (each in any of the three styles that can express it),
    joining them with non-empty whitespace, with any leading and trailing whitespace, splits
    back into exactly that argv. *)
Theorem C13_split_roundtrip : forall lead items,
  all_space lead = true -> wf items -> split (lead ++ body items) = argv items.
Proof. exact split_roundtrip. Qed.
Print Assumptions C13_split_roundtrip.

(** An unquoted word of ordinary characters is delivered unchanged (whitespace separates, nothing else does). *)
Theorem C13_plain_word : forall al a0 z a, outside z -> a <> [] -> forallb plain a = true ->
  run (mk al a0 z) a = mk al (a0 ++ a) 0%Z.
Proof. exact run_plain. Qed.
Print Assumptions C13_plain_word.

(** Executable lookup: an explicit executable path is returned as is ... *)
Theorem C13_which_explicit : forall is_exec defpath f env osenv,
  has_slash f = true -> is_exec f = true -> which is_exec defpath f env osenv = Some f.
Proof. exact which_explicit. Qed.
Print Assumptions C13_which_explicit.

(** ... otherwise the result is the FIRST executable candidate on the effective PATH ... *)
Theorem C13_which_first_on_path : forall is_exec defpath f env osenv r,
  has_slash f && is_exec f = false -> which is_exec defpath f env osenv = Some r ->
  exists pre post, candidates defpath f env osenv = pre ++ r :: post /\ is_exec r = true /\
                   forall x, In x pre -> is_exec x = false.
Proof. exact which_first_on_path. Qed.
Print Assumptions C13_which_first_on_path.

(** ... [None] only when no candidate is executable ... *)
Theorem C13_which_none : forall is_exec defpath f env osenv,
  which is_exec defpath f env osenv = None ->
  forall x, In x (candidates defpath f env osenv) -> is_exec x = false.
Proof. exact which_none. Qed.
Print Assumptions C13_which_none.

(** ... and the env argument's PATH, when env is given, is the one searched. *)
Theorem C13_which_env_wins : forall is_exec defpath f e os1 os2,
  which is_exec defpath f (Some e) os1 = which is_exec defpath f (Some e) os2.
Proof. exact which_env_wins. Qed.
Print Assumptions C13_which_env_wins.

(** What spawn() hands to ptyprocess: a command line built by quoting an argv (any style per argument, any whitespace
    around) is launched with exactly that argv, its first element resolved on the effective PATH ... *)
Theorem C13_launch_argv : forall is_exec defpath lead items env osenv a0 rest p,
  all_space lead = true -> wf items -> argv items = a0 :: rest ->
  which is_exec defpath a0 env osenv = Some p ->
  exists name, prepare is_exec defpath (lead ++ body items) [] env osenv = inr (p :: rest, name).
Proof. exact launch_argv. Qed.
Print Assumptions C13_launch_argv.

(** ... refused when nothing executable is found ... *)
Theorem C13_launch_not_found : forall is_exec defpath lead items env osenv a0 rest,
  all_space lead = true -> wf items -> argv items = a0 :: rest ->
  which is_exec defpath a0 env osenv = None ->
  prepare is_exec defpath (lead ++ body items) [] env osenv = inl (LNotFound a0).
Proof. exact launch_not_found. Qed.
Print Assumptions C13_launch_not_found.

(** ... and with an explicit argument list nothing is parsed *)
Theorem C13_launch_explicit_args : forall is_exec defpath command a args env osenv p,
  which is_exec defpath command env osenv = Some p ->
  exists name, prepare is_exec defpath command (a :: args) env osenv = inr (p :: a :: args, name).
Proof. exact launch_explicit_args. Qed.
Print Assumptions C13_launch_explicit_args.
