From PV Require Import Life.Model.
Theorem placeholder : True. Proof. exact I. Qed.
Print Assumptions placeholder.
