(** C09 Exit status truth.  Property theorems only; proofs in Life/Proofs.v.  The child process, signal delivery,
    waitpid and the wait-status encoding are a MODEL (Life/Model.v); [Inv] is the invariant of every state reachable
    from a fresh spawn by isalive / wait / kill / terminate / close and by the child dying on its own. *)
From Coq Require Import ZArith List Bool.
Import ListNotations.
From PV Require Import Life.Model Life.Proofs Life.Foreign.
Local Open Scope Z_scope.

(** the W* macros decode what an exit code / a terminating signal encodes *)
Theorem C09_decode_exit : forall c, 0 <= c < 256 ->
  WIFEXITED (status_of_exit c) = true /\ WEXITSTATUS (status_of_exit c) = c /\ WIFSIGNALED (status_of_exit c) = false.
Proof. exact decode_exit. Qed.
Print Assumptions C09_decode_exit.
Theorem C09_decode_signal : forall s, 1 <= s < 127 ->
  WIFEXITED (status_of_signal s) = false /\ WIFSIGNALED (status_of_signal s) = true /\ WTERMSIG (status_of_signal s) = s.
Proof. exact decode_signal. Qed.
Print Assumptions C09_decode_signal.

(** the invariant holds initially and after every sequence of operations (every disposition of the child, every
    interleaving with the child exiting or being killed by itself) *)
Theorem C09_invariant : forall ih ii st ops, Forall wf_op ops ->
  Inv (fold_left (fun w o => snd (lstep w o)) ops (world0 ih ii st)).
Proof. intros. apply steps_inv_all; auto. apply world0_inv. Qed.
Print Assumptions C09_invariant.

(** whenever the object says terminated: the child is dead and reaped, status is its wait status, exactly one of
    exitstatus / signalstatus is set and it is what that status decodes to *)
Theorem C09_status_truth : forall w, Inv w -> s_terminated (sp w) = true ->
  alive (ch w) = false /\ reaped (ch w) = true /\ s_status (sp w) = Some (fate (ch w)) /\
  (s_exit (sp w), s_sig (sp w)) = fields_of (fate (ch w)) /\
  ((exists c, s_exit (sp w) = Some c /\ s_sig (sp w) = None) \/ (exists g, s_exit (sp w) = None /\ s_sig (sp w) = Some g)).
Proof. exact status_truth. Qed.
Print Assumptions C09_status_truth.

(** and the values never change afterwards *)
Theorem C09_status_stable : forall w o, Inv w -> wf_op o -> s_terminated (sp w) = true ->
  let w' := snd (lstep w o) in
  s_terminated (sp w') = true /\ s_status (sp w') = s_status (sp w) /\ s_exit (sp w') = s_exit (sp w) /\ s_sig (sp w') = s_sig (sp w).
Proof. exact status_stable_all. Qed.
Print Assumptions C09_status_stable.

(** observing the death through close(): the object ends terminated, with the fields of the real fate (C09_status_truth applies) *)
Theorem C09_close_observes : forall w, Inv w ->
  match close w true with
  | (RNone, w') => Inv w' /\ s_terminated (sp w') = true
  | _ => False
  end.
Proof. intros w HI. pose proof (close_force w HI) as C. destruct (close w true) as [[| | | |] w']; try contradiction. split; apply C. Qed.
Print Assumptions C09_close_observes.

(** Even in a world where SOMEBODY ELSE may reap the child (the kernel when the application ignores SIGCHLD, another waitpid):
    pexpect may then be unable to learn the fate - its checks raise -, but a status it reports is never invented: after any
    sequence of operations and events, terminated implies that the fields are the child's real fate, exactly one of them set. *)
Theorem C09_no_invented_status : forall ops ih ii st, Forall wf_op' ops ->
  let w := fold_left (fun w o => snd (lstep w o)) ops (world0 ih ii st) in
  s_terminated (sp w) = true ->
  alive (ch w) = false /\ s_status (sp w) = Some (fate (ch w)) /\ (s_exit (sp w), s_sig (sp w)) = fields_of (fate (ch w)) /\
  ((exists c, s_exit (sp w) = Some c /\ s_sig (sp w) = None) \/ (exists g, s_exit (sp w) = None /\ s_sig (sp w) = Some g)).
Proof. exact no_invented_status. Qed.
Print Assumptions C09_no_invented_status.

Example C09_example : let w := fold_left (fun w o => snd (lstep w o)) [OEnv (EExit 7); OIsalive] (world0 false false false) in
  (s_terminated (sp w), s_exit (sp w), s_sig (sp w), s_status (sp w)) = (true, Some 7, None, Some 1792).
Proof. vm_compute. reflexivity. Qed.
