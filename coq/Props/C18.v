(** C18 ANSI emulator: total, shape-preserving, chunk-independent.  Property theorems only; proofs in Ansi/Proofs.v.
    The transition table and the per-action pop/push/reset signatures are regenerated from pexpect/ANSI.py on every
    run (Gen/AnsiTable.v); [good a] = the screen is well shaped (rows x cols single characters, cursor and scroll
    region on the screen) and the parameter stack has the depth the parser state requires. *)
From Coq Require Import ZArith NArith List Bool.
Import ListNotations.
From PV Require Import Screen.Model Screen.Facts Ansi.Names Gen.AnsiTable Ansi.Model Ansi.Proofs IO.Model Ansi.Bytes Ansi.Plain.

(** the generated table is well typed: in every state, every transition it can take finds enough parameters *)
Theorem C18_table_well_typed : table_well_typed = true.
Proof. exact table_typed. Qed.
Print Assumptions C18_table_well_typed.

(** Total and shape-preserving: for EVERY input text (any code points: well-formed sequences with any parameters,
    unknown or truncated sequences, control characters) fed to any good terminal, the parser does not raise and the
    terminal is good again - on a fresh terminal of any size >= 1x1 in particular. *)
Theorem C18_feed_total : forall t a, good a -> exists a', feed a t = Some a' /\ good a'.
Proof. exact feed_total. Qed.
Print Assumptions C18_feed_total.

Theorem C18_fresh_terminal_good : forall r c, (1 <= r)%Z -> (1 <= c)%Z -> good (ansi_init r c).
Proof. exact init_good. Qed.
Print Assumptions C18_fresh_terminal_good.

(** a completed sequence leaves no parser residue behind: whenever the parser is back in INIT its parameter stack is empty *)
Theorem C18_no_residue : forall a, good a -> pstate a = S_INIT -> stack a = [].
Proof. exact no_residue. Qed.
Print Assumptions C18_no_residue.

(** feeding the same input in any number of pieces, cut anywhere (inside an escape sequence too), gives the same
    screen, cursor and parser state as feeding it at once *)
Theorem C18_chunk_independent : forall chunks a, feed_chunks a chunks = feed a (concat chunks).
Proof. exact chunk_independent. Qed.
Print Assumptions C18_chunk_independent.

(** text made of characters the table emits in INIT (DoEmit -> INIT), arriving while no sequence is open, is written
    character by character through write_ch; the parser stays in INIT and its memory is untouched.  The statement is
    generic in the regenerated table; the example below instantiates it on the printable ASCII range, CR, LF, BS. *)
Theorem C18_plain_text_is_emitted : forall t a, pstate a = S_INIT -> Forall emitted t ->
  feed a t = Some (mkAnsi (fold_left write_ch t (scrn a)) S_INIT (stack a)).
Proof. exact plain_text. Qed.
Print Assumptions C18_plain_text_is_emitted.

Example C18_printables_are_emitted :
  forallb (fun c => match get_transition c S_INIT with (A_DoEmit, S_INIT) => true | _ => false end)
          ([8; 10; 13] ++ map N.of_nat (seq 32 95))%N = true.
Proof. vm_compute. reflexivity. Qed.

(** an ordinary character (not CR / LF / BS) written while the cursor is left of the last column lands in the cursor's
    cell, the cursor moves one column right, and nothing else changes *)
Theorem C18_ordinary_character : forall s ch, wf s -> ch <> 13%N -> ch <> 10%N -> ch <> 8%N -> (cur_c s < cols s)%Z ->
  write_ch s ch = set_cur (put_abs s (cur_r s) (cur_c s) ch) (cur_r s) (cur_c s + 1).
Proof. exact write_ch_ordinary. Qed.
Print Assumptions C18_ordinary_character.

(** BYTES input (Ansi/Bytes.v): every write decodes its piece with the screen's incremental decoder - ANY Mealy machine
    over bytes [C] - and parses the text; the decoder state and the terminal are carried from write to write.  Cuts
    anywhere, inside an escape sequence or inside a multi-byte character, give the same decoder state, screen, cursor
    and parser state as one write of the whole; and no bytes whatever make a write raise or spoil the shape. *)
Theorem C18_bytes_chunk_independent : forall (C : codec) chunks st,
  write_bytes_chunks C st chunks = write_bytes C st (concat chunks).
Proof. exact bytes_chunk_independent. Qed.
Print Assumptions C18_bytes_chunk_independent.

Theorem C18_bytes_feed_total : forall (C : codec) chunks st, good (snd st) ->
  exists st', write_bytes_chunks C st chunks = Some st' /\ good (snd st').
Proof. exact write_bytes_chunks_total. Qed.
Print Assumptions C18_bytes_feed_total.

(** non-vacuity: ESC [ 2 ; 2 H then U+00E9 as the utf-8 bytes C3 A9, cut inside the escape sequence and inside the character *)
Example C18_bytes_cut_inside_character :
  match write_bytes_chunks utf8_codec (cinit utf8_codec, ansi_init 2 3) [[27; 91; 50]; [59; 50; 72; 195]; [169]]%N with
  | Some (d, a) => (d, w (scrn a), pst_id (pstate a), stack a) = ((O, 0%N), [[32; 32; 32]; [32; 233; 32]]%N, 0, [])
  | None => False
  end.
Proof. vm_compute. reflexivity. Qed.

(** non-vacuity: ESC[0;0r followed by line feeds on a 3x4 terminal keeps the 3x4 shape and ends in INIT *)
Example C18_region_then_scroll :
  match feed (ansi_init 3 4) [97; 27; 91; 48; 59; 48; 114; 10; 10; 10; 10; 120]%N with
  | Some a => (length (w (scrn a)), map (@length N) (w (scrn a)), pst_id (pstate a), stack a) = (3, [4; 4; 4], 0, [])
  | None => False
  end.
Proof. vm_compute. reflexivity. Qed.
