(** C07 Unicode mode decodes the stream as a whole, however reads split it.  Property theorems only. *)
From Coq Require Import ZArith NArith List Bool.
Import ListNotations.
From PV Require Import Base.Utf8 IO.Model IO.Proofs IO.Utf8Facts.

(** for ANY incremental decoder that is a Mealy machine over bytes, and any cutting of the byte stream into chunks
    (also inside a multi-byte character): decoding the chunks one after the other with the one persistent decoder
    yields, concatenated, exactly the decoding of the whole stream *)
Theorem C07_chunks_decode_as_whole : forall (c : codec) chunks s,
  let '(s1, ts) := decode_chunks c s chunks in decode c s (concat chunks) = (s1, concat ts).
Proof. exact chunks_decode_as_whole. Qed.
Print Assumptions C07_chunks_decode_as_whole.

(** every read path of the model applies that one decoder exactly once to every chunk in arrival order, whatever
    sends and control characters happen in between: the text delivered to matching is the decoding of the whole stream;
    in bytes mode (the null coder) the bytes pass through unchanged *)
Theorem C07_delivered_is_whole_decoding : forall unicode L T ops,
  let '(s, o) := run unicode L T ops in
  decode (if unicode then utf8_codec else null_codec) (cinit (if unicode then utf8_codec else null_codec)) (concat (raws ops))
  = (s, concat (delivered o)).
Proof. exact delivered_is_whole_decoding. Qed.
Print Assumptions C07_delivered_is_whole_decoding.

Theorem C07_bytes_mode_is_identity : forall chunk, decode null_codec tt chunk = (tt, chunk).
Proof. induction chunk as [|b r IH]; cbn; [reflexivity|]. now rewrite IH. Qed.
Print Assumptions C07_bytes_mode_is_identity.

(** non-vacuity: U+2603 cut after its first byte *)
(** the UTF-8 instance (the decoder the model executes): what was encoded is decoded back, for every text over code points
    below 2^21 (all of Unicode), however the bytes are cut into reads; the decoder ends in its initial state *)
Theorem C07_utf8_roundtrip_any_cut : forall t chunks, Forall (fun c => (c < 2097152)%N) t -> concat chunks = utf8_encode t ->
  let '(s1, ts) := decode_chunks utf8_codec (O, 0%N) chunks in s1 = (O, 0%N) /\ concat ts = t.
Proof. exact utf8_any_cut. Qed.
Print Assumptions C07_utf8_roundtrip_any_cut.

Example C07_snowman_cut :
  concat (delivered (snd (run true {| has_all := false; has_read := false; has_send := false |} TFd
                        [Read [97; 226]%N; Read [152; 131; 98]%N]))) = [97; 9731; 98]%N.
Proof. vm_compute. reflexivity. Qed.
