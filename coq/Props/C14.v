(** C14 asyncio parity.  Property theorems only; proofs in Async/Proofs.v (which rest on the refinement theorem of C03). *)
From Coq Require Import ZArith NArith List Bool Arith.
Import ListNotations.
From PV Require Import Base.PySeq Expect.Model Expect.Spec Expect.Refine Async.Model Async.Proofs.

(** an awaited call is, event for event, the blocking call: same search on the pending text first, then the same
    new_data / eof / timeout steps on the same events *)
Theorem C14_await_is_blocking : forall rx re_search (c : cfg rx) s evs,
  await_call rx re_search c s evs = expect_loop rx re_search c false s evs.
Proof. exact await_is_blocking. Qed.
Print Assumptions C14_await_is_blocking.

(** output that arrives while no call is outstanding keeps the invariant (it is appended to both buffers) ... *)
Theorem C14_idle_data_keeps_invariant : forall s d, Inv s -> Inv (idle_data s d).
Proof. exact idle_inv. Qed.
Print Assumptions C14_idle_data_keeps_invariant.

(** ... so every history that mixes blocking calls, awaited calls and output arriving in between behaves like the naive
    procedure over the pending text: same index / EOF / TIMEOUT outcome, before, after, events consumed, pending text *)
Theorem C14_mixed_histories_refine :
  forall rx re_search (ops : list (aop rx)) s evs, Forall (wf_aop rx) ops -> Inv s ->
  Forall2 (fun o xy => match fst xy, snd xy with
                       | (r, s', n), (r2, p2, n2) =>
                           option_map strip r = option_map strip r2 /\ (exact_span rx o -> r = r2) /\ pend s' = p2 /\ n = n2
                       end) ops
    (combine (ahistory rx re_search ops s evs) (nahistory rx re_search ops (pend s) evs)).
Proof. exact ahistory_refines. Qed.
Print Assumptions C14_mixed_histories_refine.
