(** C15 interact(): a transparent two-way pipe until the escape character.  Property theorems only. *)
From Coq Require Import ZArith NArith List Bool.
Import ListNotations.
From PV Require Import Interact.Model Interact.Proofs.

(** For every sequence of events (child output chunks, typed chunks of any size, child EOF), every escape character (or
    none) and all filters: stdout receives the pending output and then every chunk of child output through output_filter,
    in order, until the session ends; the child receives the typed chunks through input_filter, in order, cut just before
    the FIRST escape character - the escape character and what follows are never forwarded; the terminal mode is restored. *)
Theorem C15_interact_spec : forall esc fin fout pending evs,
  let r := interact esc fin fout pending evs in
  to_stdout r = pending ++ outs fout (session esc fin evs) /\
  to_child r = (match esc with
                | Some e => fst (before_esc e (typed fin (session esc fin evs)))
                | None => typed fin (session esc fin evs)
                end) /\
  mode_restored r = true.
Proof. exact interact_spec. Qed.
Print Assumptions C15_interact_spec.

Theorem C15_nothing_after_escape : forall (esc : option N) e d, esc = Some e -> ~ In e (fst (before_esc e d)).
Proof. exact nothing_after_escape. Qed.
Print Assumptions C15_nothing_after_escape.

(** what precedes the escape character in the same read is still delivered, whatever comes after it *)
Theorem C15_prefix_before_escape : forall esc a b, before_esc esc (a ++ b) =
  if snd (before_esc esc a) then before_esc esc a else (a ++ fst (before_esc esc b), snd (before_esc esc b)).
Proof. exact before_esc_app. Qed.
Print Assumptions C15_prefix_before_escape.

Example C15_repeated_escape :
  to_child (interact (Some 29%N) (fun d => d) (fun d => d) [] [Typed [97; 29; 98; 29; 99]%N]) = [97]%N.
Proof. vm_compute. reflexivity. Qed.
