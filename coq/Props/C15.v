(** C15 interact(): a transparent two-way pipe until the escape character.  Property theorems only. *)
From Coq Require Import ZArith NArith List Bool.
Import ListNotations.
From PV Require Import Interact.Model Interact.Proofs.

(** While the child lives: for every sequence of events (child output chunks, typed chunks of any size, child EOF), every escape character (or
    none) and all filters: stdout receives the pending output and then every chunk of child output through output_filter,
    in order, until the session ends; the child receives the typed chunks through input_filter, in order, cut just before
    the FIRST escape character - the escape character and what follows are never forwarded; the terminal mode is restored. *)
Theorem C15_interact_spec : forall esc fin fout pending evs, Forall (fun e => e <> ChildExit) evs ->
  let r := interact esc fin fout pending evs in
  to_stdout r = pending ++ outs fout (session esc fin evs) /\
  to_child r = (match esc with
                | Some e => fst (before_esc e (typed fin (session esc fin evs)))
                | None => typed fin (session esc fin evs)
                end) /\
  mode_restored r = true.
Proof. exact interact_spec. Qed.
Print Assumptions C15_interact_spec.

(** With the child's death in the picture (ChildExit events: the next liveness check notices): stdout still receives the
    pending output and then every chunk the loop reads from the child, in order - in particular everything the child had
    written before it exited is still copied (drained) before interact returns; the terminal mode is restored. *)
Theorem C15_stdout_complete : forall esc fin fout pending evs,
  let r := interact esc fin fout pending evs in
  to_stdout r = pending ++ outs fout (lsession esc fin true evs) /\ mode_restored r = true.
Proof. exact interact_stdout. Qed.
Print Assumptions C15_stdout_complete.
Theorem C15_drained_after_exit : forall esc fin ds rest,
  lsession esc fin false (map ChildOut ds ++ rest) = map ChildOut ds ++ lsession esc fin false rest.
Proof. exact drained_after_exit. Qed.
Print Assumptions C15_drained_after_exit.

(** whatever the child's fate, the escape character never reaches it *)
Theorem C15_escape_never_forwarded : forall esc fin fout e, esc = Some e -> forall evs alive o, ~ In e (to_child o) ->
  ~ In e (to_child (copy esc fin fout alive evs o)).
Proof. exact escape_never_forwarded. Qed.
Print Assumptions C15_escape_never_forwarded.

Theorem C15_nothing_after_escape : forall (esc : option N) e d, esc = Some e -> ~ In e (fst (before_esc e d)).
Proof. exact nothing_after_escape. Qed.
Print Assumptions C15_nothing_after_escape.

(** what precedes the escape character in the same read is still delivered, whatever comes after it *)
Theorem C15_prefix_before_escape : forall esc a b, before_esc esc (a ++ b) =
  if snd (before_esc esc a) then before_esc esc a else (a ++ fst (before_esc esc b), snd (before_esc esc b)).
Proof. exact before_esc_app. Qed.
Print Assumptions C15_prefix_before_escape.

Example C15_repeated_escape :
  to_child (interact (Some 29%N) (fun d => d) (fun d => d) [] [Typed [97; 29; 98; 29; 99]%N]) = [97]%N.
Proof. vm_compute. reflexivity. Qed.
