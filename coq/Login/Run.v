From Coq Require Import ZArith NArith List Bool.
Import ListNotations.
From PV Require Import Base.V Login.Model.

Definition enc_ans (a : ans) : V :=
  match a with AI n => VL [VI 0; vnat n] | AEof => VL [VI 0; VI 100] | ATimeout => VL [VI 0; VI 101] | AT s => VL [VI 1; vtext s] end.
Definition qid (q : query) : Z := match q with QInit => 0 | QSession => 1 | QUnique => 2 | QReadPrompt => 3 end.
Definition sid (s : sent) : Z :=
  match s with SYes => 0 | SPassword => 1 | STerm => 2 | SEmpty => 3 | SUnset => 4 | SPromptSh => 5 | SPromptCsh => 6 | SPromptZsh => 7 end.
Definition enc_event (e : event) : V :=
  match e with
  | Ask q a => VL [VI 0; VI (qid q); enc_ans a]
  | Spawn => VL [VI 1] | Send s => VL [VI 2; VI (sid s)] | Close => VL [VI 3] | Sleep => VL [VI 4]
  end.
Definition enc_outcome (o : outcome) : V :=
  match o with RetTrue => VL [VI 0] | Pxssh w => VL [VI 1; vnat w] | RaiseEOF => VL [VI 2] | RaiseTIMEOUT => VL [VI 3] | Stuck => VL [VI 9] end.
Definition run_login_case (c : bool * bool * list ans) : V :=
  match c with (apr, sync, script) =>
    let '(o, tr) := run_login {| auto_prompt_reset := apr; sync_original := sync |} script in
    VL [enc_outcome o; vlist enc_event tr]
  end.
Definition run_lev (c : list N * list N) : V := vnat (levenshtein (fst c) (snd c)).

(** pxssh.prompt() (job pxssh-prompt): PROMPT as a regex of the executable engine, the calls (timeout is 0?), the transport events,
    the state; per call [True/False/raises, result, pending, buffer, events left] *)
From PV Require Import Base.PySeq Base.Rx Expect.Model Expect.Run Login.Prompt.
Fixpoint run_prompts (P : rx) (calls : list bool) (s : st) (evs : list ev) : list V :=
  match calls with
  | [] => []
  | t0 :: r =>
      let '(pr, x, s', e') := prompt rx rx_search P t0 s evs in
      VL [VI (match pr with PTrue => 1 | PFalse => 0 | PRaises _ => 2 end); enc_step (Some x, s', length e')] :: run_prompts P r s' e'
  end.
Definition run_prompt_case (c : rx * list bool * list ev * st) : V :=
  match c with (P, calls, evs, s) => VL (run_prompts P calls s evs) end.
