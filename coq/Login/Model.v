(** C17: model of pxssh.login / sync_original_prompt / set_unique_prompt / levenshtein_distance as a decision
    program over the answers of its environment (expect outcomes, prompts read back), producing the transcript
    of everything it asked and did.  Answers: for an expect, the index returned or the exception raised (EOF / TIMEOUT, when
    the marker is not in the list); for try_read_prompt, the text read. *)
From Coq Require Import ZArith NArith List Bool Arith.
Import ListNotations.

Definition text := list N.
Inductive ans := AI (n : nat) | AEof | ATimeout | AT (s : text).    (* index returned / EOF raised / TIMEOUT raised / text read *)
Inductive query := QInit | QSession | QUnique | QReadPrompt.
Inductive sent := SYes | SPassword | STerm | SEmpty | SUnset | SPromptSh | SPromptCsh | SPromptZsh.
Inductive event := Ask (q : query) (a : ans) | Spawn | Send (s : sent) | Close | Sleep.
Inductive outcome :=
| RetTrue
| Pxssh (why : nat)       (* ExceptionPxssh: 1 connect 2 yes-twice 3 refused 4 denied 5 term-twice 6 closed 7 unexpected 8 sync 9 prompt *)
| RaiseEOF | RaiseTIMEOUT
| Stuck.                  (* the script ran out / gave an answer of the wrong kind: not a behaviour of the code *)

Record opts := { auto_prompt_reset : bool; sync_original : bool }.

(** a computation: remaining script, transcript so far (newest first) -> value or final outcome *)
Definition M (A : Type) := list ans -> list event -> (A + outcome) * list ans * list event.
Definition ret {A} (x : A) : M A := fun sc tr => (inl x, sc, tr).
Definition fail {A} (o : outcome) : M A := fun sc tr => (inr o, sc, tr).
Definition bind {A B} (m : M A) (f : A -> M B) : M B :=
  fun sc tr => match m sc tr with
               | (inl x, sc', tr') => f x sc' tr'
               | (inr o, sc', tr') => (inr o, sc', tr')
               end.
Notation "x <- m ;; k" := (bind m (fun x => k)) (at level 61, m at next level, right associativity).
Notation "m ;;; k" := (bind m (fun _ => k)) (at level 61, right associativity).
Definition tell (e : event) : M unit := fun sc tr => (inl tt, sc, e :: tr).

(** expect: [has_eof]/[has_timeout] say whether the marker is in the list (else the exception propagates) *)
Definition expect (q : query) : M nat :=
  fun sc tr => match sc with
               | AI n :: sc' => (inl n, sc', Ask q (AI n) :: tr)
               | AEof :: sc' => (inr RaiseEOF, sc', Ask q AEof :: tr)
               | ATimeout :: sc' => (inr RaiseTIMEOUT, sc', Ask q ATimeout :: tr)
               | _ => (inr Stuck, sc, tr)
               end.
Definition read_prompt : M text :=
  fun sc tr => match sc with
               | AT s :: sc' => (inl s, sc', Ask QReadPrompt (AT s) :: tr)
               | _ => (inr Stuck, sc, tr)
               end.

(** levenshtein_distance (pxssh.py), row by row *)
Fixpoint lev_row (a : text) (bi : N) (prev : list nat) (left : nat) (diag : nat) : list nat :=
  match a, prev with
  | aj :: a', pj :: prev' =>
      let add := pj + 1 in let del := left + 1 in
      let change := if N.eqb aj bi then diag else diag + 1 in
      let cur := Nat.min (Nat.min add del) change in
      cur :: lev_row a' bi prev' cur pj
  | _, _ => []
  end.
Fixpoint lev_rows (a b : text) (i : nat) (prev : list nat) : list nat :=
  match b with
  | [] => prev
  | bi :: b' => let cur := i :: lev_row a bi (tl prev) i (hd 0 prev) in lev_rows a b' (S i) cur
  end.
Definition levenshtein (a b : text) : nat :=
  let '(a, b) := if length b <? length a then (b, a) else (a, b) in
  last (lev_rows a b 1 (seq 0 (S (length a)))) 0.

(** sync_original_prompt: float(ld)/len_a < 0.4  <->  5*ld < 2*len_a *)
Definition sync_prompt : M bool :=
  tell (Send SEmpty) ;;; tell Sleep ;;; _ <- read_prompt ;;
  tell (Send SEmpty) ;;; _ <- read_prompt ;;
  tell (Send SEmpty) ;;; a <- read_prompt ;;
  tell (Send SEmpty) ;;; b <- read_prompt ;;
  ret (if length a =? 0 then false else 5 * levenshtein a b <? 2 * length a).

(** set_unique_prompt: [TIMEOUT, PROMPT] -> index 0 = timeout, 1 = prompt seen *)
Definition set_unique : M bool :=
  tell (Send SUnset) ;;; tell (Send SPromptSh) ;;; i <- expect QUnique ;;
  if i =? 0 then
    tell (Send SPromptCsh) ;;; i <- expect QUnique ;;
    if i =? 0 then
      tell (Send SPromptZsh) ;;; i <- expect QUnique ;;
      ret (negb (i =? 0))
    else ret true
  else ret true.

Definition close_raise {A} (why : nat) : M A := tell Close ;;; fail (Pxssh why).

(** login, from the spawn of the ssh client on (pxssh.py:362-419) *)
Definition login (o : opts) : M unit :=
  tell Spawn ;;;
  i <- expect QInit ;;
  i <- (if i =? 0 then tell (Send SYes) ;;; expect QSession else ret i) ;;
  i <- (if i =? 2 then tell (Send SPassword) ;;; expect QSession else ret i) ;;
  i <- (if i =? 4 then tell (Send STerm) ;;; expect QSession else ret i) ;;
  (if i =? 7 then close_raise 1 else ret tt) ;;;
  (match i with
   | 0 => close_raise 2 | 1 => ret tt | 2 => close_raise 3 | 3 => close_raise 4 | 4 => close_raise 5
   | 5 => ret tt | 6 => close_raise 6 | _ => close_raise 7
   end) ;;;
  (if sync_original o then ok <- sync_prompt ;; if ok then ret tt else close_raise 8 else ret tt) ;;;
  (if auto_prompt_reset o then ok <- set_unique ;; if ok then ret tt else close_raise 9 else ret tt).

Definition run_login (o : opts) (script : list ans) : outcome * list event :=
  match login o script [] with
  | (inl tt, _, tr) => (RetTrue, rev tr)
  | (inr out, _, tr) => (out, rev tr)
  end.
