(** C17: properties of every dialogue of the login model, by exploring its (finite) decision tree symbolically. *)
From Coq Require Import ZArith NArith List Bool Arith Lia.
Import ListNotations.
From PV Require Import Login.Model.

Definition is_pw (e : event) := match e with Send SPassword => true | _ => false end.
Definition is_yes (e : event) := match e with Send SYes => true | _ => false end.

(** chronological trace: every password is the direct answer to a password/passphrase prompt (index 2 of the
    login pattern lists), every 'yes' the direct answer to the host-key question (index 0 of the first list) *)
Fixpoint secrets_ok (prev : option event) (tr : list event) : bool :=
  match tr with
  | [] => true
  | e :: r =>
      (match e with
       | Send SPassword => match prev with Some (Ask QInit (AI 2)) | Some (Ask QSession (AI 2)) => true | _ => false end
       | Send SYes => match prev with Some (Ask QInit (AI 0)) => true | _ => false end
       | _ => true
       end) && secrets_ok (Some e) r
  end.

Definition saw_prompt (e : event) : bool :=
  match e with Ask QInit (AI 1) | Ask QSession (AI 1) => true | _ => false end.
(** the re-synchronisation read something that looks like a prompt (non-empty text) *)
Definition prompt_echo (e : event) : bool :=
  match e with Ask QReadPrompt (AT (_ :: _)) => true | _ => false end.
Definition unique_set (e : event) : bool :=
  match e with Ask QUnique (AI (S _)) => true | _ => false end.

(** the whole property as a decidable check of one finished dialogue *)
Definition dialogue_ok (o : opts) (r : outcome * list event) : bool :=
  let '(out, tr) := r in
  secrets_ok None tr && (length (filter is_pw tr) <=? 1) && (length (filter is_yes tr) <=? 1) && (length tr <=? 26) &&
  match out with
  | RetTrue => (if auto_prompt_reset o then existsb unique_set tr else true) &&
               (existsb saw_prompt tr || existsb unique_set tr || (sync_original o && existsb prompt_echo tr))
  | Pxssh _ => existsb (fun e => match e with Close => true | _ => false end) tr
  | _ => true
  end.

Ltac step :=
  match goal with
  | |- context[match ?sc with [] => _ | _ :: _ => _ end] => is_var sc; destruct sc as [|[?n| | |?s] sc]
  | |- context[match ?n with O => _ | S _ => _ end] => is_var n; destruct n
  | |- context[Nat.eqb (length ?s) _] => is_var s; destruct s
  | |- context[Nat.eqb ?n _] => is_var n; destruct n
  | |- context[if ?b then _ else _] => destruct b
  end.

Ltac explore_tree :=
  unfold run_login, login, sync_prompt, set_unique, close_raise, expect, read_prompt, bind, tell, ret, fail; cbn;
  repeat (step; cbn); reflexivity.

Definition mk (a s : bool) := {| auto_prompt_reset := a; sync_original := s |}.

Lemma dialogue_ok_TT script : dialogue_ok (mk true true) (run_login (mk true true) script) = true.
Proof. explore_tree. Qed.
Lemma dialogue_ok_TF script : dialogue_ok (mk true false) (run_login (mk true false) script) = true.
Proof. explore_tree. Qed.
Lemma dialogue_ok_FT script : dialogue_ok (mk false true) (run_login (mk false true) script) = true.
Proof. explore_tree. Qed.

(** with both prompt checks disabled everything holds except the evidence clause (see [silent_success]) *)
Definition dialogue_ok_weak (r : outcome * list event) : bool :=
  let '(out, tr) := r in
  secrets_ok None tr && (length (filter is_pw tr) <=? 1) && (length (filter is_yes tr) <=? 1) && (length tr <=? 26) &&
  match out with
  | Pxssh _ => existsb (fun e => match e with Close => true | _ => false end) tr
  | _ => true
  end.
Lemma dialogue_ok_FF script : dialogue_ok_weak (run_login (mk false false) script) = true.
Proof. explore_tree. Qed.

Theorem login_dialogue_ok o script : (auto_prompt_reset o || sync_original o = true) ->
  dialogue_ok o (run_login o script) = true.
Proof.
  destruct o as [[|] [|]]; cbn [auto_prompt_reset sync_original orb]; intros H;
    [apply dialogue_ok_TT | apply dialogue_ok_TF | apply dialogue_ok_FT | discriminate].
Qed.

Theorem login_secrets_ok o script :
  let '(out, tr) := run_login o script in
  secrets_ok None tr = true /\ length (filter is_pw tr) <= 1 /\ length (filter is_yes tr) <= 1 /\ length tr <= 26 /\
  (forall w, out = Pxssh w -> In Close tr).
Proof.
  assert (W : dialogue_ok_weak (run_login o script) = true).
  { destruct o as [[|] [|]].
    - pose proof (dialogue_ok_TT script) as H. unfold dialogue_ok, dialogue_ok_weak in *. destruct (run_login _ script) as [out tr].
      repeat (apply andb_prop in H as [H ?]). repeat (apply andb_true_iff; split); auto. destruct out; auto.
    - pose proof (dialogue_ok_TF script) as H. unfold dialogue_ok, dialogue_ok_weak in *. destruct (run_login _ script) as [out tr].
      repeat (apply andb_prop in H as [H ?]). repeat (apply andb_true_iff; split); auto. destruct out; auto.
    - pose proof (dialogue_ok_FT script) as H. unfold dialogue_ok, dialogue_ok_weak in *. destruct (run_login _ script) as [out tr].
      repeat (apply andb_prop in H as [H ?]). repeat (apply andb_true_iff; split); auto. destruct out; auto.
    - apply dialogue_ok_FF. }
  unfold dialogue_ok_weak in W. destruct (run_login o script) as [out tr].
  apply andb_prop in W as [W W5]. apply andb_prop in W as [W W4]. apply andb_prop in W as [W W3]. apply andb_prop in W as [W1 W2].
  apply Nat.leb_le in W2, W3, W4. repeat split; auto.
  intros w ->. apply existsb_exists in W5 as (e & He & Hc). destruct e; try discriminate. exact He.
Qed.

(** K2: with auto_prompt_reset = False and sync_original_prompt = False a login whose dialogue only timed out returns True *)
Theorem silent_success : run_login (mk false false) [AI 5] = (RetTrue, [Spawn; Ask QInit (AI 5)]).
Proof. reflexivity. Qed.
