(** C17, last clause: pxssh.prompt() - "little more than a short-cut to expect": expect([PROMPT, TIMEOUT]), True for the prompt,
    False for the timeout - on top of the Expecter model, and what "delimits each command's output exactly" means. *)
From Coq Require Import ZArith NArith List Bool Arith Lia.
Import ListNotations.
From PV Require Import Base.PySeq Expect.Model Expect.Spec Expect.Refine Expect.SpecFacts.

Section Prompt.
  Variable rx : Type.
  Variable re_search : rx -> text -> nat -> option (nat * nat).
  Variable P : rx.                              (* the compiled PROMPT *)
  Hypothesis re_span : forall r t p a b, re_search r t p = Some (a, b) -> a <= b.

  Definition prompt_cfg : cfg rx := {| ckind := KRe; pats := [PRe P; @PTimeout rx]; W := None |}.

  Inductive presult := PTrue | PFalse | PRaises (r : res).
  Definition prompt (t0 : bool) (s : st) (evs : list ev) : presult * res * st * list ev :=
    match expect_loop rx re_search prompt_cfg t0 s evs with
    | (Matched 0 b a sp, s', e') => (PTrue, Matched 0 b a sp, s', e')
    | (Matched i b a sp, s', e') => (PTrue, Matched i b a sp, s', e')
    | (AtTimeout (Some i) b, s', e') => (PFalse, AtTimeout (Some i) b, s', e')
    | (r, s', e') => (PRaises r, r, s', e')
    end.

  Lemma firstn_prefix {A} (x z full : list A) n : x ++ z = full -> n <= length x -> firstn n x = firstn n full.
  Proof. intros <- H. now rewrite firstn_app, (proj2 (Nat.sub_0_le _ _) H), firstn_O, app_nil_r. Qed.
  Lemma skipn_firstn_prefix {A} (x z full : list A) a n : x ++ z = full -> a + n <= length x ->
    firstn n (skipn a x) = firstn n (skipn a full).
  Proof.
    intros <- H. rewrite skipn_app. rewrite firstn_app, skipn_length.
    replace (n - (length x - a)) with 0 by lia. now rewrite firstn_O, app_nil_r.
  Qed.

  (** The session from here on is o ++ p ++ rest: the output of the command, the prompt text, whatever follows (type-ahead:
      echoes, outputs and prompts of further commands).  UNIQUENESS of the prompt (a hypothesis about the remote shell and the
      command, not about pexpect): in every prefix of the session in which PROMPT occurs at all, its leftmost occurrence is p
      at the end of o.  Then, however the session is cut into reads, however much of it is already pending or arrives during
      the call, and whatever the timeout: IF prompt() reports a prompt, before is exactly o, after is exactly p, and what is
      pending afterwards is what had arrived of rest - it never stops early, late, or at a later prompt. *)
  Theorem prompt_delimits o p rest t0 s evs :
    Inv s ->
    (forall t z a b, t ++ z = o ++ p ++ rest -> re_search P t 0 = Some (a, b) ->
                     a = length o /\ b = length o + length p /\ b <= length t) ->
    (exists z, (pend s ++ data_of evs) ++ z = o ++ p ++ rest) ->
    match prompt t0 s evs with
    | (PTrue, r, s', e') => exists sp used, evs = used ++ e' /\ r = Matched 0 o p sp /\
                            pend s' = skipn (length o + length p) (pend s ++ data_of used)
    | (PFalse, r, s', e') => exists used, evs = used ++ e' /\ pend s' = pend s ++ data_of used /\ r = AtTimeout (Some 1) (pend s')
    | (PRaises r, _, s', e') => forall i b a sp, r <> Matched i b a sp
    end.
  Proof.
    intros HI Law [z Hz]. unfold prompt.
    assert (Hwf : wfW rx prompt_cfg) by exact I.
    pose proof (expect_loop_post rx re_search re_span prompt_cfg t0 s evs Hwf HI) as Q.
    destruct (expect_loop rx re_search prompt_cfg t0 s evs) as [[r s'] e'].
    destruct Q as (r2 & Q1 & Q2 & (used & Hu & HP) & HI'). specialize (Q2 (or_introl eq_refl)). subst r2.
    cbn zeta in HP. destruct HP as [HC HR].
    assert (Pre : exists z', (pend s ++ data_of used) ++ z' = o ++ p ++ rest).
    { exists (data_of e' ++ z). rewrite <- Hz, Hu, data_of_app, <- !app_assoc. reflexivity. }
    destruct Pre as [z' Hz'].
    destruct r as [i b a [st en]|i b|i b|b].
    - destruct HR as (Hn & Hb & Ha & Hp'). cbn [prompt_cfg W lastW] in Hn, Hb, Ha, Hp'.
      destruct (nsearch_some rx re_search prompt_cfg _ _ _ _ Hn) as [(e0 & He0 & Ho) _].
      assert (Hi : i = 0 /\ re_search P (pend s ++ data_of used) 0 = Some (st, en)).
      { destruct i as [|[|i]]; cbn in He0.
        - injection He0 as <-. cbn in Ho. auto.
        - injection He0 as <-. cbn in Ho. discriminate.
        - destruct i; discriminate. }
      destruct Hi as [-> Hs]. destruct (Law _ _ _ _ Hz' Hs) as (-> & -> & Hlen).
      rewrite Nat.sub_diag in Hb. cbn [Nat.add] in Hb.
      assert (Eb : b = o).
      { rewrite Hb, (firstn_prefix _ _ _ _ Hz') by lia. now rewrite firstn_app, Nat.sub_diag, firstn_O, app_nil_r, firstn_all. }
      assert (Ea : a = p).
      { rewrite Ha. replace (length o + length p - length o) with (length p) by lia.
        rewrite (skipn_firstn_prefix _ _ _ _ _ Hz') by lia.
        rewrite skipn_app, skipn_all, Nat.sub_diag. cbn [skipn app]. now rewrite firstn_app, Nat.sub_diag, firstn_O, app_nil_r, firstn_all. }
      exists (length o, length o + length p), used. rewrite Eb, Ea. auto.
    - destruct i as [i|]; [|intros; discriminate]. destruct HR as (Hi & _). cbn in Hi. discriminate.
    - destruct HR as (Hi & Hb & Hp'). cbn in Hi. subst i. exists used. subst b. rewrite <- Hp'. auto.
    - intros; discriminate.
  Qed.
End Prompt.
