(** Python sequence semantics used by the models: slices with negative / out-of-range
    indices, [find] with a (possibly negative) start offset, truthiness of optional sizes.
    Definitions only (validated against CPython by the correspondence job [pysem]);
    facts are in PySeqFacts.v. *)
From Coq Require Import ZArith NArith List Bool Arith Lia.
Import ListNotations.

Definition text := list N.

(** [norm_idx len i] : a slice bound as CPython normalises it (PySlice_AdjustIndices, step 1) *)
Definition norm_idx (len : nat) (i : Z) : nat :=
  let l := Z.of_nat len in
  if (i <? 0)%Z then (if (i + l <? 0)%Z then 0 else Z.to_nat (i + l))
  else (if (l <? i)%Z then len else Z.to_nat i).

(** [l[a:b]] ; [None] = omitted bound *)
Definition py_slice {A} (l : list A) (a b : option Z) : list A :=
  let n := length l in
  let lo := match a with None => 0 | Some i => norm_idx n i end in
  let hi := match b with None => n | Some i => norm_idx n i end in
  firstn (hi - lo) (skipn lo l).

(** [l[-n:]] for n >= 1 (for n = 0 CPython gives the whole list: -0 = 0) *)
Definition last_n {A} (n : nat) (l : list A) : list A := skipn (length l - n) l.
Definition py_tail {A} (n : nat) (l : list A) : list A :=          (* l[-n:] exactly *)
  py_slice l (Some (- Z.of_nat n)%Z) None.

Fixpoint prefixb (s t : text) : bool :=
  match s, t with
  | [], _ => true
  | a :: s', b :: t' => N.eqb a b && prefixb s' t'
  | _ :: _, [] => false
  end.

(** first index i >= start (i counted from [i0]) with s a prefix of the rest; CPython's
    [t.find(s, start)] for a normalised start (note: find succeeds at i = len t for s = []) *)
Fixpoint find_from (s t : text) (i start : nat) : option nat :=
  if (start <=? i) && prefixb s t then Some i
  else match t with [] => None | _ :: t' => find_from s t' (S i) start end.

Definition py_find (s t : text) (start : Z) : option nat :=
  if (Z.of_nat (length t) <? start)%Z then None      (* start beyond the end: -1 even for s = '' *)
  else find_from s t 0 (norm_idx (length t) start).

(** list replacement [l[a:b] = r] (slice assignment, used by screen scrolling) *)
Definition py_slice_assign {A} (l : list A) (a b : Z) (r : list A) : list A :=
  let n := length l in
  let lo := norm_idx n a in
  let hi := Nat.max lo (norm_idx n b) in
  firstn lo l ++ r ++ skipn hi l.

(** Python [max(0, x - y)] on naturals is truncated subtraction. *)
Definition truthy (w : option nat) : bool :=
  match w with None => false | Some 0 => false | Some _ => true end.
