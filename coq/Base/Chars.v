(** Character classes of CPython used by the models. [space_points] is compared with
    CPython's [str.isspace] over all 0x110000 code points by the correspondence job [isspace]. *)
From Coq Require Import ZArith NArith List Bool.
Import ListNotations.
Local Open Scope N_scope.

Definition space_points : list N :=
  [9; 10; 11; 12; 13; 28; 29; 30; 31; 32; 133; 160; 5760;
   8192; 8193; 8194; 8195; 8196; 8197; 8198; 8199; 8200; 8201; 8202;
   8232; 8233; 8239; 8287; 12288].

Definition isspace (c : N) : bool := existsb (N.eqb c) space_points.

Definition nilb {A} (l : list A) : bool := match l with [] => true | _ => false end.
