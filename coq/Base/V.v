(** Universal value type used only by the correspondence check: every model job
    encodes its observable result as a [V]; the harness encodes what the real code
    did in the same shape and [report] lists the cases on which they differ. *)
From Coq Require Import ZArith List Bool.
Import ListNotations.

Inductive V := VI (z : Z) | VL (l : list V).

Fixpoint V_eqb (a b : V) {struct a} : bool :=
  match a, b with
  | VI x, VI y => Z.eqb x y
  | VL xs, VL ys =>
      (fix go (xs ys : list V) {struct xs} : bool :=
         match xs, ys with
         | [], [] => true
         | x :: xs', y :: ys' => V_eqb x y && go xs' ys'
         | _, _ => false
         end) xs ys
  | _, _ => false
  end.

Definition vN (n : N) : V := VI (Z.of_N n).
Definition vnat (n : nat) : V := VI (Z.of_nat n).
Definition vbool (b : bool) : V := VI (if b then 1 else 0)%Z.
Definition vtext (t : list N) : V := VL (map vN t).
Definition vopt {A} (f : A -> V) (o : option A) : V :=
  match o with None => VL [] | Some a => VL [f a] end.
Definition vlist {A} (f : A -> V) (l : list A) : V := VL (map f l).

(** [report run cases] = the (id, model output) of every case whose model output
    differs from the recorded implementation output. *)
Definition report {I} (run : I -> V) (cases : list (Z * I * V)) : list (Z * V) :=
  flat_map (fun c => match c with (id, i, expect) =>
     let got := run i in if V_eqb got expect then [] else [(id, got)] end) cases.
