(** A small backtracking regular-expression engine in the style of CPython's [re] (leftmost,
    priority order of alternatives, greedy star), used to EXECUTE regex searches inside the
    model.  It is validated against [re] by the correspondence job [rx-vs-re]; the theorems about
    the Expecter are parametric in the engine. *)
From Coq Require Import ZArith NArith List Bool Arith.
Import ListNotations.

Inductive rx :=
| Eps | Chr (c : N) | Any | Cls (neg : bool) (cs : list N)
| Seq (a b : rx) | Alt (a b : rx) | Star (a : rx)
| Bol            (* ^  (no MULTILINE): at 0 *)
| Eol            (* $  (no MULTILINE): at the end, or before a final newline *)
| Eos.           (* \Z : at the end *)

Definition Plus a := Seq a (Star a).
Definition Opt a := Alt a Eps.
Fixpoint Rep (n : nat) (a : rx) : rx := match n with 0 => Eps | S k => Seq a (Rep k a) end.
Fixpoint Lit (s : list N) : rx := match s with [] => Eps | c :: r => Seq (Chr c) (Lit r) end.

Section Match.
  Variable t : list N.

  (** [m r i k]: match r at position i, continue with k at the end position *)
  Fixpoint m (r : rx) (i : nat) (k : nat -> option nat) {struct r} : option nat :=
    match r with
    | Eps => k i
    | Chr c => match nth_error t i with
               | Some x => if N.eqb x c then k (S i) else None
               | None => None
               end
    | Any => match nth_error t i with Some _ => k (S i) | None => None end
    | Cls neg cs => match nth_error t i with
                    | Some x => if xorb neg (existsb (N.eqb x) cs) then k (S i) else None
                    | None => None
                    end
    | Seq a b => m a i (fun j => m b j k)
    | Alt a b => match m a i k with Some e => Some e | None => m b i k end
    | Star a =>
        (fix star (fuel : nat) (i : nat) {struct fuel} : option nat :=
           match fuel with
           | 0 => k i
           | S f => match m a i (fun j => if j <=? i then None else star f j) with
                    | Some e => Some e
                    | None => k i
                    end
           end) (S (length t - i)) i
    | Bol => if i =? 0 then k i else None
    | Eol => if (i =? length t) || ((S i =? length t) && match nth_error t i with Some 10%N => true | _ => false end)
             then k i else None
    | Eos => if i =? length t then k i else None
    end.

  Definition match_at (r : rx) (i : nat) : option nat := m r i (fun e => Some e).

  (** r.search(t, pos): scan start positions pos, pos+1, ..., len t *)
  Fixpoint scan (r : rx) (n : nat) (i : nat) : option (nat * nat) :=
    match match_at r i with
    | Some e => Some (i, e)
    | None => match n with 0 => None | S n' => scan r n' (S i) end
    end.
End Match.

Definition rx_search (r : rx) (t : list N) (pos : nat) : option (nat * nat) :=
  if length t <? pos then None else scan t r (length t - pos) pos.
