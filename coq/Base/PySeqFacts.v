(** Facts about the Python sequence semantics of Base/PySeq.v. *)
From Coq Require Import ZArith NArith List Bool Arith Lia.
Import ListNotations.
From PV Require Import Base.PySeq.

Ltac norm_tac :=
  unfold norm_idx;
  repeat match goal with
         | |- context[(?a <? ?b)%Z] => destruct (Z.ltb_spec a b)
         end; try lia.

Lemma skipn_skipn {A} a b (l : list A) : skipn b (skipn a l) = skipn (a + b) l.
Proof.
  revert l; induction a as [|a IH]; intros l; cbn [skipn plus]; [reflexivity|].
  destruct l as [|x l]; [now rewrite skipn_nil|]. apply IH.
Qed.

(** slices *)
Lemma py_slice_prefix {A} (l : list A) k : k <= length l ->
  py_slice l None (Some (Z.of_nat k)) = firstn k l.
Proof.
  intros H. unfold py_slice. cbn [skipn]. rewrite Nat.sub_0_r. f_equal. norm_tac.
Qed.

Lemma py_slice_mid {A} (l : list A) a b : a <= b -> b <= length l ->
  py_slice l (Some (Z.of_nat a)) (Some (Z.of_nat b)) = firstn (b - a) (skipn a l).
Proof.
  intros H1 H2. unfold py_slice.
  assert (norm_idx (length l) (Z.of_nat a) = a) as -> by norm_tac.
  assert (norm_idx (length l) (Z.of_nat b) = b) as -> by norm_tac.
  reflexivity.
Qed.

Lemma py_tail_last_n {A} (m : nat) (l : list A) : 1 <= m -> py_tail m l = last_n m l.
Proof.
  intros H. unfold py_tail, py_slice, last_n.
  assert (norm_idx (length l) (- Z.of_nat m) = length l - m) as -> by norm_tac.
  apply firstn_all2. rewrite skipn_length. lia.
Qed.

Lemma last_n_all {A} n (l : list A) : length l <= n -> last_n n l = l.
Proof. intros H. unfold last_n. replace (length l - n) with 0 by lia. reflexivity. Qed.

Lemma last_n_length {A} n (l : list A) : length (last_n n l) = Nat.min n (length l).
Proof. unfold last_n. rewrite skipn_length. lia. Qed.

Lemma last_n_suffix {A} n (l : list A) : exists x, l = x ++ last_n n l /\ length x = length l - n.
Proof.
  exists (firstn (length l - n) l). unfold last_n. rewrite firstn_skipn. split; [reflexivity|].
  rewrite firstn_length. lia.
Qed.

Lemma last_n_app_ge {A} n (l d : list A) : n <= length d -> last_n n (l ++ d) = last_n n d.
Proof.
  intros H. unfold last_n. rewrite app_length, skipn_app.
  rewrite (skipn_all2 l) by lia. cbn [app]. f_equal. lia.
Qed.

Lemma last_n_app {A} n (l d : list A) : last_n n (last_n n l ++ d) = last_n n (l ++ d).
Proof.
  destruct (Nat.le_gt_cases (length l) n) as [H|H].
  - now rewrite (last_n_all n l H).
  - destruct (last_n_suffix n l) as (x & Hx & _).
    rewrite Hx at 2. rewrite <- app_assoc. symmetry. apply last_n_app_ge.
    rewrite app_length, last_n_length. lia.
Qed.

(** [find] *)
Lemma prefixb_app s t : prefixb s (s ++ t) = true.
Proof. induction s as [|a s IH]; cbn; [reflexivity|]. now rewrite N.eqb_refl. Qed.

Lemma prefixb_spec s t : prefixb s t = true <-> exists r, t = s ++ r.
Proof.
  revert t; induction s as [|a s IH]; intros t; cbn.
  - split; [intros _; now exists t | reflexivity].
  - destruct t as [|b t]; [split; [discriminate | intros [r H]; discriminate]|].
    rewrite andb_true_iff, N.eqb_eq, IH. split.
    + intros [-> [r ->]]. now exists r.
    + intros [r [= -> ->]]. split; [reflexivity | now exists r].
Qed.

Lemma prefixb_length s t : prefixb s t = true -> length s <= length t.
Proof. intros H. apply prefixb_spec in H as [r ->]. rewrite app_length. lia. Qed.

(** occurrence of s in t at position k *)
Definition occb (s t : text) (k : nat) : bool := (k <=? length t) && prefixb s (skipn k t).

Lemma occb_bound s t k : occb s t k = true -> k + length s <= length t.
Proof.
  unfold occb. intros H. apply andb_prop in H as [H1 H2]. apply Nat.leb_le in H1.
  apply prefixb_length in H2. rewrite skipn_length in H2. lia.
Qed.

Lemma find_from_spec s : forall t i st,
  match find_from s t i st with
  | Some n => st <= n /\ i <= n /\ n - i <= length t /\ prefixb s (skipn (n - i) t) = true /\
              forall k, i <= k -> st <= k -> k < n -> prefixb s (skipn (k - i) t) = false
  | None => forall k, i <= k -> st <= k -> k - i <= length t -> prefixb s (skipn (k - i) t) = false
  end.
Proof.
  induction t as [|c t IH]; intros i st; cbn [find_from].
  - destruct ((st <=? i) && prefixb s []) eqn:E.
    + apply andb_prop in E as [E1 E2]. apply Nat.leb_le in E1. rewrite Nat.sub_diag. cbn [skipn length].
      repeat split; auto; try (intros; lia).
    + intros k Hk1 Hk2 Hk3. cbn [length] in Hk3. assert (k = i) as -> by lia. rewrite Nat.sub_diag. cbn [skipn].
      apply andb_false_iff in E as [E|E]; [apply Nat.leb_gt in E; lia | exact E].
  - destruct ((st <=? i) && prefixb s (c :: t)) eqn:E.
    + apply andb_prop in E as [E1 E2]. apply Nat.leb_le in E1. rewrite Nat.sub_diag. cbn [skipn].
      repeat split; auto; try (intros; lia).
    + specialize (IH (S i) st). destruct (find_from s t (S i) st) as [n|].
      * destruct IH as (H1 & H2 & H3 & H4 & H5). replace (n - i) with (S (n - S i)) by lia. cbn [skipn length].
        repeat split; try lia; auto. intros k Hk1 Hk2 Hk3.
        destruct (Nat.eq_dec k i) as [->|Hne].
        -- rewrite Nat.sub_diag. cbn [skipn].
           apply andb_false_iff in E as [E|E]; [apply Nat.leb_gt in E; lia | exact E].
        -- replace (k - i) with (S (k - S i)) by lia. cbn [skipn]. apply H5; lia.
      * intros k Hk1 Hk2 Hk3. cbn [length] in Hk3.
        destruct (Nat.eq_dec k i) as [->|Hne].
        -- rewrite Nat.sub_diag. cbn [skipn].
           apply andb_false_iff in E as [E|E]; [apply Nat.leb_gt in E; lia | exact E].
        -- replace (k - i) with (S (k - S i)) by lia. cbn [skipn]. apply IH; lia.
Qed.

(** [find_from s t 0 st] is the least occurrence position >= st *)
Lemma find0_some s t st n : find_from s t 0 st = Some n ->
  st <= n /\ occb s t n = true /\ forall k, st <= k -> k < n -> occb s t k = false.
Proof.
  intros H. pose proof (find_from_spec s t 0 st) as S. rewrite H in S.
  destruct S as (H1 & _ & H3 & H4 & H5). rewrite Nat.sub_0_r in *.
  split; [exact H1|]. split.
  - unfold occb. rewrite H4. apply Nat.leb_le in H3. now rewrite H3.
  - intros k Hk1 Hk2. unfold occb. specialize (H5 k). rewrite Nat.sub_0_r in H5.
    rewrite H5 by lia. apply andb_false_r.
Qed.

Lemma find0_none s t st : find_from s t 0 st = None -> forall k, st <= k -> occb s t k = false.
Proof.
  intros H k Hk. pose proof (find_from_spec s t 0 st) as S. rewrite H in S.
  unfold occb. destruct (Nat.leb_spec k (length t)) as [Hl|Hl]; [|reflexivity].
  specialize (S k). rewrite Nat.sub_0_r in S. rewrite S by lia. reflexivity.
Qed.

(** the least position is unique: [find] is determined by the occurrence predicate *)
Lemma find0_char s t st r :
  match r with
  | Some n => st <= n /\ occb s t n = true /\ forall k, st <= k -> k < n -> occb s t k = false
  | None => forall k, st <= k -> occb s t k = false
  end -> find_from s t 0 st = r.
Proof.
  intros Hr. destruct (find_from s t 0 st) as [n|] eqn:E.
  - apply find0_some in E as (E1 & E2 & E3). destruct r as [n'|].
    + destruct Hr as (R1 & R2 & R3). f_equal.
      destruct (Nat.lt_trichotomy n n') as [H|[H|H]]; [|exact H|].
      * rewrite (R3 n) in E2 by lia. discriminate.
      * rewrite (E3 n') in R2 by lia. discriminate.
    + rewrite (Hr n) in E2 by lia. discriminate.
  - destruct r as [n'|]; [|reflexivity]. destruct Hr as (R1 & R2 & R3).
    rewrite (find0_none _ _ _ E n') in R2 by lia. discriminate.
Qed.

Lemma occb_suffix s x w j : occb s (x ++ w) (length x + j) = occb s w j.
Proof.
  unfold occb. rewrite app_length, skipn_app, (skipn_all2 x) by lia. cbn [app].
  replace (length x + j - length x) with j by lia. f_equal.
  destruct (Nat.leb_spec (length x + j) (length x + length w)), (Nat.leb_spec j (length w)); try reflexivity; lia.
Qed.

Lemma occb_inside s p d k : k + length s <= length p -> occb s (p ++ d) k = occb s p k.
Proof.
  intros H. unfold occb. rewrite app_length.
  replace (k <=? length p + length d) with true by (symmetry; apply Nat.leb_le; lia).
  replace (k <=? length p) with true by (symmetry; apply Nat.leb_le; lia). cbn [andb].
  rewrite skipn_app. replace (k - length p) with 0 by lia. cbn [skipn].
  (* prefixb s (a ++ d) where length s <= length a *)
  assert (G : forall a, length s <= length a -> prefixb s (a ++ d) = prefixb s a).
  { clear. induction s as [|c s IH]; intros a Ha; [reflexivity|].
    destruct a as [|b a]; [cbn in Ha; lia|]. cbn. f_equal. apply IH. cbn in Ha. lia. }
  apply G. rewrite skipn_length. lia.
Qed.
