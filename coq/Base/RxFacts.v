(** Facts about the regex engine of Base/Rx.v: a match never ends before it starts, and
    [rx_search] returns the LEFTMOST start position at or after [pos] (law R for this engine). *)
From Coq Require Import ZArith NArith List Bool Arith Lia.
Import ListNotations.
From PV Require Import Base.Rx.

Section Facts.
  Variable t : list N.

  Definition star_fix (a : rx) (k : nat -> option nat) :=
    fix star (fuel i : nat) {struct fuel} : option nat :=
      match fuel with
      | 0 => k i
      | S f => match m t a i (fun j => if j <=? i then None else star f j) with
               | Some e => Some e
               | None => k i
               end
      end.

  Lemma m_mono : forall r i k e, m t r i k = Some e -> exists j, i <= j /\ k j = Some e.
  Proof.
    induction r as [| c | | neg cs | a IHa b IHb | a IHa b IHb | a IHa | | |]; intros i k e H;
      [cbn [m] in H .. | change (m t (Star a) i k) with (star_fix a k (S (length t - i)) i) in H | cbn [m] in H | cbn [m] in H | cbn [m] in H ].
    - exists i. split; [lia | exact H].
    - destruct (nth_error t i); [|discriminate]. destruct (N.eqb n c); [|discriminate]. exists (S i). split; [lia | exact H].
    - destruct (nth_error t i); [|discriminate]. exists (S i). split; [lia | exact H].
    - destruct (nth_error t i); [|discriminate]. destruct (xorb neg _); [|discriminate]. exists (S i). split; [lia | exact H].
    - apply IHa in H as (j & Hj & H). apply IHb in H as (j' & Hj' & H). exists j'. split; [lia | exact H].
    - destruct (m t a i k) eqn:E.
      + injection H as <-. now apply IHa in E.
      + now apply IHb in H.
    - revert H. generalize (S (length t - i)) as fuel. intros fuel. revert i.
      induction fuel as [|f IHf]; intros i H; cbn [star_fix] in H.
      + exists i. split; [lia | exact H].
      + fold (star_fix a k) in H. destruct (m t a i (fun j => if j <=? i then None else star_fix a k f j)) eqn:E.
        * injection H as <-. apply IHa in E as (j & Hj & E).
          destruct (j <=? i); [discriminate|]. apply IHf in E as (j' & Hj' & E). exists j'. split; [lia | exact E].
        * exists i. split; [lia | exact H].
    - destruct (i =? 0); [|discriminate]. exists i. split; [lia | exact H].
    - destruct (_ || _); [|discriminate]. exists i. split; [lia | exact H].
    - destruct (i =? length t); [|discriminate]. exists i. split; [lia | exact H].
  Qed.

  Lemma match_at_span r i e : match_at t r i = Some e -> i <= e.
  Proof. intros H. apply m_mono in H as (j & Hj & [= <-]). exact Hj. Qed.

  Lemma scan_spec r : forall n i a b, scan t r n i = Some (a, b) ->
    i <= a /\ match_at t r a = Some b /\ forall k, i <= k -> k < a -> match_at t r k = None.
  Proof.
    induction n as [|n IH]; intros i a b H; cbn [scan] in H.
    - destruct (match_at t r i) eqn:E; [|discriminate]. injection H as <- <-. repeat split; auto. intros; lia.
    - destruct (match_at t r i) eqn:E.
      + injection H as <- <-. repeat split; auto. intros; lia.
      + apply IH in H as (H1 & H2 & H3). repeat split; [lia | exact H2 |].
        intros k Hk1 Hk2. destruct (Nat.eq_dec k i) as [->|Hne]; [exact E | apply H3; lia].
  Qed.
End Facts.

Theorem rx_search_spec r t pos a b : rx_search r t pos = Some (a, b) ->
  pos <= a /\ a <= b /\ match_at t r a = Some b /\ forall k, pos <= k -> k < a -> match_at t r k = None.
Proof.
  unfold rx_search. destruct (length t <? pos); [discriminate|]. intros H.
  apply scan_spec in H as (H1 & H2 & H3). repeat split; auto. now apply match_at_span in H2.
Qed.

Corollary rx_search_span r t pos a b : rx_search r t pos = Some (a, b) -> a <= b.
Proof. intros H. now apply rx_search_spec in H. Qed.

(** a literal pattern matches exactly its text *)
Lemma skipn_nth_cons {A} (t : list A) : forall i x, nth_error t i = Some x -> skipn i t = x :: skipn (S i) t.
Proof.
  induction t as [|y t IH]; intros [|i] x H; try discriminate.
  - now injection H as ->.
  - cbn [nth_error] in H. cbn [skipn]. rewrite (IH i x H). reflexivity.
Qed.

Lemma m_lit t : forall s i k e, m t (Lit s) i k = Some e ->
  firstn (length s) (skipn i t) = s /\ k (i + length s) = Some e.
Proof.
  induction s as [|c s IH]; intros i k e H; cbn [Lit m] in H.
  - cbn [length firstn]. now rewrite Nat.add_0_r.
  - destruct (nth_error t i) as [x|] eqn:En; [|discriminate].
    destruct (N.eqb x c) eqn:Ex; [|discriminate]. apply N.eqb_eq in Ex. subst x.
    apply IH in H as [H1 H2]. rewrite (skipn_nth_cons t i c En). cbn [length firstn]. rewrite H1.
    split; [reflexivity|]. now replace (i + S (length s)) with (S i + length s) by lia.
Qed.

Theorem rx_search_lit s t pos a b : rx_search (Lit s) t pos = Some (a, b) ->
  b = a + length s /\ firstn (b - a) (skipn a t) = s.
Proof.
  intros H. apply rx_search_spec in H as (_ & _ & H & _). unfold match_at in H.
  apply m_lit in H as [H1 H2]. injection H2 as <-. split; [reflexivity|].
  now replace (a + length s - a) with (length s) by lia.
Qed.

(** the pattern '.{n}' (DOTALL) of read(n): matches exactly the next n characters, whenever there are n *)
Lemma m_rep_any t : forall n i k, i <= length t ->
  m t (Rep n Any) i k = if i + n <=? length t then k (i + n) else None.
Proof.
  induction n as [|n IH]; intros i k Hi; cbn [Rep m].
  - rewrite Nat.add_0_r. apply Nat.leb_le in Hi. now rewrite Hi.
  - destruct (nth_error t i) as [x|] eqn:En.
    + assert (Hlt : i < length t) by (apply nth_error_Some; congruence).
      rewrite IH by lia. now replace (S i + n) with (i + S n) by lia.
    + apply nth_error_None in En. destruct (i + S n <=? length t) eqn:E; [apply Nat.leb_le in E; lia | reflexivity].
Qed.

Theorem rx_search_dot n t a b : rx_search (Rep n Any) t 0 = Some (a, b) -> a = 0 /\ b = n /\ n <= length t.
Proof.
  intros H. apply rx_search_spec in H as (_ & _ & H & Hleft). unfold match_at in *.
  assert (Ha : a <= length t).
  { destruct (Nat.le_gt_cases a (length t)) as [L|G]; [exact L|]. exfalso.
    destruct n as [|n]; cbn [Rep m] in H.
    - specialize (Hleft 0 (Nat.le_0_l _)). cbn [Rep m] in Hleft. assert (0 < a) by lia. specialize (Hleft H0). discriminate.
    - assert (E : nth_error t a = None) by (apply nth_error_None; lia). rewrite E in H. discriminate. }
  rewrite m_rep_any in H by exact Ha. destruct (a + n <=? length t) eqn:E; [|discriminate]. apply Nat.leb_le in E.
  injection H as <-. destruct a as [|a]; [repeat split; lia|]. exfalso.
  specialize (Hleft 0 (Nat.le_0_l _) (Nat.lt_0_succ _)). rewrite m_rep_any in Hleft by lia.
  replace (0 + n <=? length t) with true in Hleft by (symmetry; apply Nat.leb_le; lia). discriminate.
Qed.
