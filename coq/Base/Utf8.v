(** UTF-8 encoding of a code-point list (used where the code encodes text: pattern coercion, send). *)
From Coq Require Import NArith List.
Import ListNotations.
Local Open Scope N_scope.

Definition utf8_char (c : N) : list N :=
  if c <? 128 then [c]
  else if c <? 2048 then [192 + c / 64; 128 + c mod 64]
  else if c <? 65536 then [224 + c / 4096; 128 + (c / 64) mod 64; 128 + c mod 64]
  else [240 + c / 262144; 128 + (c / 4096) mod 64; 128 + (c / 64) mod 64; 128 + c mod 64].
Definition utf8_encode (t : list N) : list N := flat_map utf8_char t.
Definition is_ascii (t : list N) : bool := forallb (fun c => c <? 128) t.
