(** C15: model of spawn.interact / __interact_copy (pty_spawn.py): flush pending output, then copy child output to
    stdout (through output_filter) and keystrokes to the child (through input_filter) until the escape character is
    typed or the child's output ends; the terminal mode is restored in a finally clause. *)
From Coq Require Import ZArith NArith List Bool Arith.
Import ListNotations.

Definition text := list N.

Inductive iev := ChildOut (d : text) | ChildEof | Typed (d : text)
               | ChildExit.      (* the child terminates: the next isalive() says so *)

(** data[:data.find(esc)] : the part before the FIRST escape character, if there is one *)
Fixpoint before_esc (esc : N) (d : text) : text * bool :=
  match d with
  | [] => ([], false)
  | c :: r => if N.eqb c esc then ([], true) else let '(p, f) := before_esc esc r in (c :: p, f)
  end.

Record iout := { to_stdout : text; to_child : text; log_read : list text; log_send : list text;
                 escaped : bool; child_eof : bool; mode_restored : bool }.

Section Interact.
  Variable esc : option N.
  Variable fin fout : text -> text.           (* input_filter / output_filter (identity when not given) *)

  (** the copy loop while the child stays alive (no ChildExit event takes effect): the reference for [copy] below *)
  Fixpoint copy_live (evs : list iev) (o : iout) : iout :=
    match evs with
    | [] => o                                   (* nothing more happens: the script is over *)
    | ChildExit :: r => copy_live r o
    | ChildOut d :: r =>
        let d' := fout d in
        copy_live r {| to_stdout := to_stdout o ++ d'; to_child := to_child o; log_read := log_read o ++ [d']; log_send := log_send o;
                  escaped := false; child_eof := false; mode_restored := false |}
    | ChildEof :: _ => {| to_stdout := to_stdout o; to_child := to_child o; log_read := log_read o; log_send := log_send o;
                          escaped := false; child_eof := true; mode_restored := false |}
    | Typed d :: r =>
        let d' := fin d in
        match esc with
        | Some e =>
            let '(p, found) := before_esc e d' in
            if found then {| to_stdout := to_stdout o; to_child := to_child o ++ p; log_read := log_read o;
                             log_send := log_send o ++ (match p with [] => [] | _ => [p] end);
                             escaped := true; child_eof := false; mode_restored := false |}
            else copy_live r {| to_stdout := to_stdout o; to_child := to_child o ++ d'; log_read := log_read o; log_send := log_send o ++ [d'];
                           escaped := false; child_eof := false; mode_restored := false |}
        | None => copy_live r {| to_stdout := to_stdout o; to_child := to_child o ++ d'; log_read := log_read o; log_send := log_send o ++ [d'];
                            escaped := false; child_eof := false; mode_restored := false |}
        end
    end.


  (** the part of a typed chunk that is to be forwarded, and whether the escape character was in it *)
  Definition cut (d' : text) : text * bool :=
    match esc with Some e => before_esc e d' | None => (d', false) end.

  (** __interact_copy (pty_spawn.py:837-880) with the liveness checks: isalive() is consulted at the top of every iteration
      and before every write towards the child; once the child is gone only its descriptor is watched, without waiting:
      what it had written is still copied, keystrokes are left alone, and the loop ends when nothing is readable *)
  Fixpoint copy (alive : bool) (evs : list iev) (o : iout) : iout :=
    match evs with
    | [] => o
    | ChildExit :: r => copy false r o
    | ChildOut d :: r =>
        let d' := fout d in
        copy alive r {| to_stdout := to_stdout o ++ d'; to_child := to_child o; log_read := log_read o ++ [d']; log_send := log_send o;
                        escaped := false; child_eof := false; mode_restored := false |}
    | ChildEof :: _ => {| to_stdout := to_stdout o; to_child := to_child o; log_read := log_read o; log_send := log_send o;
                          escaped := false; child_eof := true; mode_restored := false |}
    | Typed d :: r =>
        if negb alive then o                       (* stdin is not watched any more: nothing is readable, the loop ends *)
        else
          let '(p, found) := cut (fin d) in
          let lg := if found then (match p with [] => [] | _ => [p] end) else [p] in
          let mk := fun (w : text) => {| to_stdout := to_stdout o; to_child := to_child o ++ w; log_read := log_read o; log_send := log_send o ++ lg;
                                         escaped := found; child_eof := false; mode_restored := false |} in
          (* the write loop `while data and self.isalive()`: a child that has just gone gets nothing *)
          match p, r with
          | _ :: _, ChildExit :: r' => if found then mk [] else copy false r' (mk [])
          | _, _ => if found then mk p else copy true r (mk p)
          end
    end.

  (** interact(): pending output first; tcsetattr in the finally clause on every exit path *)
  Definition interact (pending : text) (evs : list iev) : iout :=
    let o := copy true evs {| to_stdout := pending; to_child := []; log_read := []; log_send := []; escaped := false; child_eof := false;
                          mode_restored := false |} in
    {| to_stdout := to_stdout o; to_child := to_child o; log_read := log_read o; log_send := log_send o;
       escaped := escaped o; child_eof := child_eof o; mode_restored := true |}.
End Interact.
