(** C15: model of spawn.interact / __interact_copy (pty_spawn.py): flush pending output, then copy child output to
    stdout (through output_filter) and keystrokes to the child (through input_filter) until the escape character is
    typed or the child's output ends; the terminal mode is restored in a finally clause. *)
From Coq Require Import ZArith NArith List Bool Arith.
Import ListNotations.

Definition text := list N.

Inductive iev := ChildOut (d : text) | ChildEof | Typed (d : text).

(** data[:data.find(esc)] : the part before the FIRST escape character, if there is one *)
Fixpoint before_esc (esc : N) (d : text) : text * bool :=
  match d with
  | [] => ([], false)
  | c :: r => if N.eqb c esc then ([], true) else let '(p, f) := before_esc esc r in (c :: p, f)
  end.

Record iout := { to_stdout : text; to_child : text; log_read : list text; log_send : list text;
                 escaped : bool; child_eof : bool; mode_restored : bool }.

Section Interact.
  Variable esc : option N.
  Variable fin fout : text -> text.           (* input_filter / output_filter (identity when not given) *)

  Fixpoint copy (evs : list iev) (o : iout) : iout :=
    match evs with
    | [] => o                                   (* the child is no longer alive: the loop ends *)
    | ChildOut d :: r =>
        let d' := fout d in
        copy r {| to_stdout := to_stdout o ++ d'; to_child := to_child o; log_read := log_read o ++ [d']; log_send := log_send o;
                  escaped := false; child_eof := false; mode_restored := false |}
    | ChildEof :: _ => {| to_stdout := to_stdout o; to_child := to_child o; log_read := log_read o; log_send := log_send o;
                          escaped := false; child_eof := true; mode_restored := false |}
    | Typed d :: r =>
        let d' := fin d in
        match esc with
        | Some e =>
            let '(p, found) := before_esc e d' in
            if found then {| to_stdout := to_stdout o; to_child := to_child o ++ p; log_read := log_read o;
                             log_send := log_send o ++ (match p with [] => [] | _ => [p] end);
                             escaped := true; child_eof := false; mode_restored := false |}
            else copy r {| to_stdout := to_stdout o; to_child := to_child o ++ d'; log_read := log_read o; log_send := log_send o ++ [d'];
                           escaped := false; child_eof := false; mode_restored := false |}
        | None => copy r {| to_stdout := to_stdout o; to_child := to_child o ++ d'; log_read := log_read o; log_send := log_send o ++ [d'];
                            escaped := false; child_eof := false; mode_restored := false |}
        end
    end.

  (** interact(): pending output first; tcsetattr in the finally clause on every exit path *)
  Definition interact (pending : text) (evs : list iev) : iout :=
    let o := copy evs {| to_stdout := pending; to_child := []; log_read := []; log_send := []; escaped := false; child_eof := false;
                          mode_restored := false |} in
    {| to_stdout := to_stdout o; to_child := to_child o; log_read := log_read o; log_send := log_send o;
       escaped := escaped o; child_eof := child_eof o; mode_restored := true |}.
End Interact.
