From Coq Require Import ZArith NArith List Bool Arith Lia.
Import ListNotations.
From PV Require Import Interact.Model.

(** the events up to the one that ends the session *)
Fixpoint session (esc : option N) (fin : text -> text) (evs : list iev) : list iev :=
  match evs with
  | [] => []
  | ChildEof :: _ => []
  | Typed d :: r => match esc with
                    | Some e => if snd (before_esc e (fin d)) then [Typed d] else Typed d :: session esc fin r
                    | None => Typed d :: session esc fin r
                    end
  | x :: r => x :: session esc fin r
  end.

Definition outs (fout : text -> text) (evs : list iev) : text := flat_map (fun e => match e with ChildOut d => fout d | _ => [] end) evs.
Definition typed (fin : text -> text) (evs : list iev) : text := flat_map (fun e => match e with Typed d => fin d | _ => [] end) evs.

Lemma before_esc_app esc a b : before_esc esc (a ++ b) =
  if snd (before_esc esc a) then before_esc esc a
  else (a ++ fst (before_esc esc b), snd (before_esc esc b)).
Proof.
  induction a as [|c a IH]; cbn [app before_esc].
  - destruct (before_esc esc b). reflexivity.
  - destruct (N.eqb c esc); [reflexivity|]. rewrite IH. destruct (before_esc esc a) as [p f]. cbn [snd fst].
    destruct f; [reflexivity|]. destruct (before_esc esc b). reflexivity.
Qed.
Lemma before_esc_none esc a : snd (before_esc esc a) = false -> fst (before_esc esc a) = a.
Proof.
  induction a as [|c a IH]; cbn [before_esc]; [reflexivity|]. destruct (N.eqb c esc); [discriminate|].
  destruct (before_esc esc a) as [p f]. cbn [fst snd] in *. intros H. now rewrite IH.
Qed.

Section Facts.
  Variable esc : option N.
  Variable fin fout : text -> text.

  (** stdout gets the pending output, then every chunk of child output (through output_filter), in order, up to the end
      of the session; the child gets the typed chunks (through input_filter), in order, cut just before the FIRST escape
      character - whatever the chunking *)
  Theorem copy_spec : forall evs o, escaped o = false ->
    let r := copy esc fin fout evs o in
    to_stdout r = to_stdout o ++ outs fout (session esc fin evs) /\
    to_child r = to_child o ++ (match esc with
                               | Some e => fst (before_esc e (typed fin (session esc fin evs)))
                               | None => typed fin (session esc fin evs)
                               end) /\
    (escaped r = true <-> exists e, esc = Some e /\ snd (before_esc e (typed fin (session esc fin evs))) = true).
  Proof.
    induction evs as [|ev evs IH]; intros o Ho; cbn [copy session].
    - cbn [outs typed flat_map]. rewrite Ho. destruct esc; cbn; rewrite !app_nil_r; repeat split; auto; try discriminate.
      + intros (e & [= <-] & H). discriminate.
      + intros (e & H & _). discriminate.
    - destruct ev as [d| |d].
      + (* child output *)
        specialize (IH {| to_stdout := to_stdout o ++ fout d; to_child := to_child o; log_read := log_read o ++ [fout d];
                          log_send := log_send o; escaped := false; child_eof := false; mode_restored := false |} eq_refl).
        cbn [to_stdout to_child escaped] in IH. destruct IH as (I1 & I2 & I3).
        cbn [outs typed flat_map]. fold (outs fout (session esc fin evs)). fold (typed fin (session esc fin evs)).
        split; [now rewrite I1, <- app_assoc|]. split; [exact I2 | exact I3].
      + (* the child's output ended *)
        cbn [outs typed flat_map to_stdout to_child escaped]. destruct esc; cbn; rewrite !app_nil_r; repeat split; auto; try discriminate.
        * intros (e & [= <-] & H). discriminate.
        * intros (e & H & _). discriminate.
      + (* keystrokes *)
        destruct esc as [e|].
        * destruct (before_esc e (fin d)) as [p found] eqn:E. destruct found; cbn [snd].
          -- cbn [outs typed flat_map to_stdout to_child escaped app]. rewrite !app_nil_r, E. cbn [fst snd].
             repeat split; auto. intros _. exists e. rewrite E. auto.
          -- specialize (IH {| to_stdout := to_stdout o; to_child := to_child o ++ fin d; log_read := log_read o;
                               log_send := log_send o ++ [fin d]; escaped := false; child_eof := false; mode_restored := false |} eq_refl).
             cbn [to_stdout to_child escaped] in IH. destruct IH as (I1 & I2 & I3).
             cbn [outs typed flat_map]. fold (outs fout (session (Some e) fin evs)). fold (typed fin (session (Some e) fin evs)).
             rewrite before_esc_app, E. cbv iota beta. cbn [snd fst].
             split; [exact I1|]. split; [now rewrite I2, <- app_assoc|].
             split.
             ++ intros H. apply I3 in H as (e' & [= <-] & H). exists e. split; [reflexivity|].
                rewrite before_esc_app, E. exact H.
             ++ intros (e' & [= <-] & H). apply I3. exists e. split; [reflexivity|].
                rewrite before_esc_app, E in H. exact H.
        * specialize (IH {| to_stdout := to_stdout o; to_child := to_child o ++ fin d; log_read := log_read o;
                            log_send := log_send o ++ [fin d]; escaped := false; child_eof := false; mode_restored := false |} eq_refl).
          cbn [to_stdout to_child escaped] in IH. destruct IH as (I1 & I2 & I3).
          cbn [outs typed flat_map]. fold (outs fout (session None fin evs)). fold (typed fin (session None fin evs)).
          split; [exact I1|]. split; [now rewrite I2, <- app_assoc|].
          split; [intros H; apply I3 in H as (e & H & _); discriminate | intros (e & H & _); discriminate].
  Qed.

  (** interact(): pending output first; whatever ends the session the terminal mode is restored *)
  Theorem interact_spec pending evs :
    let r := interact esc fin fout pending evs in
    to_stdout r = pending ++ outs fout (session esc fin evs) /\
    to_child r = (match esc with
                  | Some e => fst (before_esc e (typed fin (session esc fin evs)))
                  | None => typed fin (session esc fin evs)
                  end) /\
    mode_restored r = true.
  Proof.
    unfold interact. cbv zeta. cbn [to_stdout to_child mode_restored].
    destruct (copy_spec evs {| to_stdout := pending; to_child := []; log_read := []; log_send := []; escaped := false; child_eof := false;
                               mode_restored := false |} eq_refl) as (A & B & _).
    cbn [to_stdout to_child] in *. auto.
  Qed.

  (** nothing typed after the escape character - and not the escape character itself - reaches the child *)
  Theorem nothing_after_escape e d : esc = Some e -> ~ In e (fst (before_esc e d)).
  Proof.
    intros _. induction d as [|c d IH]; cbn [before_esc]; [intros []|].
    destruct (N.eqb_spec c e); [intros []|]. destruct (before_esc e d) as [p f]. cbn [fst] in *. intros [H|H]; [congruence | now apply IH].
  Qed.
End Facts.
