From Coq Require Import ZArith NArith List Bool Arith Lia.
Import ListNotations.
From PV Require Import Interact.Model.

(** the events up to the one that ends the session *)
Fixpoint session (esc : option N) (fin : text -> text) (evs : list iev) : list iev :=
  match evs with
  | [] => []
  | ChildEof :: _ => []
  | Typed d :: r => match esc with
                    | Some e => if snd (before_esc e (fin d)) then [Typed d] else Typed d :: session esc fin r
                    | None => Typed d :: session esc fin r
                    end
  | x :: r => x :: session esc fin r
  end.

Definition outs (fout : text -> text) (evs : list iev) : text := flat_map (fun e => match e with ChildOut d => fout d | _ => [] end) evs.
Definition typed (fin : text -> text) (evs : list iev) : text := flat_map (fun e => match e with Typed d => fin d | _ => [] end) evs.

Lemma before_esc_app esc a b : before_esc esc (a ++ b) =
  if snd (before_esc esc a) then before_esc esc a
  else (a ++ fst (before_esc esc b), snd (before_esc esc b)).
Proof.
  induction a as [|c a IH]; cbn [app before_esc].
  - destruct (before_esc esc b). reflexivity.
  - destruct (N.eqb c esc); [reflexivity|]. rewrite IH. destruct (before_esc esc a) as [p f]. cbn [snd fst].
    destruct f; [reflexivity|]. destruct (before_esc esc b). reflexivity.
Qed.
Lemma before_esc_none esc a : snd (before_esc esc a) = false -> fst (before_esc esc a) = a.
Proof.
  induction a as [|c a IH]; cbn [before_esc]; [reflexivity|]. destruct (N.eqb c esc); [discriminate|].
  destruct (before_esc esc a) as [p f]. cbn [fst snd] in *. intros H. now rewrite IH.
Qed.

Section Facts.
  Variable esc : option N.
  Variable fin fout : text -> text.

  (** stdout gets the pending output, then every chunk of child output (through output_filter), in order, up to the end
      of the session; the child gets the typed chunks (through input_filter), in order, cut just before the FIRST escape
      character - whatever the chunking *)
  Theorem copy_spec : forall evs o, escaped o = false ->
    let r := copy_live esc fin fout evs o in
    to_stdout r = to_stdout o ++ outs fout (session esc fin evs) /\
    to_child r = to_child o ++ (match esc with
                               | Some e => fst (before_esc e (typed fin (session esc fin evs)))
                               | None => typed fin (session esc fin evs)
                               end) /\
    (escaped r = true <-> exists e, esc = Some e /\ snd (before_esc e (typed fin (session esc fin evs))) = true).
  Proof.
    induction evs as [|ev evs IH]; intros o Ho; cbn [copy_live session].
    - cbn [outs typed flat_map]. rewrite Ho. destruct esc; cbn; rewrite !app_nil_r; repeat split; auto; try discriminate.
      + intros (e & [= <-] & H). discriminate.
      + intros (e & H & _). discriminate.
    - destruct ev as [d| |d|].
      4: { (* the child terminates: of no consequence while nothing looks *)
           specialize (IH o Ho). cbn [outs typed flat_map]. cbn [app]. exact IH. }
      + (* child output *)
        specialize (IH {| to_stdout := to_stdout o ++ fout d; to_child := to_child o; log_read := log_read o ++ [fout d];
                          log_send := log_send o; escaped := false; child_eof := false; mode_restored := false |} eq_refl).
        cbn [to_stdout to_child escaped] in IH. destruct IH as (I1 & I2 & I3).
        cbn [outs typed flat_map]. fold (outs fout (session esc fin evs)). fold (typed fin (session esc fin evs)).
        split; [now rewrite I1, <- app_assoc|]. split; [exact I2 | exact I3].
      + (* the child's output ended *)
        cbn [outs typed flat_map to_stdout to_child escaped]. destruct esc; cbn; rewrite !app_nil_r; repeat split; auto; try discriminate.
        * intros (e & [= <-] & H). discriminate.
        * intros (e & H & _). discriminate.
      + (* keystrokes *)
        destruct esc as [e|].
        * destruct (before_esc e (fin d)) as [p found] eqn:E. destruct found; cbn [snd].
          -- cbn [outs typed flat_map to_stdout to_child escaped app]. rewrite !app_nil_r, E. cbn [fst snd].
             repeat split; auto. intros _. exists e. rewrite E. auto.
          -- specialize (IH {| to_stdout := to_stdout o; to_child := to_child o ++ fin d; log_read := log_read o;
                               log_send := log_send o ++ [fin d]; escaped := false; child_eof := false; mode_restored := false |} eq_refl).
             cbn [to_stdout to_child escaped] in IH. destruct IH as (I1 & I2 & I3).
             cbn [outs typed flat_map]. fold (outs fout (session (Some e) fin evs)). fold (typed fin (session (Some e) fin evs)).
             rewrite before_esc_app, E. cbv iota beta. cbn [snd fst].
             split; [exact I1|]. split; [now rewrite I2, <- app_assoc|].
             split.
             ++ intros H. apply I3 in H as (e' & [= <-] & H). exists e. split; [reflexivity|].
                rewrite before_esc_app, E. exact H.
             ++ intros (e' & [= <-] & H). apply I3. exists e. split; [reflexivity|].
                rewrite before_esc_app, E in H. exact H.
        * specialize (IH {| to_stdout := to_stdout o; to_child := to_child o ++ fin d; log_read := log_read o;
                            log_send := log_send o ++ [fin d]; escaped := false; child_eof := false; mode_restored := false |} eq_refl).
          cbn [to_stdout to_child escaped] in IH. destruct IH as (I1 & I2 & I3).
          cbn [outs typed flat_map]. fold (outs fout (session None fin evs)). fold (typed fin (session None fin evs)).
          split; [exact I1|]. split; [now rewrite I2, <- app_assoc|].
          split; [intros H; apply I3 in H as (e & H & _); discriminate | intros (e & H & _); discriminate].
  Qed.

  (** -- with the child's death in the picture ----------------------------------------------------------------- *)
  (** the events the loop processes: it stops at the escape character, at the end of the child's output, or - once the
      child is gone - as soon as no output of the child is readable *)
  Fixpoint lsession (alive : bool) (evs : list iev) : list iev :=
    match evs with
    | [] => []
    | ChildExit :: r => ChildExit :: lsession false r
    | ChildEof :: _ => []
    | ChildOut d :: r => ChildOut d :: lsession alive r
    | Typed d :: r =>
        if negb alive then []
        else let '(p, found) := cut esc (fin d) in
             if found then [Typed d]
             else match p, r with
                  | _ :: _, ChildExit :: r' => Typed d :: ChildExit :: lsession false r'
                  | _, _ => Typed d :: lsession true r
                  end
    end.

  (** every chunk of child output the loop reads is written to stdout, in order - also what the child wrote before it exited *)
  Theorem copy_stdout : forall evs alive o,
    to_stdout (copy esc fin fout alive evs o) = to_stdout o ++ outs fout (lsession alive evs).
  Proof.
    induction evs as [|ev evs IH]; intros alive o; cbn [copy lsession].
    - cbn. now rewrite app_nil_r.
    - destruct ev as [d| |d|].
      + rewrite IH. cbn [to_stdout outs flat_map]. fold (outs fout (lsession alive evs)). now rewrite <- app_assoc.
      + cbn. now rewrite app_nil_r.
      + destruct alive; cbn [negb]; [|cbn; now rewrite app_nil_r].
        destruct (cut esc (fin d)) as [p found]. destruct found.
        * destruct p as [|c p]; [|destruct evs as [|[| | |] evs']]; cbn; now rewrite app_nil_r.
        * destruct p as [|c p].
          -- rewrite IH. cbn [to_stdout outs flat_map app]. reflexivity.
          -- destruct evs as [|[d2| |d2|] evs'].
             ++ cbn. now rewrite app_nil_r.
             ++ rewrite IH. reflexivity.
             ++ rewrite IH. reflexivity.
             ++ rewrite IH. reflexivity.
             ++ (* the child exits before the keystrokes are written *)
                assert (IH' : forall o, to_stdout (copy esc fin fout false evs' o) = to_stdout o ++ outs fout (lsession false evs')).
                { intros o0. specialize (IH true o0). cbn [copy lsession] in IH. exact IH. }
                rewrite IH'. reflexivity.
      + rewrite IH. reflexivity.
  Qed.

  (** once the child is gone, all the output it had written (every chunk readable before anything else happens) is still copied *)
  Theorem drained_after_exit ds rest : lsession false (map ChildOut ds ++ rest) = map ChildOut ds ++ lsession false rest.
  Proof. induction ds as [|d ds IH]; cbn [map app lsession]; [reflexivity | now rewrite IH]. Qed.

  (** while the child lives the loop is the simple copy loop above *)
  Theorem copy_alive_is_copy_live : forall evs o, Forall (fun e => e <> ChildExit) evs ->
    copy esc fin fout true evs o = copy_live esc fin fout evs o.
  Proof.
    induction evs as [|ev evs IH]; intros o H; [reflexivity|].
    inversion H as [|? ? Hev Hr]; subst. destruct ev as [d| |d|]; cbn [copy copy_live negb].
    - now apply IH.
    - reflexivity.
    - unfold cut. destruct esc as [e|].
      + destruct (before_esc e (fin d)) as [p found] eqn:E. destruct found.
        * destruct p as [|c p]; [reflexivity|]. destruct evs as [|[| | |] evs']; try reflexivity.
          inversion Hr as [|? ? H1 _]; congruence.
        * assert (Hp : p = fin d) by (pose proof (before_esc_none e (fin d)) as B; rewrite E in B; exact (B eq_refl)).
          rewrite <- Hp. destruct p as [|c p]; [now apply IH|]. destruct evs as [|[d2| |d2|] evs']; try (now apply IH).
          inversion Hr as [|? ? H1 _]; congruence.
      + destruct (fin d) as [|c p] eqn:Ef; [now apply IH|]. destruct evs as [|[d2| |d2|] evs']; try (now apply IH).
        inversion Hr as [|? ? H1 _]; congruence.
    - congruence.
  Qed.

  (** interact(): pending output first, then everything the loop reads from the child; the terminal mode is restored whatever
      ends the session *)
  Theorem interact_stdout pending evs :
    let r := interact esc fin fout pending evs in
    to_stdout r = pending ++ outs fout (lsession true evs) /\ mode_restored r = true.
  Proof. unfold interact. cbv zeta. cbn [to_stdout mode_restored]. rewrite copy_stdout. cbn [to_stdout]. auto. Qed.

  (** ... and, as long as the child lives, the full two-way statement *)
  Theorem interact_spec pending evs : Forall (fun e => e <> ChildExit) evs ->
    let r := interact esc fin fout pending evs in
    to_stdout r = pending ++ outs fout (session esc fin evs) /\
    to_child r = (match esc with
                  | Some e => fst (before_esc e (typed fin (session esc fin evs)))
                  | None => typed fin (session esc fin evs)
                  end) /\
    mode_restored r = true.
  Proof.
    intros Hne. unfold interact. cbv zeta. cbn [to_stdout to_child mode_restored]. rewrite (copy_alive_is_copy_live evs _ Hne).
    destruct (copy_spec evs {| to_stdout := pending; to_child := []; log_read := []; log_send := []; escaped := false; child_eof := false;
                               mode_restored := false |} eq_refl) as (A & B & _).
    cbn [to_stdout to_child] in *. auto.
  Qed.

  (** whatever the child's fate: the escape character never reaches it *)
  Theorem escape_never_forwarded e : esc = Some e -> forall evs alive o, ~ In e (to_child o) ->
    ~ In e (to_child (copy esc fin fout alive evs o)).
  Proof.
    intros He. rewrite He. assert (NE : forall d, ~ In e (fst (before_esc e d))).
    { induction d as [|c d IH]; cbn [before_esc]; [intros []|].
      destruct (N.eqb_spec c e); [intros []|]. destruct (before_esc e d) as [p f]. cbn [fst] in *. intros [H|H]; [congruence | now apply IH]. }
    induction evs as [|ev evs IH]; intros alive o Ho; cbn [copy]; [exact Ho|].
    destruct ev as [d| |d|].
    - apply IH. exact Ho.
    - exact Ho.
    - destruct alive; cbn [negb]; [|exact Ho]. unfold cut. pose proof (NE (fin d)) as Hp.
      destruct (before_esc e (fin d)) as [p found]. cbn [fst] in Hp.
      assert (A1 : ~ In e (to_child o ++ p)) by (intros H; apply in_app_or in H as [H|H]; auto).
      assert (A0 : ~ In e (to_child o ++ [])) by now rewrite app_nil_r.
      destruct found.
      + destruct p as [|c p]; [exact A1|]. destruct evs as [|[| | |] evs']; cbn [to_child]; auto.
      + destruct p as [|c p]; [apply IH; exact A1|]. destruct evs as [|[d2| |d2|] evs']; try (apply IH; exact A1).
        specialize (IH true). cbn [copy] in IH. apply IH. exact A0.
    - apply IH. exact Ho.
  Qed.

  (** nothing typed after the escape character - and not the escape character itself - reaches the child *)
  Theorem nothing_after_escape e d : esc = Some e -> ~ In e (fst (before_esc e d)).
  Proof.
    intros _. induction d as [|c d IH]; cbn [before_esc]; [intros []|].
    destruct (N.eqb_spec c e); [intros []|]. destruct (before_esc e d) as [p f]. cbn [fst] in *. intros [H|H]; [congruence | now apply IH].
  Qed.
End Facts.
