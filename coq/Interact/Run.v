From Coq Require Import ZArith NArith List Bool.
Import ListNotations.
From PV Require Import Base.V Interact.Model.
(** filters as data: 0 = none, 1 = ASCII upper-casing of a..z (a per-character map) *)
(** filters as data: 0 = none, 1 = ASCII upper-casing of a..z, 2 = swallow every chunk that contains 'x' *)
Definition filt (k : nat) (d : list N) : list N :=
  match k with
  | 0 => d
  | 1 => map (fun c => if (N.leb 97 c && N.leb c 122)%bool then (c - 32)%N else c) d
  | _ => if existsb (N.eqb 120) d then [] else d
  end.
Definition run_interact (c : option N * nat * nat * list N * list iev) : V :=
  match c with (esc, fi, fo, pending, evs) =>
    let r := interact esc (filt fi) (filt fo) pending evs in
    VL [vtext (to_stdout r); vtext (to_child r); vbool (mode_restored r)]
  end.
