(** expect() end to end (Compose/Model.v): the lazily driven Expecter IS the list-driven Expecter of Expect/Model.v on exactly
    the reads that were made, so the theorems of both layers compose: conservation from the kernel to the caller (C01), EOF
    reported only when the stream has really ended, with everything delivered (C04, C06). *)
From Coq Require Import ZArith NArith List Bool Arith Lia.
Import ListNotations.
From PV Require Import Base.PySeq Expect.Model Expect.Spec Expect.Refine Expect.SpecFacts.
From PV Require Transport.Model Transport.Proofs.
From PV Require Import Compose.Model.
Module TP := PV.Transport.Proofs.

Section Facts.
  Variable rx : Type.
  Variable re_search : rx -> text -> nat -> option (nat * nat).
  Variable rd : T.kern -> T.sched -> nat -> T.res * T.kern * T.sched.
  Variable maxread : nat.
  Hypothesis re_span : forall r t p a b, re_search r t p = Some (a, b) -> a <= b.
  (** the transport's read respects C06 (proved for pty_read, fd_read, sock_read in Transport/Proofs.v) *)
  Hypothesis rd_ok : forall size k s, TP.ok_from size k [] (rd k s size).

  Notation drive := (drive rx re_search rd maxread).
  Notation expect_over := (expect_over rx re_search rd maxread).
  Notation calls_over := (calls_over rx re_search rd maxread).
  Notation loop := (loop rx re_search).
  Notation expect_loop := (expect_loop rx re_search).

  Lemma data_of_map rs : data_of (map ev_of rs) = flat_map T.data_of rs.
  Proof.
    induction rs as [|x rs IH]; [reflexivity|]. cbn [map]. unfold data_of in *. cbn [flat_map]. rewrite IH. destruct x; reflexivity.
  Qed.

  (** the lazily driven loop makes n >= 1 reads and behaves as the list-driven loop on exactly those reads, all consumed *)
  Lemma drive_is_loop c t0 : forall fuel s k sc r s' k' sc', drive fuel c t0 s k sc = Done r s' k' sc' ->
    exists n rs, TP.reads rd (repeat maxread (S n)) k sc = (rs, k', sc') /\ loop c t0 s (map ev_of rs) = (r, s', []).
  Proof.
    induction fuel as [|f IH]; intros s k sc r s' k' sc' H; cbn [Model.drive] in H; [discriminate|].
    destruct (rd k sc maxread) as [[x k1] sc1] eqn:E.
    assert (ONE : TP.reads rd (repeat maxread 1) k sc = ([x], k1, sc1)) by (cbn [repeat TP.reads]; now rewrite E).
    destruct x as [d| | |].
    - destruct (new_data rx re_search c s d) as [[r0|] s0] eqn:N.
      + injection H as <- <- <- <-. exists 0, [T.RData d]. split; [exact ONE|]. cbn [map ev_of Expect.Model.loop]. now rewrite N.
      + destruct t0.
        * injection H as <- <- <- <-. exists 0, [T.RData d]. split; [exact ONE|]. cbn [map ev_of Expect.Model.loop]. rewrite N. reflexivity.
        * destruct (IH s0 k1 sc1 r s' k' sc' H) as (n & rs & R & L). exists (S n), (T.RData d :: rs). split.
          -- change (repeat maxread (S (S n))) with (maxread :: repeat maxread (S n)). cbn [TP.reads]. rewrite E, R. reflexivity.
          -- cbn [map ev_of Expect.Model.loop]. rewrite N. exact L.
    - injection H as <- <- <- <-. exists 0, [T.REof]. split; [exact ONE | reflexivity].
    - injection H as <- <- <- <-. exists 0, [T.RTimeout]. split; [exact ONE | reflexivity].
    - injection H as <- <- <- <-. exists 0, [T.RBlocked]. split; [exact ONE | reflexivity].
  Qed.

  (** ... and so does a whole call (pending text is searched first: then no read is made at all) *)
  Theorem expect_over_is_expect_loop c t0 fuel s k sc r s' k' sc' : expect_over fuel c t0 s k sc = Done r s' k' sc' ->
    exists n rs, TP.reads rd (repeat maxread n) k sc = (rs, k', sc') /\ expect_loop c t0 s (map ev_of rs) = (r, s', []).
  Proof.
    unfold Model.expect_over, Expect.Model.expect_loop. destruct (existing_data rx re_search c s) as [[x|] s0] eqn:EE.
    - intros [= <- <- <- <-]. exists 0, []. split; reflexivity.
    - intros H. destruct (drive_is_loop c t0 fuel s0 k sc r s' k' sc' H) as (n & rs & R & L). exists (S n), rs. auto.
  Qed.

  (** C01 from the kernel to the caller: what the call hands back, then what is pending in the object, then what the kernel
      still holds, is what was pending, what the kernel held, and what the peer wrote meanwhile *)
  Theorem expect_over_conserves c t0 fuel s k sc r s' k' sc' : wfW rx c -> Inv s ->
    expect_over fuel c t0 s k sc = Done r s' k' sc' ->
    Inv s' /\ exists w, handed r ++ pend s' ++ T.kbuf k' = pend s ++ T.kbuf k ++ w.
  Proof.
    intros Hwf HI H. destruct (expect_over_is_expect_loop c t0 fuel s k sc r s' k' sc' H) as (n & rs & R & L).
    pose proof (call_conserves rx re_search re_span c t0 s (map ev_of rs) Hwf HI) as C. rewrite L in C.
    destruct C as (used & Hu & HC & HI' & _). rewrite app_nil_r in Hu. subst used. rewrite data_of_map in HC.
    pose proof (TP.reads_conserve rd rd_ok (repeat maxread n) k sc) as RC. rewrite R in RC. destruct RC as [[w Hw] _].
    split; [exact HI'|]. exists w. rewrite app_assoc, HC, <- app_assoc, Hw. reflexivity.
  Qed.

  (** C04 / C06 end to end: a call reports EOF only when the kernel holds nothing more and the peer is gone; before is then all
      the text that was pending or arrived, and nothing is left pending *)
  Lemma drive_eof c t0 : forall fuel s k sc i b s' k' sc', drive fuel c t0 s k sc = Done (AtEof i b) s' k' sc' ->
    T.kbuf k' = [] /\ TP.gone k'.
  Proof.
    induction fuel as [|f IH]; intros s k sc i b s' k' sc' H; cbn [Model.drive] in H; [discriminate|].
    pose proof (rd_ok maxread k sc) as O. destruct (rd k sc maxread) as [[x k1] sc1]. destruct x as [d| | |].
    - destruct (new_data rx re_search c s d) as [[r0|] s0] eqn:N.
      + injection H as -> _ _ _. destruct (new_data_some rx re_search c s d _ _ N) as (? & ? & ? & ? & Hx). discriminate.
      + destruct t0; [discriminate | now apply (IH s0 k1 sc1 i b s' k' sc')].
    - injection H as _ _ _ <- _. cbn [TP.ok_from] in O. destruct O as (_ & _ & O1 & O2). auto.
    - discriminate.
    - discriminate.
  Qed.

  Theorem expect_over_eof c t0 fuel s k sc i b s' k' sc' : wfW rx c -> Inv s ->
    expect_over fuel c t0 s k sc = Done (AtEof i b) s' k' sc' ->
    T.kbuf k' = [] /\ TP.gone k' /\ i = eof_index c /\ pend s' = [] /\ exists w, b = pend s ++ T.kbuf k ++ w.
  Proof.
    intros Hwf HI H.
    assert (E : T.kbuf k' = [] /\ TP.gone k').
    { revert H. unfold Model.expect_over. destruct (existing_data rx re_search c s) as [[x|] s0] eqn:EE.
      - intros [= -> _ _ _]. destruct (existing_data_some rx re_search c s _ _ EE) as (? & ? & ? & ? & Hx). discriminate.
      - apply drive_eof. }
    destruct E as [E1 E2]. split; [exact E1|]. split; [exact E2|].
    destruct (expect_over_conserves c t0 fuel s k sc _ s' k' sc' Hwf HI H) as [_ [w Hw]].
    destruct (expect_over_is_expect_loop c t0 fuel s k sc _ s' k' sc' H) as (n & rs & R & L).
    pose proof (call_conserves rx re_search re_span c t0 s (map ev_of rs) Hwf HI) as C. rewrite L in C.
    destruct C as (used & _ & _ & _ & _ & CE & _). destruct (CE i b eq_refl) as (_ & Hp & _).
    pose proof (expect_loop_post rx re_search re_span c t0 s (map ev_of rs) Hwf HI) as P. rewrite L in P.
    destruct P as (r2 & P1 & _ & (u2 & _ & _ & PR) & _). destruct r2; try discriminate. injection P1 as <- <-. destruct PR as (Pi & _).
    split; [exact Pi|]. split; [exact Hp|]. exists w. cbn [handed] in Hw. rewrite Hp, E1 in Hw. now rewrite !app_nil_r in Hw.
  Qed.

  (** whole histories of calls on one object over one schedule *)
  Definition wf_call (ct : cfg rx * bool) : Prop := wfW rx (fst ct).

  Theorem calls_over_conserve fuel : forall cs s k sc rs s' k' sc', Forall wf_call cs -> Inv s ->
    calls_over fuel cs s k sc = Some (rs, s', k', sc') ->
    Inv s' /\ exists w, flat_map handed rs ++ pend s' ++ T.kbuf k' = pend s ++ T.kbuf k ++ w.
  Proof.
    induction cs as [|[c t0] cs IH]; intros s k sc rs s' k' sc' Hwf HI H; cbn [Model.calls_over] in H.
    - injection H as <- <- <- <-. split; [exact HI|]. exists []. cbn. now rewrite app_nil_r.
    - inversion Hwf as [|? ? W1 W2]; subst. destruct (expect_over fuel c t0 s k sc) as [x s1 k1 sc1|] eqn:E; [|discriminate].
      destruct (calls_over fuel cs s1 k1 sc1) as [[[[xs s2] k2] sc2]|] eqn:E2; [|discriminate].
      injection H as <- <- <- <-.
      destruct (expect_over_conserves c t0 fuel s k sc x s1 k1 sc1 W1 HI E) as [HI1 [w1 H1]].
      destruct (IH s1 k1 sc1 xs s2 k2 sc2 W2 HI1 E2) as [HI2 [w2 H2]].
      split; [exact HI2|]. exists (w1 ++ w2). cbn [flat_map]. rewrite <- app_assoc, H2.
      rewrite (app_assoc (handed x)), (app_assoc (handed x ++ pend s1)), <- (app_assoc (handed x)), H1.
      now rewrite <- !app_assoc.
  Qed.
End Facts.

(** the three descriptor transports satisfy the premise (Transport/Proofs.v) *)
Lemma pty_rd_ok t0 : forall size k s, TP.ok_from size k [] (T.pty_read k s size t0).
Proof. intros size k s. apply TP.pty_read_ok. Qed.
Lemma fd_rd_ok : forall size k s, TP.ok_from size k [] (T.fd_read k s size).
Proof. intros size k s. apply TP.fd_read_ok. Qed.
Lemma sock_rd_ok : forall size k s, TP.ok_from size k [] (T.sock_read k s size).
Proof. intros size k s. apply TP.fd_read_ok. Qed.
