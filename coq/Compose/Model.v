(** expect() END TO END: the Expecter of Expect/Model.v driven by the read_nonblocking of a transport of Transport/Model.v over
    the kernel-endpoint model - reads are made one at a time, only as long as the call goes on (expect.py expect_loop:
    existing_data, then read_nonblocking / new_data until a match, TIMEOUT, EOF or an error).  [rd] is the transport's read with
    the call's timeout class already applied (for a pty: pty_read _ _ _ t0). *)
From Coq Require Import ZArith NArith List Bool Arith.
Import ListNotations.
From PV Require Import Base.PySeq Expect.Model.
From PV Require Transport.Model.
Module T := PV.Transport.Model.

Section Over.
  Variable rx : Type.
  Variable re_search : rx -> text -> nat -> option (nat * nat).
  Variable rd : T.kern -> T.sched -> nat -> T.res * T.kern * T.sched.
  Variable maxread : nat.

  (** what the Expecter sees of one read *)
  Definition ev_of (x : T.res) : ev :=
    match x with T.RData d => Data d | T.REof => Eof | T.RTimeout => Timeout | T.RBlocked => Err end.

  Inductive outcome := Done (r : res) (s : st) (k : T.kern) (sc : T.sched) | OutOfFuel.

  Fixpoint drive (fuel : nat) (c : cfg rx) (t0 : bool) (s : st) (k : T.kern) (sc : T.sched) : outcome :=
    match fuel with
    | 0 => OutOfFuel
    | S f =>
        match rd k sc maxread with
        | (T.RData d, k1, sc1) =>
            match new_data rx re_search c s d with
            | (Some r, s') => Done r s' k1 sc1
            | (None, s') => if t0 then Done (fst (timeout c s')) (snd (timeout c s')) k1 sc1 else drive f c t0 s' k1 sc1
            end
        | (T.RTimeout, k1, sc1) => Done (fst (timeout c s)) (snd (timeout c s)) k1 sc1
        | (T.REof, k1, sc1) => Done (fst (eof c s)) (snd (eof c s)) k1 sc1
        | (T.RBlocked, k1, sc1) => Done (fst (errored c s)) (snd (errored c s)) k1 sc1
        end
    end.

  Definition expect_over (fuel : nat) (c : cfg rx) (t0 : bool) (s : st) (k : T.kern) (sc : T.sched) : outcome :=
    match existing_data rx re_search c s with
    | (Some x, s') => Done x s' k sc
    | (None, s') => drive fuel c t0 s' k sc
    end.

  (** a history of calls on one object over one schedule: (configuration, timeout is 0) per call; None = out of fuel *)
  Fixpoint calls_over (fuel : nat) (cs : list (cfg rx * bool)) (s : st) (k : T.kern) (sc : T.sched)
    : option (list res * st * T.kern * T.sched) :=
    match cs with
    | [] => Some ([], s, k, sc)
    | (c, t0) :: r =>
        match expect_over fuel c t0 s k sc with
        | Done x s' k' sc' =>
            match calls_over fuel r s' k' sc' with
            | Some (xs, s2, k2, sc2) => Some (x :: xs, s2, k2, sc2)
            | None => None
            end
        | OutOfFuel => None
        end
    end.
End Over.
