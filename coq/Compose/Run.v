(** Correspondence entry point for expect() end to end (job expect-over-kernel): which transport (0 pty, 1 fd, 2 socket),
    maxread, the object's searchwindowsize attribute, initial kernel state, schedule, the calls (configuration, window given?,
    timeout is 0).  Per call: [result, pending text, search buffer, kernel state, schedule left]. *)
From Coq Require Import ZArith NArith List Bool.
Import ListNotations.
From PV Require Import Base.V Base.PySeq Base.Rx Expect.Model Compose.Model.
From PV Require Transport.Model.

Definition enc_r (r : res) : V :=
  match r with
  | Matched idx b a _ => VL [VI 0; vnat idx; vtext b; vtext a]
  | AtEof i b => VL [VI 1; vopt vnat i; vtext b]
  | AtTimeout i b => VL [VI 2; vopt vnat i; vtext b]
  | Errored b => VL [VI 3; vtext b]
  end.
Definition enc_k (k : T.kern) : V := VL [vtext (T.kbuf k); vbool (T.kopen k); vbool (T.kalive k)].

Definition rd_of (which : nat) (t0 : bool) : T.kern -> T.sched -> nat -> T.res * T.kern * T.sched :=
  match which with
  | 0 => fun k s n => T.pty_read k s n t0
  | 1 => T.fd_read
  | _ => T.sock_read
  end.

Definition FUEL := 400.

Fixpoint run_calls (which maxread : nat) (cs : list (cfg rx * bool)) (s : st) (k : T.kern) (sc : T.sched) : list V :=
  match cs with
  | [] => []
  | (c, t0) :: r =>
      match expect_over rx rx_search (rd_of which t0) maxread FUEL c t0 s k sc with
      | Done x s' k' sc' => VL [enc_r x; vtext (pend s'); vtext (buf s'); enc_k k'; vnat (length sc')] :: run_calls which maxread r s' k' sc'
      | OutOfFuel => [VL [VI 99]]
      end
  end.

Definition compose_case := (nat * nat * T.kern * T.sched * list (cfg rx * bool))%type.
Definition run_compose (c : compose_case) : V :=
  match c with (which, maxread, k, sc, cs) => VL (run_calls which maxread cs {| pend := []; buf := [] |} k sc) end.
