(** C05/C06: models of the four read_nonblocking implementations over a small model of the kernel endpoint
    (byte FIFO + "peer still has it open" + "child process alive"), with the peer's actions interleaved before
    every system call of the reader.  MODELLED, NOT VERIFIED: the endpoint itself (kern, poll, sys_read). *)
From Coq Require Import ZArith NArith List Bool Arith.
Import ListNotations.

Definition text := list N.

(** what the peer may do between two system calls of the reader *)
Inductive pact :=
| PWrite (d : text)        (* write d (only while it is alive and holds the endpoint open) *)
| PExit                    (* the child exits / the peer closes: endpoint closed, process dead *)
| PHangup.                 (* the child closes its end but stays alive *)

Record kern := { kbuf : text; kopen : bool; kalive : bool }.

Definition peer1 (k : kern) (a : pact) : kern :=
  match a with
  | PWrite d => if kopen k && kalive k then {| kbuf := kbuf k ++ d; kopen := true; kalive := true |} else k
  | PExit => {| kbuf := kbuf k; kopen := false; kalive := false |}
  | PHangup => {| kbuf := kbuf k; kopen := false; kalive := kalive k |}
  end.
Definition peer (k : kern) (acts : list pact) : kern := fold_left peer1 acts k.

(** what the peer actually wrote while doing [acts] from state k *)
Fixpoint written (k : kern) (acts : list pact) : text :=
  match acts with
  | [] => []
  | a :: r => (match a with PWrite d => if kopen k && kalive k then d else [] | _ => [] end) ++ written (peer1 k a) r
  end.

(** one schedule entry per system call: the peer actions that happen just before it (for a timed wait: during
    it), and how generous the kernel is with a read (it returns between 1 and n of the available bytes) *)
Definition sched := list (list pact * nat).
Definition next (s : sched) : (list pact * nat) * sched :=
  match s with [] => (([], 0), []) | x :: r => (x, r) end.

Definition ready (k : kern) : bool := negb (match kbuf k with [] => true | _ => false end) || negb (kopen k).

Inductive rd := Got (d : text) | AtEOF | WouldBlock.
Definition sys_read (k : kern) (n j : nat) : rd * kern :=
  match kbuf k with
  | [] => if kopen k then (WouldBlock, k) else (AtEOF, k)
  | _ => let m := Nat.min n (Nat.min (S j) (length (kbuf k))) in
         (Got (firstn m (kbuf k)), {| kbuf := skipn m (kbuf k); kopen := kopen k; kalive := kalive k |})
  end.

Inductive res := RData (d : text) | REof | RTimeout | RBlocked (* a read that would block: never happens after a positive poll *).

(** a system call = apply the scheduled peer actions, then look at the kernel *)
Definition do_poll (k : kern) (s : sched) : bool * kern * sched :=
  let '((acts, _), s') := next s in let k' := peer k acts in (ready k', k', s').
Definition do_read (k : kern) (s : sched) (n : nat) : rd * kern * sched :=
  let '((acts, j), s') := next s in let k' := peer k acts in
  let '(r, k'') := sys_read k' n j in (r, k'', s').
Definition do_alive (k : kern) (s : sched) : bool * kern * sched :=
  let '((acts, _), s') := next s in let k' := peer k acts in (kalive k', k', s').

(** SpawnBase.read_nonblocking: one os.read *)
Definition base_read (k : kern) (s : sched) (n : nat) : res * kern * sched :=
  match do_read k s n with
  | (Got d, k', s') => (RData d, k', s')
  | (AtEOF, k', s') => (REof, k', s')
  | (WouldBlock, k', s') => (RBlocked, k', s')
  end.

(** pty_spawn.spawn.read_nonblocking (pty_spawn.py:415-510); [t0] = timeout is 0 *)
Fixpoint pty_more (fuel : nat) (k : kern) (s : sched) (size : nat) (incoming : text) : res * kern * sched :=
  match fuel with
  | 0 => (RData incoming, k, s)
  | S f =>
      if length incoming <? size then
        match do_poll k s with
        | (true, k1, s1) =>
            match do_read k1 s1 (size - length incoming) with
            | (Got d, k2, s2) => pty_more f k2 s2 size (incoming ++ d)
            | (AtEOF, k2, s2) => let '(_, k3, s3) := do_alive k2 s2 in (RData incoming, k3, s3)
            | (WouldBlock, k2, s2) => (RBlocked, k2, s2)
            end
        | (false, k1, s1) => (RData incoming, k1, s1)
        end
      else (RData incoming, k, s)
  end.

Definition pty_dead_branch (k : kern) (s : sched) (size : nat) : res * kern * sched :=
  match do_poll k s with
  | (true, k1, s1) => base_read k1 s1 size
  | (false, k1, s1) => (REof, k1, s1)
  end.

Definition pty_read (k : kern) (s : sched) (size : nat) (t0 : bool) : res * kern * sched :=
  match do_poll k s with
  | (true, k1, s1) =>
      match do_read k1 s1 size with
      | (Got d, k2, s2) => pty_more size k2 s2 size d
      | (AtEOF, k2, s2) => let '(_, k3, s3) := do_alive k2 s2 in (REof, k3, s3)
      | (WouldBlock, k2, s2) => (RBlocked, k2, s2)
      end
  | (false, k1, s1) =>
      match do_alive k1 s1 with
      | (false, k2, s2) => pty_dead_branch k2 s2 size
      | (true, k2, s2) =>
          let after_wait := fun k3 s3 =>
            match do_alive k3 s3 with
            | (false, k4, s4) => pty_dead_branch k4 s4 size
            | (true, k4, s4) => (RTimeout, k4, s4)
            end in
          if t0 then after_wait k2 s2
          else match do_poll k2 s2 with               (* the timed wait *)
               | (true, k3, s3) => base_read k3 s3 size
               | (false, k3, s3) => after_wait k3 s3
               end
      end
  end.

(** fdpexpect.fdspawn.read_nonblocking: timed wait, then one read *)
Definition fd_read (k : kern) (s : sched) (size : nat) : res * kern * sched :=
  match do_poll k s with
  | (true, k1, s1) => base_read k1 s1 size
  | (false, k1, s1) => (RTimeout, k1, s1)
  end.

(** socket_pexpect.SocketSpawn.read_nonblocking: recv with a timeout = wait, then read *)
Definition sock_read (k : kern) (s : sched) (size : nat) : res * kern * sched := fd_read k s size.

(** SocketSpawn wraps recv in `with self._timeout(t)` (socket_pexpect.py:93-100): the socket's own timeout is looked up, replaced
    by the read's timeout and put back whatever recv does.  [own]: the socket's own timeout (None = blocking), in ms;
    [tlog]: every settimeout call made on the socket *)
Record sock := { own : option Z; tlog : list (option Z) }.
Definition sock_read_t (sk : sock) (t : option Z) (k : kern) (s : sched) (size : nat) : res * kern * sched * sock :=
  let saved := own sk in
  let '(r, k', s') := sock_read k s size in
  (r, k', s', {| own := saved; tlog := tlog sk ++ [t; saved] |}).

Definition data_of (r : res) : text := match r with RData d => d | _ => [] end.
