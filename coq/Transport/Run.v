From Coq Require Import ZArith NArith List Bool.
Import ListNotations.
From PV Require Import Base.V Transport.Model.

Definition enc_res (r : res) : V :=
  match r with RData d => VL [VI 0; vtext d] | REof => VL [VI 1] | RTimeout => VL [VI 2] | RBlocked => VL [VI 3] end.
Definition enc_kern (k : kern) : V := VL [vtext (kbuf k); vbool (kopen k); vbool (kalive k)].

(** which transport (0 pty, 1 fd, 2 socket), initial kernel state, schedule, list of (size, timeout-is-0) calls *)
Fixpoint run_calls (which : nat) (calls : list (nat * bool)) (k : kern) (s : sched) : list V * kern * sched :=
  match calls with
  | [] => ([], k, s)
  | (n, t0) :: r =>
      let '(x, k1, s1) := match which with 0 => pty_read k s n t0 | 1 => fd_read k s n | _ => sock_read k s n end in
      let '(xs, k2, s2) := run_calls which r k1 s1 in
      (VL [enc_res x; enc_kern k1; vnat (length s1)] :: xs, k2, s2)
  end.
Definition run_transport (c : nat * kern * sched * list (nat * bool)) : V :=
  match c with (which, k, s, calls) => VL (fst (fst (run_calls which calls k s))) end.

(** the socket's own timeout across a sequence of reads: before read i the application sets it to owns[i]; each read uses
    timeout 5000 ms (0 when t0) *)
Fixpoint run_sock_t (owns : list (option Z)) (calls : list (nat * bool)) (k : kern) (s : sched) : list V :=
  match calls, owns with
  | (n, t0) :: r, o :: os =>
      let '(x, k1, s1, sk) := sock_read_t {| own := o; tlog := [] |} (Some (if t0 then 0 else 5000)%Z) k s n in
      VL [vopt (fun z => VI z) (own sk); vlist (vopt (fun z => VI z)) (tlog sk)] :: run_sock_t os r k1 s1
  | _, _ => []
  end.
Definition run_sock_timeouts (c : kern * sched * list (nat * bool) * list (option Z)) : V :=
  match c with (k, s, calls, owns) => VL (run_sock_t owns calls k s) end.

(** PopenSpawn (job popen-sim): operations are reads (size, schedule of the loop) or things happening between calls *)
From PV Require Import Transport.Popen.
Definition enc_pw (w : pw) : V :=
  VL [enc_kern (pk w); vlist (vopt vtext) (pq w); vtext (pbuf w); vbool (peof w); vbool (tdone w)].
Definition pop_ := (nat * psched + list eact)%type.
Fixpoint run_pops (ops : list pop_) (w : pw) : list V :=
  match ops with
  | [] => []
  | inl (size, s) :: r =>
      let '(ok, x, w', s') := popen_read w s size in
      VL [vbool ok; enc_res x; enc_pw w'; vnat (length s')] :: run_pops r w'
  | inr es :: r => let w' := env w es in VL [enc_pw w'] :: run_pops r w'
  end.
Definition run_popen (c : kern * list pop_) : V :=
  match c with (k, ops) => VL (run_pops ops {| pk := k; pq := []; pbuf := []; peof := false; tdone := false |}) end.
Definition run_thread (reads : list (option (list N))) : V := vlist (vopt vtext) (thread_script reads).
