From Coq Require Import ZArith NArith List Bool.
Import ListNotations.
From PV Require Import Base.V Transport.Model.

Definition enc_res (r : res) : V :=
  match r with RData d => VL [VI 0; vtext d] | REof => VL [VI 1] | RTimeout => VL [VI 2] | RBlocked => VL [VI 3] end.
Definition enc_kern (k : kern) : V := VL [vtext (kbuf k); vbool (kopen k); vbool (kalive k)].

(** which transport (0 pty, 1 fd, 2 socket), initial kernel state, schedule, list of (size, timeout-is-0) calls *)
Fixpoint run_calls (which : nat) (calls : list (nat * bool)) (k : kern) (s : sched) : list V * kern * sched :=
  match calls with
  | [] => ([], k, s)
  | (n, t0) :: r =>
      let '(x, k1, s1) := match which with 0 => pty_read k s n t0 | 1 => fd_read k s n | _ => sock_read k s n end in
      let '(xs, k2, s2) := run_calls which r k1 s1 in
      (VL [enc_res x; enc_kern k1; vnat (length s1)] :: xs, k2, s2)
  end.
Definition run_transport (c : nat * kern * sched * list (nat * bool)) : V :=
  match c with (which, k, s, calls) => VL (fst (fst (run_calls which calls k s))) end.
