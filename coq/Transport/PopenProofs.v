(** C06 for PopenSpawn: whatever the interleaving of the peer, the reader thread and the reader's loop, every call
    returns the next bytes of the stream (at most size), nothing is lost or duplicated between pipe, queue and
    carry-over buffer, and EOF is reported only when all three are empty and the peer has closed the pipe. *)
From Coq Require Import ZArith NArith List Bool Arith Lia.
Import ListNotations.
From PV Require Import Transport.Model Transport.Popen.

Definition PInv (w : pw) : Prop :=
  Forall (fun x => x <> Some []) (pq w) /\
  (tdone w = true -> kbuf (pk w) = [] /\ kopen (pk w) = false) /\
  (peof w = true -> tdone w = true /\ pq w = []) /\
  (forall a b, pq w = a ++ None :: b -> b = [] /\ tdone w = true).

Lemma pw0_inv : PInv pw0.
Proof. unfold PInv, pw0; cbn. repeat split; try discriminate; auto; destruct a; discriminate. Qed.

Lemma qdata_app a b : qdata (a ++ b) = qdata a ++ qdata b.
Proof. induction a as [|[d|] a IH]; cbn; [reflexivity | now rewrite IH, app_assoc | exact IH]. Qed.

Lemma in_none_split (q : list (option text)) : In None q -> exists a b, q = a ++ None :: b.
Proof. intros H. apply in_split in H. exact H. Qed.

(** -- the peer and the thread --------------------------------------------------------------------------------- *)
Lemma peer1_closed k a : kbuf k = [] /\ kopen k = false -> kbuf (peer1 k a) = [] /\ kopen (peer1 k a) = false.
Proof. intros [Hb Ho]. destruct a; cbn; [rewrite Ho; cbn; auto | auto | auto]. Qed.

Lemma sys_read_got k n j d k' : sys_read k (S n) j = (Got d, k') -> d <> [] /\ kbuf k = d ++ kbuf k' /\ kopen k' = kopen k /\ kalive k' = kalive k.
Proof.
  unfold sys_read. destruct (kbuf k) as [|c t] eqn:E; [destruct (kopen k); discriminate|].
  remember (Nat.min (S n) (Nat.min (S j) (length (c :: t)))) as m eqn:Em.
  assert (Hm : 1 <= m) by (cbn [length] in Em; lia).
  intros [= <- <-]. cbn [kbuf kopen kalive]. split.
  - destruct m as [|m']; [lia|]. cbn. discriminate.
  - split; [symmetry; apply firstn_skipn | auto].
Qed.

Lemma sys_read_eof k n j k' : sys_read k n j = (AtEOF, k') -> k' = k /\ kbuf k = [] /\ kopen k = false.
Proof.
  unfold sys_read. destruct (kbuf k) as [|c t] eqn:E; [|discriminate].
  destruct (kopen k) eqn:Eo; [discriminate|]. intros [= <-]. auto.
Qed.

Lemma env1_peof w e : peof (env1 w e) = peof w.
Proof.
  destruct e as [a|j]; [reflexivity|]. unfold env1, thread1. destruct (tdone w); [reflexivity|].
  destruct (sys_read (pk w) 1024 j) as [[d| |] k']; reflexivity.
Qed.
Lemma env_peof es : forall w, peof (env w es) = peof w.
Proof. induction es as [|e es IH]; intros w; [reflexivity|]. cbn [env fold_left]. fold (env (env1 w e) es). now rewrite IH, env1_peof. Qed.

Lemma env1_pbuf w e : pbuf (env1 w e) = pbuf w.
Proof.
  destruct e as [a|j]; [reflexivity|]. unfold env1, thread1. destruct (tdone w); [reflexivity|].
  destruct (sys_read (pk w) 1024 j) as [[d| |] k']; reflexivity.
Qed.
Lemma env_pbuf es : forall w, pbuf (env w es) = pbuf w.
Proof. induction es as [|e es IH]; intros w; [reflexivity|]. cbn [env fold_left]. fold (env (env1 w e) es). now rewrite IH, env1_pbuf. Qed.

Definition wr1 (w : pw) (e : eact) : text :=
  match e with EPeer (PWrite d) => if kopen (pk w) && kalive (pk w) then d else [] | _ => [] end.
Lemma ewritten_cons w e r : ewritten w (e :: r) = wr1 w e ++ ewritten (env1 w e) r.
Proof. reflexivity. Qed.

Lemma env1_inv w e : PInv w -> PInv (env1 w e) /\ pending (env1 w e) = pending w ++ wr1 w e.
Proof.
  intros HI. pose proof HI as (I1 & I2 & I3 & I4). destruct e as [a|j].
  - split.
    + unfold PInv; cbn. split; [exact I1|]. split; [intros H; apply peer1_closed; auto|]. split; [exact I3 | exact I4].
    + unfold pending, wr1; cbn [env1 pk pq pbuf]. destruct a as [d| |]; cbn [peer1].
      * destruct (kopen (pk w) && kalive (pk w)); cbn [kbuf]; [now rewrite <- !app_assoc | now rewrite app_nil_r].
      * cbn [kbuf]. now rewrite app_nil_r.
      * cbn [kbuf]. now rewrite app_nil_r.
  - cbn [env1 wr1]. rewrite !app_nil_r. unfold thread1. destruct (tdone w) eqn:Et.
    { split; [exact HI | reflexivity]. }
    assert (NoNone : ~ In None (pq w)).
    { intros H. apply in_none_split in H as (a & b & H). destruct (I4 a b H) as [_ T]. congruence. }
    destruct (sys_read (pk w) 1024 j) as [[d| |] k'] eqn:Es.
    + apply sys_read_got in Es as (Hd & Hk & Ho & Ha). split.
      * unfold PInv; cbn. split; [apply Forall_app; split; [exact I1 | constructor; [congruence | constructor]]|].
        split; [discriminate|]. split; [intros H; destruct (I3 H); congruence|].
        intros a b H. exfalso. apply NoNone.
        assert (In None (pq w ++ [Some d])) by (rewrite H; apply in_or_app; right; now left).
        apply in_app_or in H0 as [H0|[H0|[]]]; [exact H0 | discriminate].
      * unfold pending; cbn. rewrite qdata_app, Hk. cbn. now rewrite app_nil_r, <- !app_assoc.
    + apply sys_read_eof in Es as (-> & Hb & Ho). split.
      * unfold PInv; cbn. split; [apply Forall_app; split; [exact I1 | constructor; [discriminate | constructor]]|].
        split; [auto|]. split; [intros H; destruct (I3 H); congruence|].
        intros a b H. split; [|reflexivity].
        destruct b as [|x b]; [reflexivity|]. exfalso. apply NoNone.
        assert (E : pq w ++ [None] = (a ++ [None]) ++ (x :: b)) by (rewrite H, <- app_assoc; reflexivity).
        destruct (x :: b) as [|y b'] eqn:Eb using rev_ind; [discriminate|].
        rewrite app_assoc in E. apply app_inj_tail in E as [E _]. rewrite E. apply in_or_app. left. apply in_or_app. right. now left.
      * unfold pending; cbn. rewrite qdata_app. cbn. now rewrite !app_nil_r.
    + split; [exact HI | reflexivity].
Qed.

Lemma ewritten_app es1 : forall w es2, ewritten w (es1 ++ es2) = ewritten w es1 ++ ewritten (env w es1) es2.
Proof.
  induction es1 as [|e es1 IH]; intros w es2; [reflexivity|]. cbn [app]. rewrite !ewritten_cons. cbn [env fold_left]. fold (env (env1 w e) es1).
  now rewrite IH, app_assoc.
Qed.

Lemma env_inv es : forall w, PInv w -> PInv (env w es) /\ pending (env w es) = pending w ++ ewritten w es.
Proof.
  induction es as [|e es IH]; intros w HI; cbn [env fold_left].
  - split; [exact HI | cbn; now rewrite app_nil_r].
  - fold (env (env1 w e) es). destruct (env1_inv w e HI) as [H1 H2]. destruct (IH _ H1) as [H3 H4].
    split; [exact H3|]. rewrite H4, H2, ewritten_cons. now rewrite <- app_assoc.
Qed.

(** -- the reader's loop --------------------------------------------------------------------------------------- *)
Lemma popen_loop_ok size : forall fuel w s, PInv w -> peof w = false -> size - length (pbuf w) <= fuel ->
  match popen_loop fuel w s size with
  | (ok, w', s') => ok = true /\ PInv w' /\ pending w' = pending w ++ loop_written fuel w s size
  end.
Proof.
  induction fuel as [|f IH]; intros w s HI Hp Hf; cbn [popen_loop loop_written].
  - destruct ((size =? 0) || (size <=? length (pbuf w))) eqn:E.
    + split; [reflexivity|]. split; [exact HI|]. now rewrite app_nil_r.
    + apply orb_false_iff in E as [E1 E2]. apply Nat.eqb_neq in E1. apply Nat.leb_gt in E2. lia.
  - destruct ((size =? 0) || (size <=? length (pbuf w))) eqn:E.
    { split; [reflexivity|]. split; [exact HI|]. now rewrite app_nil_r. }
    apply orb_false_iff in E as [E1 E2]. apply Nat.eqb_neq in E1. apply Nat.leb_gt in E2.
    destruct (pnext s) as [[acts expired] s1].
    destruct (env_inv acts w HI) as [H1 H2]. pose proof (env_peof acts w) as Hp1. pose proof (env_pbuf acts w) as Hb1.
    set (w1 := env w acts) in *. destruct H1 as (I1 & I2 & I3 & I4).
    destruct (pq w1) as [|[d|] q] eqn:Eq.
    + split; [reflexivity|]. split; [unfold PInv; rewrite Eq; auto|]. now rewrite H2, app_nil_r.
    + (* a chunk *)
      inversion I1 as [|x l Hx Hl]; subst.
      assert (I4' : forall a b, q = a ++ None :: b -> b = [] /\ tdone w1 = true)
        by (intros a b H; apply (I4 (Some d :: a) b); now rewrite H).
      destruct d as [|c d]; [now elim Hx|].
      set (w2 := {| pk := pk w1; pq := q; pbuf := pbuf w1 ++ c :: d; peof := peof w1; tdone := tdone w1 |}).
      assert (HI2 : PInv w2).
      { unfold PInv, w2; cbn. split; [exact Hl|]. split; [exact I2|]. split; [intros H; congruence | exact I4']. }
      assert (HP2 : pending w2 = pending w1).
      { unfold pending, w2; cbn. rewrite Eq. cbn. now rewrite <- !app_assoc. }
      destruct expired.
      * split; [reflexivity|]. split; [exact HI2|]. now rewrite HP2, H2, app_nil_r.
      * assert (Hf2 : size - length (pbuf w2) <= f).
        { unfold w2; cbn. rewrite app_length, Hb1. cbn [length]. lia. }
        specialize (IH w2 s1 HI2 (eq_trans (eq_refl : peof w2 = peof w1) (eq_trans Hp1 Hp)) Hf2).
        destruct (popen_loop f w2 s1 size) as [[ok w'] s'].
        destruct IH as (A & B & C). split; [exact A|]. split; [exact B|]. now rewrite C, HP2, H2, <- app_assoc.
    + (* the end-of-file marker *)
      destruct (I4 [] q eq_refl) as [-> Ht].
      split; [reflexivity|]. split.
      { unfold PInv; cbn. split; [constructor|]. split; [exact I2|]. split; [auto|]. intros [|? ?] b H; discriminate. }
      destruct (I2 Ht) as [Hk _].
      rewrite app_nil_r, <- H2. unfold pending. rewrite Eq. reflexivity.
Qed.

(** -- one call ---------------------------------------------------------------------------------------------------- *)
Lemma take_spec w size : PInv w ->
  match take w size with (r, w') => PInv w' /\ data_of r ++ pending w' = pending w /\ length (data_of r) <= size /\
                                    r <> REof /\ r <> RTimeout /\ r <> RBlocked end.
Proof.
  intros HI. unfold take. split; [exact HI|]. cbn [data_of]. split.
  - unfold pending; cbn. now rewrite app_assoc, firstn_skipn.
  - split; [rewrite firstn_length; lia|]. repeat split; discriminate.
Qed.

Theorem popen_read_ok w s size : PInv w ->
  match popen_read w s size with (ok, r, w', s') =>
    ok = true /\ PInv w' /\ data_of r ++ pending w' = pending w ++ read_written w s size /\ length (data_of r) <= size /\
    (r = REof -> pending w = [] /\ kopen (pk w) = false /\ w' = w) /\ r <> RTimeout /\ r <> RBlocked
  end.
Proof.
  intros HI. unfold popen_read, read_written. destruct (peof w) eqn:Ep.
  - destruct (pbuf w) as [|c t] eqn:Eb.
    + pose proof HI as (_ & I2 & I3 & _). destruct (I3 Ep) as [Ht Hq]. destruct (I2 Ht) as [Hk Ho].
      split; [reflexivity|]. split; [exact HI|]. cbn [data_of app].
      assert (P0 : pending w = []) by (unfold pending; now rewrite Eb, Hq, Hk).
      split; [now rewrite P0|]. split; [cbn; lia|]. split; [auto|]. split; discriminate.
    + pose proof (take_spec w size HI) as T. destruct (take w size) as [r w'] eqn:Et.
      destruct T as (T1 & T2 & T3 & T4 & T5 & T6). split; [reflexivity|]. split; [exact T1|].
      split; [now rewrite T2, app_nil_r|]. split; [exact T3|]. split; [intros H; congruence|]. split; assumption.
  - pose proof (popen_loop_ok size (size - length (pbuf w)) w s HI Ep (le_n _)) as L.
    destruct (popen_loop (size - length (pbuf w)) w s size) as [[ok w1] s1]. destruct L as (L1 & L2 & L3).
    pose proof (take_spec w1 size L2) as T. destruct (take w1 size) as [r w'] eqn:Et.
    destruct T as (T1 & T2 & T3 & T4 & T5 & T6). split; [exact L1|]. split; [exact T1|].
    split; [now rewrite T2, L3|]. split; [exact T3|]. split; [intros H; congruence|]. split; assumption.
Qed.

(** end of file is final: it is only reported in the state "marker consumed, carry-over buffer empty", which no read changes *)
Lemma popen_eof_state w s size ok w' s' : popen_read w s size = (ok, REof, w', s') -> w' = w /\ peof w = true /\ pbuf w = [].
Proof.
  unfold popen_read. destruct (peof w) eqn:Ep.
  - destruct (pbuf w) eqn:Eb; [intros [= <- <- <-]; auto | unfold take; discriminate].
  - destruct (popen_loop (size - length (pbuf w)) w s size) as [[? ?] ?]. unfold take. discriminate.
Qed.
Lemma popen_eof_again w s size : peof w = true -> pbuf w = [] -> popen_read w s size = (true, REof, w, s).
Proof. intros H1 H2. unfold popen_read. now rewrite H1, H2. Qed.
Theorem popen_eof_sticky w s size ok w' s' s2 size2 : popen_read w s size = (ok, REof, w', s') ->
  popen_read w' s2 size2 = (true, REof, w', s2).
Proof. intros H. apply popen_eof_state in H as (-> & H1 & H2). now apply popen_eof_again. Qed.

(** -- any sequence of calls, with anything happening in between ------------------------------------------------- *)
Inductive pop := PRead (size : nat) (s : psched) | PEnv (es : list eact).
Fixpoint prun (ops : list pop) (w : pw) : list res * text * pw :=
  match ops with
  | [] => ([], [], w)
  | PRead size s :: r =>
      match popen_read w s size with
      | (_, x, w', _) => match prun r w' with (xs, wr, w'') => (x :: xs, read_written w s size ++ wr, w'') end
      end
  | PEnv es :: r => match prun r (env w es) with (xs, wr, w'') => (xs, ewritten w es ++ wr, w'') end
  end.

Theorem popen_reads_conserve : forall ops w, PInv w ->
  match prun ops w with (rs, wr, w') =>
    PInv w' /\ flat_map data_of rs ++ pending w' = pending w ++ wr
  end.
Proof.
  induction ops as [|[size s|es] ops IH]; intros w HI; cbn [prun].
  - split; [exact HI | now rewrite app_nil_r].
  - pose proof (popen_read_ok w s size HI) as R. destruct (popen_read w s size) as [[[ok x] w1] s1].
    destruct R as (_ & R1 & R2 & _). specialize (IH w1 R1). destruct (prun ops w1) as [[xs wr] w2].
    destruct IH as [I1 I2]. split; [exact I1|]. cbn [flat_map]. now rewrite <- app_assoc, I2, app_assoc, R2, <- app_assoc.
  - destruct (env_inv es w HI) as [E1 E2]. specialize (IH _ E1). destruct (prun ops (env w es)) as [[xs wr] w2].
    destruct IH as [I1 I2]. split; [exact I1|]. now rewrite I2, E2, <- app_assoc.
Qed.

(** -- the branch "already at EOF but the carry-over buffer is not empty" of read_nonblocking is never taken ------------ *)
Lemma popen_loop_marker size : forall fuel w s, peof w = false ->
  match popen_loop fuel w s size with (_, w', _) => peof w' = true -> length (pbuf w') < size end.
Proof.
  induction fuel as [|f IH]; intros w s Hp; cbn [popen_loop].
  - destruct ((size =? 0) || (size <=? length (pbuf w))); intros H; congruence.
  - destruct ((size =? 0) || (size <=? length (pbuf w))) eqn:E; [intros H; congruence|].
    apply orb_false_iff in E as [E1 E2]. apply Nat.leb_gt in E2.
    destruct (pnext s) as [[acts expired] s1].
    pose proof (env_peof acts w) as Hp1. pose proof (env_pbuf acts w) as Hb1. set (w1 := env w acts) in *.
    destruct (pq w1) as [|[d|] q].
    + intros H; congruence.
    + destruct d as [|c d]; [cbn; intros H; congruence|]. destruct expired; [cbn; intros H; congruence|].
      apply IH. cbn. congruence.
    + cbn. intros _. congruence.
Qed.

Definition PInv2 (w : pw) : Prop := PInv w /\ (peof w = true -> pbuf w = []).

Theorem popen_read_inv2 w s size : PInv2 w ->
  match popen_read w s size with (_, _, w', _) => PInv2 w' end.
Proof.
  intros [HI H2]. pose proof (popen_read_ok w s size HI) as R. unfold popen_read in *. destruct (peof w) eqn:Ep.
  - rewrite (H2 eq_refl) in *. split; [apply R | auto].
  - pose proof (popen_loop_marker size (size - length (pbuf w)) w s Ep) as M.
    destruct (popen_loop (size - length (pbuf w)) w s size) as [[ok w1] s1]. unfold take in *. cbn in *.
    split; [apply R|]. cbn. intros H. specialize (M H). apply skipn_all2. lia.
Qed.

Theorem env_inv2 es w : PInv2 w -> PInv2 (env w es).
Proof. intros [HI H2]. split; [apply (env_inv es w HI)|]. rewrite env_peof, env_pbuf. exact H2. Qed.
