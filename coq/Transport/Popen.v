(** C06: PopenSpawn (popen_spawn.py:55-120): a reader thread moves output from the pipe to a queue (_read_incoming);
    read_nonblocking drains the queue into a carry-over buffer.  The thread's steps and the peer's actions are
    interleaved arbitrarily with the iterations of the reader's loop.  Bytes mode (decoding is C07). *)
From Coq Require Import ZArith NArith List Bool Arith.
Import ListNotations.
From PV Require Import Transport.Model.

(** pipe, queue (None = the end-of-file marker), carry-over buffer, _read_reached_eof, "the thread has returned" *)
Record pw := { pk : kern; pq : list (option text); pbuf : text; peof : bool; tdone : bool }.

(** what happens around the reader: the peer acts, or the thread performs one os.read(fileno, 1024) + put *)
Inductive eact := EPeer (a : pact) | EThread (j : nat).

Definition thread1 (w : pw) (j : nat) : pw :=
  if tdone w then w
  else match sys_read (pk w) 1024 j with
       | (Got d, k') => {| pk := k'; pq := pq w ++ [Some d]; pbuf := pbuf w; peof := peof w; tdone := false |}
       | (AtEOF, k') => {| pk := k'; pq := pq w ++ [None]; pbuf := pbuf w; peof := peof w; tdone := true |}
       | (WouldBlock, _) => w                                   (* the thread stays blocked in os.read *)
       end.

Definition env1 (w : pw) (e : eact) : pw :=
  match e with
  | EPeer a => {| pk := peer1 (pk w) a; pq := pq w; pbuf := pbuf w; peof := peof w; tdone := tdone w |}
  | EThread j => thread1 w j
  end.
Definition env (w : pw) (es : list eact) : pw := fold_left env1 es w.

(** one schedule entry per iteration of the reader's loop: what happens before its get_nowait(), and whether the
    timeout has expired when the iteration ends *)
Definition psched := list (list eact * bool).
Definition pnext (s : psched) : (list eact * bool) * psched :=
  match s with [] => (([], true), []) | x :: r => (x, r) end.

(** the loop `while size and len(buf) < size` of read_nonblocking; the boolean is false when an empty chunk came
    out of the queue (then the real loop makes no progress; the thread never queues one, see [PInv]) *)
Fixpoint popen_loop (fuel : nat) (w : pw) (s : psched) (size : nat) : bool * pw * psched :=
  if (size =? 0) || (size <=? length (pbuf w)) then (true, w, s)
  else match fuel with
       | 0 => (false, w, s)
       | S f =>
           let '((acts, expired), s') := pnext s in
           let w1 := env w acts in
           match pq w1 with
           | [] => (true, w1, s')                                                         (* Empty: break *)
           | None :: q => (true, {| pk := pk w1; pq := q; pbuf := pbuf w1; peof := true; tdone := tdone w1 |}, s')
           | Some d :: q =>
               let w2 := {| pk := pk w1; pq := q; pbuf := pbuf w1 ++ d; peof := peof w1; tdone := tdone w1 |} in
               match d with
               | [] => (false, w2, s')
               | _ => if expired then (true, w2, s') else popen_loop f w2 s' size
               end
           end
       end.

Definition take (w : pw) (size : nat) : res * pw :=
  (RData (firstn size (pbuf w)), {| pk := pk w; pq := pq w; pbuf := skipn size (pbuf w); peof := peof w; tdone := tdone w |}).

(** PopenSpawn.read_nonblocking(size, timeout) *)
Definition popen_read (w : pw) (s : psched) (size : nat) : bool * res * pw * psched :=
  if peof w then
    match pbuf w with
    | [] => (true, REof, w, s)
    | _ => let '(r, w') := take w size in (true, r, w', s)
    end
  else
    let '(ok, w1, s1) := popen_loop (size - length (pbuf w)) w s size in
    let '(r, w2) := take w1 size in (ok, r, w2, s1).

(** everything the child wrote that has not been handed to the caller yet *)
Fixpoint qdata (q : list (option text)) : text :=
  match q with [] => [] | Some d :: r => d ++ qdata r | None :: r => qdata r end.
Definition pending (w : pw) : text := pbuf w ++ qdata (pq w) ++ kbuf (pk w).

(** what the peer writes during a list of environment actions *)
Fixpoint ewritten (w : pw) (es : list eact) : text :=
  match es with
  | [] => []
  | e :: r => (match e with EPeer (PWrite d) => if kopen (pk w) && kalive (pk w) then d else [] | _ => [] end) ++ ewritten (env1 w e) r
  end.

(** the same for a whole call: the entries of the schedule the loop consumed *)
Fixpoint loop_written (fuel : nat) (w : pw) (s : psched) (size : nat) : text :=
  if (size =? 0) || (size <=? length (pbuf w)) then []
  else match fuel with
       | 0 => []
       | S f =>
           let '((acts, expired), s') := pnext s in
           let w1 := env w acts in
           ewritten w acts ++
           match pq w1 with
           | Some (c :: d) :: q =>
               if expired then []
               else loop_written f {| pk := pk w1; pq := q; pbuf := pbuf w1 ++ c :: d; peof := peof w1; tdone := tdone w1 |} s' size
           | _ => []
           end
       end.
Definition read_written (w : pw) (s : psched) (size : nat) : text :=
  if peof w then [] else loop_written (size - length (pbuf w)) w s size.

Definition pw0 : pw := {| pk := {| kbuf := []; kopen := true; kalive := true |}; pq := []; pbuf := []; peof := false; tdone := false |}.

(** _read_incoming as a whole, given the successive results of os.read (None = OSError): chunks are queued until an empty
    read or an error, then the marker *)
Fixpoint thread_script (reads : list (option text)) : list (option text) :=
  match reads with
  | [] => [None]                      (* the script is over: os.read returns b'' *)
  | Some (c :: d) :: r => Some (c :: d) :: thread_script r
  | _ :: _ => [None]
  end.
