(** C06: what the reads return, concatenated, is what the peer wrote, in order; EOF only when drained and the peer is gone. *)
From Coq Require Import ZArith NArith List Bool Arith Lia.
Import ListNotations.
From PV Require Import Transport.Model.

Definition gone (k : kern) : Prop := kopen k = false \/ kalive k = false.

Lemma peer1_buf k a : kbuf (peer1 k a) = kbuf k ++ written k [a].
Proof. destruct a; cbn; rewrite ?app_nil_r; auto. destruct (kopen k && kalive k); cbn; now rewrite ?app_nil_r. Qed.

Lemma peer_buf acts : forall k, kbuf (peer k acts) = kbuf k ++ written k acts.
Proof.
  induction acts as [|a acts IH]; intros k; cbn [peer fold_left written]; [now rewrite app_nil_r|].
  fold (peer (peer1 k a) acts). rewrite IH, peer1_buf. cbn [written]. now rewrite !app_nil_r, <- app_assoc.
Qed.

Lemma peer1_gone k a : gone k -> gone (peer1 k a) /\ kbuf (peer1 k a) = kbuf k.
Proof.
  unfold gone. intros H. destruct a; cbn; auto.
  destruct (kopen k && kalive k) eqn:E; [|auto]. apply andb_prop in E as [E1 E2]. destruct H; congruence.
Qed.
(** once the peer is gone it stays gone and nothing more arrives *)
Lemma peer_gone acts : forall k, gone k -> gone (peer k acts) /\ kbuf (peer k acts) = kbuf k.
Proof.
  induction acts as [|a acts IH]; intros k H; cbn [peer fold_left]; [auto|].
  fold (peer (peer1 k a) acts). destruct (peer1_gone k a H) as [H1 H2]. destruct (IH _ H1) as [H3 H4].
  split; [exact H3 | congruence].
Qed.

Lemma sys_read_spec k n j : match sys_read k n j with
  | (Got d, k') => d ++ kbuf k' = kbuf k /\ length d <= n /\ kopen k' = kopen k /\ kalive k' = kalive k /\ (1 <= n -> 1 <= length d)
  | (AtEOF, k') => k' = k /\ kbuf k = [] /\ kopen k = false
  | (WouldBlock, k') => k' = k /\ kbuf k = [] /\ kopen k = true
  end.
Proof.
  unfold sys_read. destruct (kbuf k) as [|c t] eqn:E.
  - destruct (kopen k) eqn:E2; auto.
  - cbn [kbuf kopen kalive]. rewrite firstn_skipn. repeat split; auto.
    + rewrite firstn_length. lia.
    + intros Hn. rewrite firstn_length. cbn [length]. lia.
Qed.

(** every system call only appends what the peer wrote and (for a read) takes from the front *)
Definition call_ok (k : kern) (d : text) (k' : kern) : Prop := exists w, d ++ kbuf k' = kbuf k ++ w.

Lemma do_poll_spec k s : let '(b, k', s') := do_poll k s in
  call_ok k [] k' /\ (b = false -> kbuf k' = [] /\ kopen k' = true) /\ (gone k -> gone k' /\ kbuf k' = kbuf k).
Proof.
  unfold do_poll. destruct (next s) as [[acts j] s']. split; [|split].
  - exists (written k acts). cbn. apply peer_buf.
  - unfold ready. intros H. apply orb_false_elim in H as [H1 H2]. apply negb_false_iff in H1, H2.
    destruct (kbuf (peer k acts)); [auto | discriminate].
  - apply peer_gone.
Qed.

Lemma do_alive_spec k s : let '(b, k', s') := do_alive k s in
  call_ok k [] k' /\ b = kalive k' /\ (gone k -> gone k' /\ kbuf k' = kbuf k).
Proof.
  unfold do_alive. destruct (next s) as [[acts j] s']. split; [|split; [reflexivity | apply peer_gone]].
  exists (written k acts). cbn. apply peer_buf.
Qed.

Lemma do_read_spec k s n : let '(r, k', s') := do_read k s n in
  match r with
  | Got d => call_ok k d k' /\ length d <= n /\ (1 <= n -> 1 <= length d)
  | AtEOF => call_ok k [] k' /\ kbuf k' = [] /\ kopen k' = false
  | WouldBlock => call_ok k [] k' /\ kbuf k' = [] /\ kopen k' = true
  end /\ (gone k -> gone k').
Proof.
  unfold do_read. destruct (next s) as [[acts j] s'].
  pose proof (sys_read_spec (peer k acts) n j) as S. destruct (sys_read (peer k acts) n j) as [[d| |] k'].
  - destruct S as (S1 & S2 & S3 & S4 & S5). split; [split; [|split; auto]|].
    + exists (written k acts). rewrite S1. apply peer_buf.
    + intros G. destruct (peer_gone acts k G) as [[G1|G1] _]; [left|right]; congruence.
  - destruct S as (-> & S2 & S3). split; [split; [|split; auto]|].
    + exists (written k acts). cbn. apply peer_buf.
    + intros G. now apply peer_gone.
  - destruct S as (-> & S2 & S3). split; [split; [|split; auto]|].
    + exists (written k acts). cbn. apply peer_buf.
    + intros G. now apply peer_gone.
Qed.

Lemma call_ok_trans k1 d1 k2 d2 k3 : call_ok k1 d1 k2 -> call_ok k2 d2 k3 -> call_ok k1 (d1 ++ d2) k3.
Proof. intros [w1 H1] [w2 H2]. exists (w1 ++ w2). rewrite <- app_assoc, H2, app_assoc, H1, <- app_assoc. reflexivity. Qed.
Lemma call_ok_nil_l k1 k2 d k3 : call_ok k1 [] k2 -> call_ok k2 d k3 -> call_ok k1 d k3.
Proof. intros H1 H2. apply (call_ok_trans k1 [] k2 d k3 H1 H2). Qed.
Lemma call_ok_nil_r k1 d k2 k3 : call_ok k1 d k2 -> call_ok k2 [] k3 -> call_ok k1 d k3.
Proof. intros H1 H2. rewrite <- (app_nil_r d). apply (call_ok_trans k1 d k2 [] k3 H1 H2). Qed.

(** result of one read call *)
Definition read_post (size : nat) (k : kern) (out : res * kern * sched) : Prop :=
  let '(r, k', _) := out in
  call_ok k (data_of r) k' /\ length (data_of r) <= size /\
  (r = REof -> kbuf k' = [] /\ gone k') /\           (* EOF only when drained and the peer is gone *)
  (r = RBlocked -> False).                           (* a read is only attempted after a positive poll *)

Lemma base_read_post k0 k s size : call_ok k0 [] k -> ready k = true \/ True ->
  let '(r, k', s') := base_read k s size in
  call_ok k0 (data_of r) k' /\ length (data_of r) <= size /\ (r = REof -> kbuf k' = [] /\ gone k').
Proof.
  intros H0 _. unfold base_read. pose proof (do_read_spec k s size) as R.
  destruct (do_read k s size) as [[[d| |] k'] s']; destruct R as [R _]; cbn [data_of].
  - destruct R as (R1 & R2 & _). split; [eapply call_ok_nil_l; eauto|]. split; [exact R2 | discriminate].
  - destruct R as (R1 & R2 & R3). split; [eapply call_ok_nil_l; eauto|]. split; [cbn; lia|]. intros _. split; [exact R2 | now left].
  - destruct R as (R1 & _). split; [eapply call_ok_nil_l; eauto|]. split; [cbn; lia | discriminate].
Qed.

Lemma ready_peer1 k a : ready k = true -> ready (peer1 k a) = true.
Proof.
  unfold ready. intros H. destruct a; cbn; try (now rewrite orb_true_r).
  destruct (kopen k && kalive k) eqn:E; [|exact H]. cbn.
  apply orb_prop in H as [H|H].
  - destruct (kbuf k); [discriminate|]. reflexivity.
  - apply andb_prop in E as [E _]. rewrite E in H. discriminate.
Qed.
Lemma ready_peer acts : forall k, ready k = true -> ready (peer k acts) = true.
Proof. induction acts as [|a acts IH]; intros k H; cbn [peer fold_left]; auto. apply IH. now apply ready_peer1. Qed.

Lemma do_read_ready k s n : ready k = true -> fst (fst (do_read k s n)) <> WouldBlock.
Proof.
  intros H. unfold do_read. destruct (next s) as [[acts j] s'].
  pose proof (ready_peer acts k H) as R. pose proof (sys_read_spec (peer k acts) n j) as S.
  destruct (sys_read (peer k acts) n j) as [[d| |] k']; cbn; try discriminate.
  destruct S as (-> & S2 & S3). unfold ready in R. rewrite S2, S3 in R. discriminate.
Qed.

Lemma do_poll_ready k s : fst (fst (do_poll k s)) = true -> ready (snd (fst (do_poll k s))) = true.
Proof. unfold do_poll. destruct (next s) as [[acts j] s']. cbn. auto. Qed.

(** the generic shape of a result that respects the property, relative to an earlier kernel state k0 and data d0
    already taken in this call *)
Definition ok_from (size : nat) (k0 : kern) (d0 : text) (out : res * kern * sched) : Prop :=
  let '(r, k', _) := out in
  match r with
  | RData d => exists x, d = d0 ++ x /\ call_ok k0 d k' /\ length d <= size
  | REof => d0 = [] /\ call_ok k0 [] k' /\ kbuf k' = [] /\ gone k'
  | RTimeout => d0 = [] /\ call_ok k0 [] k'
  | RBlocked => False
  end.

Lemma base_read_ok size k0 k s : call_ok k0 [] k -> ready k = true -> ok_from size k0 [] (base_read k s size).
Proof.
  intros H0 Hr. unfold base_read. pose proof (do_read_spec k s size) as R. pose proof (do_read_ready k s size Hr) as NB.
  destruct (do_read k s size) as [[[d| |] k'] s']; destruct R as [R _]; cbn [ok_from fst] in *.
  - destruct R as (R1 & R2 & _). exists d. split; [reflexivity|]. split; [eapply call_ok_nil_l; eauto | exact R2].
  - destruct R as (R1 & R2 & R3). split; [reflexivity|]. split; [eapply call_ok_nil_l; eauto|]. split; [exact R2 | now left].
  - now elim NB.
Qed.

Lemma dead_branch_ok size k0 k s : call_ok k0 [] k -> kalive k = false -> ok_from size k0 [] (pty_dead_branch k s size).
Proof.
  intros H0 Hd. unfold pty_dead_branch. pose proof (do_poll_spec k s) as P. pose proof (do_poll_ready k s) as PR.
  destruct (do_poll k s) as [[b k1] s1]. destruct P as (P1 & P2 & P3). cbn [fst snd] in PR.
  destruct b.
  - apply base_read_ok; [eapply call_ok_nil_l; eauto | now apply PR].
  - cbn [ok_from]. destruct (P2 eq_refl) as [Hb Ho]. split; [reflexivity|]. split; [eapply call_ok_nil_l; eauto|].
    split; [exact Hb|]. destruct (P3 (or_intror Hd)) as [G _]. exact G.
Qed.

Lemma pty_more_ok size : forall fuel k0 k s incoming, call_ok k0 incoming k -> length incoming <= size ->
  ok_from size k0 incoming (pty_more fuel k s size incoming) \/
  (incoming = [] /\ ok_from size k0 [] (pty_more fuel k s size incoming)).
Proof.
  induction fuel as [|f IH]; intros k0 k s inc H0 Hl; cbn [pty_more].
  - left. cbn. exists []. rewrite app_nil_r. auto.
  - destruct (Nat.ltb_spec (length inc) size) as [Hlt|Hge]; [|left; cbn; exists []; rewrite app_nil_r; auto].
    pose proof (do_poll_spec k s) as P. pose proof (do_poll_ready k s) as PR.
    destruct (do_poll k s) as [[b k1] s1]. destruct P as (P1 & _). cbn [fst snd] in PR.
    destruct b; [|left; cbn; exists []; rewrite app_nil_r; split; [reflexivity|]; split; [eapply call_ok_nil_r; eauto | exact Hl]].
    pose proof (do_read_spec k1 s1 (size - length inc)) as R.
    pose proof (do_read_ready k1 s1 (size - length inc) (PR eq_refl)) as NB.
    destruct (do_read k1 s1 (size - length inc)) as [[[d| |] k2] s2]; destruct R as [R _]; cbn [fst] in NB.
    + destruct R as (R1 & R2 & _).
      assert (H2 : call_ok k0 (inc ++ d) k2) by (eapply call_ok_trans; [eapply call_ok_nil_r; eauto | exact R1]).
      assert (Hl2 : length (inc ++ d) <= size) by (rewrite app_length; lia).
      left. destruct (IH k0 k2 s2 (inc ++ d) H2 Hl2) as [O|[E O]].
      * destruct (pty_more f k2 s2 size (inc ++ d)) as [[r k'] s']. cbn [ok_from] in *.
        destruct r; try tauto.
        -- destruct O as (x & -> & O2 & O3). exists (d ++ x). rewrite app_assoc. auto.
        -- destruct O as (O1 & O2). apply app_eq_nil in O1 as [-> ->]. split; [reflexivity | exact O2].
        -- destruct O as (O1 & O2). apply app_eq_nil in O1 as [-> ->]. split; [reflexivity | exact O2].
      * apply app_eq_nil in E as [-> ->]. cbn [app] in *. exact O.
    + (* EOF while topping up: what was read so far is returned *)
      destruct R as (R1 & _). pose proof (do_alive_spec k2 s2) as A. destruct (do_alive k2 s2) as [[a k3] s3].
      destruct A as (A1 & _). left. cbn. exists []. rewrite app_nil_r. split; [reflexivity|]. split; [|exact Hl].
      eapply call_ok_nil_r; [eapply call_ok_nil_r; [eapply call_ok_nil_r; eauto | exact R1] | exact A1].
    + now elim NB.
Qed.

(** C06 for the pty transport *)
Theorem pty_read_ok size t0 k s : ok_from size k [] (pty_read k s size t0).
Proof.
  unfold pty_read.
  pose proof (do_poll_spec k s) as P. pose proof (do_poll_ready k s) as PR.
  destruct (do_poll k s) as [[b k1] s1]. destruct P as (P1 & _). cbn [fst snd] in PR. destruct b.
  - pose proof (do_read_spec k1 s1 size) as R. pose proof (do_read_ready k1 s1 size (PR eq_refl)) as NB.
    destruct (do_read k1 s1 size) as [[[d| |] k2] s2]; destruct R as [R _]; cbn [fst] in NB.
    + destruct R as (R1 & R2 & _).
      assert (H2 : call_ok k d k2) by (eapply call_ok_nil_l; eauto).
      destruct (pty_more_ok size size k k2 s2 d H2 R2) as [O|[-> O]]; [|exact O].
      destruct (pty_more size k2 s2 size d) as [[r k'] s']. cbn [ok_from] in *. destruct r.
      * destruct O as (x & -> & O2 & O3). exists (d ++ x). auto.
      * destruct O as (-> & O). auto.
      * destruct O as (-> & O). auto.
      * exact O.
    + destruct R as (R1 & R2 & R3). pose proof (do_alive_spec k2 s2) as A. destruct (do_alive k2 s2) as [[a k3] s3].
      destruct A as (A1 & _ & A3). cbn. split; [reflexivity|].
      destruct (A3 (or_introl R3)) as [G Hb]. split; [|split; [congruence | exact G]].
      eapply call_ok_nil_l; [eapply call_ok_nil_l; eauto | exact A1].
    + now elim NB.
  - pose proof (do_alive_spec k1 s1) as A. destruct (do_alive k1 s1) as [[a k2] s2]. destruct A as (A1 & A2 & _).
    assert (H2 : call_ok k [] k2) by (eapply call_ok_nil_l; eauto).
    destruct a; [|apply dead_branch_ok; auto].
    assert (after : forall k3 s3, call_ok k [] k3 ->
              ok_from size k [] (match do_alive k3 s3 with
                                 | (false, k4, s4) => pty_dead_branch k4 s4 size
                                 | (true, k4, s4) => (RTimeout, k4, s4) end)).
    { intros k3 s3 H3. pose proof (do_alive_spec k3 s3) as A'. destruct (do_alive k3 s3) as [[a' k4] s4].
      destruct A' as (B1 & B2 & _). assert (H4 : call_ok k [] k4) by (eapply call_ok_nil_l; eauto).
      destruct a'; [cbn; auto | apply dead_branch_ok; auto]. }
    destruct t0; [now apply after|].
    pose proof (do_poll_spec k2 s2) as P'. pose proof (do_poll_ready k2 s2) as PR'.
    destruct (do_poll k2 s2) as [[b' k3] s3]. destruct P' as (Q1 & _). cbn [fst snd] in PR'.
    assert (H3 : call_ok k [] k3) by (eapply call_ok_nil_l; eauto).
    destruct b'; [apply base_read_ok; auto | now apply after].
Qed.

Theorem fd_read_ok size k s : ok_from size k [] (fd_read k s size).
Proof.
  unfold fd_read. pose proof (do_poll_spec k s) as P. pose proof (do_poll_ready k s) as PR.
  destruct (do_poll k s) as [[b k1] s1]. destruct P as (P1 & _). cbn [fst snd] in PR.
  destruct b; [apply base_read_ok; auto | cbn; auto].
Qed.

(** sequences of reads: everything returned so far followed by what is still in the kernel = what was there
    plus what the peer wrote; after an EOF the stream is drained and the peer can write no more *)
Fixpoint reads (f : kern -> sched -> nat -> res * kern * sched) (sizes : list nat) (k : kern) (s : sched)
  : list res * kern * sched :=
  match sizes with
  | [] => ([], k, s)
  | n :: r => let '(x, k1, s1) := f k s n in let '(xs, k2, s2) := reads f r k1 s1 in (x :: xs, k2, s2)
  end.

Theorem reads_conserve f : (forall size k s, ok_from size k [] (f k s size)) ->
  forall sizes k s, let '(rs, k', _) := reads f sizes k s in
  call_ok k (flat_map data_of rs) k' /\
  Forall2 (fun n r => length (data_of r) <= n) sizes rs.
Proof.
  intros Hf. induction sizes as [|n sizes IH]; intros k s; cbn [reads].
  - split; [exists []; cbn; now rewrite app_nil_r | constructor].
  - pose proof (Hf n k s) as O. destruct (f k s n) as [[x k1] s1].
    specialize (IH k1 s1). destruct (reads f sizes k1 s1) as [[xs k2] s2]. destruct IH as [I1 I2].
    cbn [flat_map]. assert (O' : call_ok k (data_of x) k1 /\ length (data_of x) <= n).
    { cbn [ok_from] in O. destruct x; cbn [data_of].
      - destruct O as (y & _ & O2 & O3). auto.
      - destruct O as (_ & O2 & _). split; [exact O2 | cbn; lia].
      - destruct O as (_ & O2). split; [exact O2 | cbn; lia].
      - destruct O. }
    destruct O' as [O1 O2]. split; [eapply call_ok_trans; eauto | constructor; auto].
Qed.

(** C06, last clause: a socket read leaves the socket's own timeout as it found it, whatever the outcome; it is the same read *)
Theorem sock_timeout_restored sk t k s size :
  let '(r, k', s', sk') := sock_read_t sk t k s size in
  own sk' = own sk /\ (r, k', s') = sock_read k s size /\ tlog sk' = tlog sk ++ [t; own sk].
Proof. unfold sock_read_t. destruct (sock_read k s size) as [[r k'] s']. cbn. auto. Qed.
