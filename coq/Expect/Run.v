(** Correspondence entry points for the Expecter model: the model instantiated with the
    executable regex engine of Base/Rx.v, results encoded as [V]. *)
From Coq Require Import ZArith NArith List Bool.
Import ListNotations.
From PV Require Import Base.V Base.PySeq Base.Rx Expect.Model.

Definition Entry := entry rx.
Definition Cfg := cfg rx.
Definition Op := op rx.

Definition enc_res (r : res) : V :=
  match r with
  | Matched idx b a (s, e) => VL [VI 0; vnat idx; vtext b; vtext a; vnat s; vnat e]
  | AtEof i b => VL [VI 1; vopt vnat i; vtext b]
  | AtTimeout i b => VL [VI 2; vopt vnat i; vtext b]
  | Errored b => VL [VI 3; vtext b]
  end.

Definition enc_step (x : option res * st * nat) : V :=
  match x with (r, s, n) => VL [vopt enc_res r; vtext (pend s); vtext (buf s); vnat n] end.

Definition hist_case := (list Op * list ev * st)%type.
Definition run_hist (c : hist_case) : V :=
  match c with (ops, evs, s0) => vlist enc_step (history rx rx_search ops s0 evs) end.

(** regex engine alone: [r.search(t, pos)] *)
Definition run_rx (c : rx * list N * nat) : V :=
  match c with (r, t, pos) =>
    vopt (fun se => VL [vnat (fst se); vnat (snd se)]) (rx_search r t pos) end.

(** Base/PySeq.v alone (job pysem): tag 0 = slice, 1 = find *)
Definition run_pysem (c : nat * list N * option Z * option Z * list N) : V :=
  match c with (tag, l, a, b, s) =>
    match tag with
    | 0 => vtext (py_slice l a b)
    | _ => vopt vnat (py_find s l (match a with Some z => z | None => 0%Z end))
    end
  end.
