(** Correspondence entry points for the Expecter model: the model instantiated with the
    executable regex engine of Base/Rx.v, results encoded as [V]. *)
From Coq Require Import ZArith NArith List Bool.
Import ListNotations.
From PV Require Import Base.V Base.PySeq Base.Rx Expect.Model.

Definition Entry := entry rx.
Definition Cfg := cfg rx.
Definition Op := op rx.

Definition enc_res (r : res) : V :=
  match r with
  | Matched idx b a (s, e) => VL [VI 0; vnat idx; vtext b; vtext a; vnat s; vnat e]
  | AtEof i b => VL [VI 1; vopt vnat i; vtext b]
  | AtTimeout i b => VL [VI 2; vopt vnat i; vtext b]
  | Errored b => VL [VI 3; vtext b]
  end.

Definition enc_step (x : option res * st * nat) : V :=
  match x with (r, s, n) => VL [vopt enc_res r; vtext (pend s); vtext (buf s); vnat n] end.

(** a history on a spawn object whose searchwindowsize attribute is [attr]; each call carries the window the caller gave
    and a flag "no window given" *)
Definition hist_case := (option nat * list (Op * bool) * list ev * st)%type.
Definition run_hist (c : hist_case) : V :=
  match c with (attr, ops, evs, s0) => vlist enc_step (history rx rx_search (map (resolve_op attr) ops) s0 evs) end.

(** regex engine alone: [r.search(t, pos)] *)
Definition run_rx (c : rx * list N * nat) : V :=
  match c with (r, t, pos) =>
    vopt (fun se => VL [vnat (fst se); vnat (snd se)]) (rx_search r t pos) end.

(** Base/PySeq.v alone (job pysem): tag 0 = slice, 1 = find *)
Definition run_pysem (c : nat * list N * option Z * option Z * list N) : V :=
  match c with (tag, l, a, b, s) =>
    match tag with
    | 0 => vtext (py_slice l a b)
    | _ => vopt vnat (py_find s l (match a with Some z => z | None => 0%Z end))
    end
  end.

(** -- the file-like wrappers (job wrappers) ---------------------------------------------------------------- *)
From PV Require Import Expect.Wrappers.
Definition crlf_rx : rx := Lit [13; 10]%N.
Definition dot_n (n : nat) : rx := Rep n Any.
Definition enc_wres (r : wres) : V :=
  match r with
  | WText t => VL [VI 0; vtext t]
  | WRaise (AtTimeout _ _) => VL [VI 1; VI 2]
  | WRaise (Errored _) => VL [VI 1; VI 3]
  | WRaise _ => VL [VI 1; VI 1]
  end.
Definition enc_lend (e : lend) : V :=
  match e with LEnd => VI 0 | LRaised (AtTimeout _ _) => VI 2 | LRaised (Errored _) => VI 3 | LRaised _ => VI 1 | LFuel => VI 9 end.
Fixpoint run_wops (Wd : option nat) (ops : list (wop rx)) (s : st) (evs : list ev) : list V :=
  match ops with
  | [] => []
  | o :: r =>
      match o with
      | WReadlines =>
          match readlines rx rx_search crlf_rx Wd 200 s evs [] with
          | (ls, fin, s', e') => VL [VL [VI 2; vlist vtext ls; enc_lend fin]; vtext (pend s'); vtext (buf s'); vnat (length e')] :: run_wops Wd r s' e'
          end
      | WCall k ps t0 =>
          match expect_loop rx rx_search {| ckind := k; pats := ps; W := Wd |} t0 s evs with
          | (x, s', e') =>
              VL [VL [VI 3; match x with
                            | Matched i b a _ => VL [VI 0; vnat i; vtext b; vtext a]
                            | AtEof i b => VL [VI 1; vopt vnat i; vtext b]
                            | AtTimeout i b => VL [VI 2; vopt vnat i; vtext b]
                            | Errored b => VL [VI 3; vtext b]
                            end]; vtext (pend s'); vtext (buf s'); vnat (length e')] :: run_wops Wd r s' e'
          end
      | _ =>
          match (match o with
                 | WReadline => readline rx rx_search crlf_rx Wd s evs
                 | WReadAll => read_all rx rx_search Wd s evs
                 | WReadN n => read_n rx rx_search dot_n Wd n s evs
                 | _ => (WText [], s, evs)
                 end) with
          | (x, s', e') => VL [enc_wres x; vtext (pend s'); vtext (buf s'); vnat (length e')] :: run_wops Wd r s' e'
          end
      end
  end.
Definition run_wrappers (c : option nat * list (wop rx) * list ev * st) : V :=
  match c with (Wd, ops, evs, s0) => VL (run_wops Wd ops s0 evs) end.
