(** Properties of the reference procedure (C01 conservation, C02 genuine/leftmost/lowest index,
    C04 EOF/TIMEOUT outcomes), transferred to the Expecter model through Expect/Refine.v. *)
From Coq Require Import ZArith NArith List Bool Arith Lia.
Import ListNotations.
From PV Require Import Base.PySeq Base.PySeqFacts Expect.Model Expect.Spec Expect.Refine.

Section Facts.
  Variable rx : Type.
  Variable re_search : rx -> text -> nat -> option (nat * nat).
  (** the only thing assumed of the regex engine for conservation: a match does not end before it starts *)
  Hypothesis re_span : forall r t p a b, re_search r t p = Some (a, b) -> a <= b.
  Notation cfg := (cfg rx).
  Notation entry := (entry rx).
  Notation nsearch := (nsearch rx re_search).
  Notation occ_full := (occ_full rx re_search).
  Notation ncall := (ncall rx re_search).
  Notation nloop := (nloop rx re_search).
  Notation expect_loop := (expect_loop rx re_search).

  (** -- the strict-< fold: earliest start wins, lowest index on ties ---------------------------- *)
  Lemma best_enum (f : entry -> option (nat * nat)) : forall l k acc,
    (forall i0 a0 b0, acc = Some (i0, a0, b0) -> i0 < k) ->
    match best (map (fun ie => (fst ie, f (snd ie))) (enumerate k l)) acc with
    | None => acc = None /\ forall e, In e l -> f e = None
    | Some (i, a, b) =>
        (acc = Some (i, a, b) \/ (k <= i /\ exists e, nth_error l (i - k) = Some e /\ f e = Some (a, b))) /\
        (forall i0 a0 b0, acc = Some (i0, a0, b0) -> a <= a0 /\ (a0 = a -> i = i0)) /\
        (forall j e a' b', nth_error l j = Some e -> f e = Some (a', b') -> a <= a' /\ (a' = a -> i <= k + j))
    end.
  Proof.
    induction l as [|e l IH]; intros k acc Hacc; cbn [enumerate map best].
    - destruct acc as [[[i a] b]|].
      + split; [now left|]. split; [intros ? ? ? [= <- <- <-]; split; auto|]. intros [|j]; discriminate.
      + split; [reflexivity | intros ? []].
    - cbn [fst snd]. destruct (f e) as [[s t]|] eqn:Ef.
      + (* e is a candidate *)
        assert (Hk : forall i0 a0 b0, Some (k, s, t) = Some (i0, a0, b0) -> i0 < S k) by (intros ? ? ? [= <- _ _]; lia).
        assert (Case1 : match best (map (fun ie => (fst ie, f (snd ie))) (enumerate (S k) l)) (Some (k, s, t)) with
                | None => False
                | Some (i, a, b) =>
                    (k <= i /\ exists e0, nth_error (e :: l) (i - k) = Some e0 /\ f e0 = Some (a, b)) /\
                    (a <= s /\ (s = a -> i = k)) /\
                    (forall j e0 a' b', nth_error (e :: l) j = Some e0 -> f e0 = Some (a', b') -> a <= a' /\ (a' = a -> i <= k + j))
                end).
        { specialize (IH (S k) (Some (k, s, t)) Hk).
          destruct (best _ (Some (k, s, t))) as [[[i a] b]|]; [|destruct IH; discriminate].
          destruct IH as (I1 & I2 & I3). destruct (I2 k s t eq_refl) as [I2a I2b].
          split; [|split; [now split|]].
          - destruct I1 as [[= -> -> ->]|(Hi & e0 & He0 & Hf)].
            + split; [lia|]. exists e. rewrite Nat.sub_diag. now split.
            + split; [lia|]. exists e0. replace (i - k) with (S (i - S k)) by lia. now split.
          - intros [|j] e0 a' b' Hn Hf.
            + cbn in Hn. injection Hn as <-. rewrite Ef in Hf. injection Hf as <- <-. split; [exact I2a|].
              intros H. rewrite (I2b H). lia.
            + cbn in Hn. destruct (I3 j e0 a' b' Hn Hf) as [J1 J2]. split; [exact J1 | intros H; specialize (J2 H); lia]. }
        destruct acc as [[[i0 a0] b0]|].
        * destruct (Nat.ltb_spec s a0) as [Hlt|Hge].
          -- destruct (best _ (Some (k, s, t))) as [[[i a] b]|]; [|destruct Case1].
             destruct Case1 as (C1 & [C2a C2b] & C3). split; [now right|]. split; [|exact C3].
             intros ? ? ? [= <- <- <-]. split; [lia | intros; lia].
          -- specialize (IH (S k) (Some (i0, a0, b0))).
             assert (Hk' : forall i1 a1 b1, Some (i0, a0, b0) = Some (i1, a1, b1) -> i1 < S k)
               by (intros ? ? ? [= <- _ _]; specialize (Hacc _ _ _ eq_refl); lia).
             specialize (IH Hk').
             destruct (best _ (Some (i0, a0, b0))) as [[[i a] b]|]; [|destruct IH; discriminate].
             destruct IH as (I1 & I2 & I3). destruct (I2 i0 a0 b0 eq_refl) as [I2a I2b].
             split; [|split; [exact I2|]].
             ++ destruct I1 as [H|(Hi & e0 & He0 & Hf)]; [now left | right].
                split; [lia|]. exists e0. replace (i - k) with (S (i - S k)) by lia. now split.
             ++ intros [|j] e0 a' b' Hn Hf.
                ** cbn in Hn. injection Hn as <-. rewrite Ef in Hf. injection Hf as <- <-. split; [lia|].
                   intros H. assert (a0 = a) by lia. rewrite (I2b H0). specialize (Hacc _ _ _ eq_refl). lia.
                ** cbn in Hn. destruct (I3 j e0 a' b' Hn Hf) as [J1 J2]. split; [exact J1 | intros H; specialize (J2 H); lia].
        * destruct (best _ (Some (k, s, t))) as [[[i a] b]|]; [|destruct Case1].
          destruct Case1 as (C1 & C2 & C3). split; [now right|]. split; [discriminate | exact C3].
      + (* e is not a candidate *)
        assert (Hacc' : forall i0 a0 b0, acc = Some (i0, a0, b0) -> i0 < S k) by (intros ? ? ? H; specialize (Hacc _ _ _ H); lia).
        specialize (IH (S k) acc Hacc').
        destruct (best _ acc) as [[[i a] b]|].
        * destruct IH as (I1 & I2 & I3). split; [|split; [exact I2|]].
          -- destruct I1 as [H|(Hi & e0 & He0 & Hf)]; [now left | right].
             split; [lia|]. exists e0. replace (i - k) with (S (i - S k)) by lia. now split.
          -- intros [|j] e0 a' b' Hn Hf.
             ++ cbn in Hn. injection Hn as <-. rewrite Ef in Hf. discriminate.
             ++ cbn in Hn. destruct (I3 j e0 a' b' Hn Hf) as [J1 J2]. split; [exact J1 | intros H; specialize (J2 H); lia].
        * destruct IH as [I1 I2]. split; [exact I1|]. intros e0 [<-|H]; [exact Ef | now apply I2].
  Qed.

  (** C02 on the reference: the reported hit is a genuine candidate of pattern [i], no listed
      pattern has a candidate that starts earlier, and on ties the first listed wins *)
  Lemma nsearch_some (c : cfg) w i a b : nsearch c w = Some (i, a, b) ->
    (exists e, nth_error (pats c) i = Some e /\ occ_full c w e = Some (a, b)) /\
    (forall j e a' b', nth_error (pats c) j = Some e -> occ_full c w e = Some (a', b') ->
                       a <= a' /\ (a' = a -> i <= j)).
  Proof.
    intros H. unfold Spec.nsearch in H.
    pose proof (best_enum (occ_full c w) (pats c) 0 None) as B. rewrite H in B.
    destruct B as (B1 & _ & B3); [discriminate|].
    destruct B1 as [B1|(_ & e & He & Hf)]; [discriminate|]. rewrite Nat.sub_0_r in He.
    split; [now exists e | exact B3].
  Qed.

  Lemma occ_full_span (c : cfg) w e a b : occ_full c w e = Some (a, b) -> a <= b.
  Proof.
    unfold Spec.occ_full. destruct (ckind c), e as [s0|r| |]; try discriminate.
    - destruct (find_from s0 w 0 0); [|discriminate]. intros [= <- <-]. lia.
    - apply re_span.
  Qed.

  (** for the string searcher "candidate" means: leftmost occurrence of the literal *)
  Lemma occ_full_exact (c : cfg) w s0 a b : ckind c = KExact -> occ_full c w (PStr s0) = Some (a, b) ->
    b = a + length s0 /\ occb s0 w a = true /\ (forall k, k < a -> occb s0 w k = false) /\
    firstn (b - a) (skipn a w) = s0.
  Proof.
    intros HK. unfold Spec.occ_full. rewrite HK. destruct (find_from s0 w 0 0) as [n|] eqn:E; [|discriminate].
    intros [= <- <-]. apply find0_some in E as (_ & E2 & E3). repeat split; auto.
    - intros k Hk. apply E3; lia.
    - replace (n + length s0 - n) with (length s0) by lia.
      unfold occb in E2. apply andb_prop in E2 as [_ E2]. apply prefixb_spec in E2 as [r ->].
      now rewrite firstn_app, Nat.sub_diag, firstn_all, app_nil_r.
  Qed.
  Lemma occ_full_exact_none (c : cfg) w s0 : ckind c = KExact -> occ_full c w (PStr s0) = None ->
    forall k, occb s0 w k = false.
  Proof.
    intros HK. unfold Spec.occ_full. rewrite HK. destruct (find_from s0 w 0 0) eqn:E; [discriminate|].
    intros _ k. apply (find0_none _ _ _ E). lia.
  Qed.

  (** -- one call of the reference: what it consumed and what it handed back ----------------------- *)
  Definition data_of (evs : list ev) : text :=
    flat_map (fun e => match e with Data d => d | _ => [] end) evs.
  Lemma data_of_app a b : data_of (a ++ b) = data_of a ++ data_of b.
  Proof. unfold data_of. now rewrite flat_map_app. Qed.

  (** the text a call hands back to the caller *)
  Definition handed (r : res) : text :=
    match r with Matched _ b a _ => b ++ a | AtEof _ b => b | _ => [] end.

  Lemma hit_conserves p x w i a b : p = x ++ w -> a <= b ->
    match hit p w (i, a, b) with (r, p') => handed r ++ p' = p end.
  Proof.
    intros -> Hab. unfold hit, handed. rewrite app_length.
    replace (length x + length w - length w + a) with (length x + a) by lia.
    rewrite <- app_assoc.
    assert (E : firstn (b - a) (skipn a w) ++ skipn b w = skipn a w).
    { replace (skipn b w) with (skipn (b - a) (skipn a w)) by (rewrite skipn_skipn; f_equal; lia).
      apply firstn_skipn. }
    rewrite E. rewrite firstn_app. replace (length x + a - length x) with a by lia.
    rewrite (firstn_all2 x) by lia. rewrite <- app_assoc. now rewrite firstn_skipn.
  Qed.

  Lemma lastW_suffix (c : cfg) p : exists x, p = x ++ lastW (W c) p.
  Proof.
    destruct (W c) as [w|]; cbn [lastW].
    - destruct (last_n_suffix w p) as (x & Hx & _). now exists x.
    - now exists [].
  Qed.

  (** the outcome of one call, in full: which events it used, and what each attribute is *)
  Definition call_post (c : cfg) (p : text) (evs : list ev) (out : res * text * list ev) : Prop :=
    match out with (r, p', evs') =>
      exists used, evs = used ++ evs' /\
      let P := p ++ data_of used in
      handed r ++ p' = P /\
      match r with
      | Matched i b a (s, e) =>
          let w := lastW (W c) P in
          nsearch c w = Some (i, s, e) /\
          b = firstn (length P - length w + s) P /\ a = firstn (e - s) (skipn s w) /\ p' = skipn e w
      | AtEof i b => i = eof_index c /\ b = P /\ p' = []
      | AtTimeout i b => i = timeout_index c /\ b = P /\ p' = P
      | Errored b => b = P /\ p' = P
      end
    end.

  Lemma nloop_post (c : cfg) t0 : forall evs p, call_post c p evs (nloop c t0 p evs).
  Proof.
    induction evs as [|e evs IH]; intros p; cbn [Spec.nloop].
    - exists []. cbn. rewrite !app_nil_r. repeat split; reflexivity.
    - destruct e as [d| | |].
      + destruct (nsearch c (lastW (W c) (p ++ d))) as [[[i a] b]|] eqn:En.
        * exists [Data d]. split; [reflexivity|]. cbn [data_of flat_map]. rewrite app_nil_r. cbn zeta.
          destruct (lastW_suffix c (p ++ d)) as [x Hx].
          destruct (nsearch_some c _ i a b En) as [(e0 & _ & Ho) _].
          pose proof (hit_conserves (p ++ d) x _ i a b Hx (occ_full_span c _ e0 a b Ho)) as HC.
          unfold hit in *. split; [exact HC|]. repeat split; auto.
        * destruct t0.
          -- exists [Data d]. split; [reflexivity|]. cbn [data_of flat_map]. rewrite app_nil_r. cbn. repeat split; reflexivity.
          -- pose proof (IH (p ++ d)) as IHp. destruct (nloop c false (p ++ d) evs) as [[r p'] evs'].
             destruct IHp as (used & Hu & HP). exists (Data d :: used). split; [cbn; now rewrite Hu|].
             cbn [data_of flat_map]. fold (data_of used). now rewrite app_assoc.
      + exists [Timeout]. cbn. rewrite !app_nil_r. repeat split; reflexivity.
      + exists [Eof]. cbn. rewrite !app_nil_r. repeat split; reflexivity.
      + exists [Err]. cbn. rewrite !app_nil_r. repeat split; reflexivity.
  Qed.

  Theorem ncall_post (c : cfg) t0 p evs : call_post c p evs (ncall c t0 p evs).
  Proof.
    unfold Spec.ncall. destruct (nsearch c (lastW (W c) p)) as [[[i a] b]|] eqn:En.
    - exists []. split; [reflexivity|]. cbn [data_of flat_map]. rewrite app_nil_r. cbn zeta.
      destruct (lastW_suffix c p) as [x Hx].
      destruct (nsearch_some c _ i a b En) as [(e0 & _ & Ho) _].
      pose proof (hit_conserves p x _ i a b Hx (occ_full_span c _ e0 a b Ho)) as HC.
      unfold hit in *. split; [exact HC|]. repeat split; auto.
    - apply nloop_post.
  Qed.


  Lemma do_search_some (c : cfg) s w fl x s' : do_search rx re_search c s w fl = (Some x, s') ->
    exists i b a sp, x = Matched i b a sp.
  Proof.
    rewrite do_search_eq. destruct (search rx re_search c w (Nat.min fl (length w))) as [[[i a] b]|].
    - intros [= <- _]. cbn. eauto.
    - discriminate.
  Qed.
  Lemma new_data_some (c : cfg) s d x s' : new_data rx re_search c s d = (Some x, s') ->
    exists i b a sp, x = Matched i b a sp.
  Proof.
    unfold Model.new_data.
    repeat match goal with |- context[if ?b then _ else _] => destruct b end; apply do_search_some.
  Qed.
  Lemma existing_data_some (c : cfg) s x s' : existing_data rx re_search c s = (Some x, s') ->
    exists i b a sp, x = Matched i b a sp.
  Proof.
    unfold Model.existing_data.
    repeat match goal with
           | |- context[if ?b then _ else _] => destruct b
           | |- context[match W c with _ => _ end] => destruct (W c)
           end; apply do_search_some.
  Qed.
  Lemma loop_eof_state (c : cfg) t0 : forall evs s r s' e', loop rx re_search c t0 s evs = (r, s', e') ->
    forall i b, r = AtEof i b -> s' = {| pend := []; buf := [] |}.
  Proof.
    induction evs as [|e evs IH]; intros s r s' e' H i b Hr; cbn [Model.loop] in H.
    - unfold Model.eof in H. now injection H as _ <- _.
    - destruct e as [d| | |].
      + destruct (new_data rx re_search c s d) as [[x|] s3] eqn:EN.
        * injection H as <- _ _. destruct (new_data_some _ _ _ _ _ EN) as (? & ? & ? & ? & ->). discriminate.
        * destruct t0; [unfold Model.timeout in H; injection H as <- _ _; discriminate | now apply (IH s3 r s' e' H i b)].
      + unfold Model.timeout in H. injection H as <- _ _. discriminate.
      + unfold Model.eof in H. now injection H as _ <- _.
      + unfold Model.errored in H. injection H as <- _ _. discriminate.
  Qed.
  Lemma expect_loop_eof_state (c : cfg) t0 s evs r s' e' : expect_loop c t0 s evs = (r, s', e') ->
    forall i b, r = AtEof i b -> s' = {| pend := []; buf := [] |}.
  Proof.
    unfold Model.expect_loop. destruct (existing_data rx re_search c s) as [[x|] s2] eqn:EE.
    - intros [= <- _ _] i b ->. destruct (existing_data_some _ _ _ _ EE) as (? & ? & ? & ? & H). discriminate.
    - apply loop_eof_state.
  Qed.

  (** -- transfer to the model of the code ------------------------------------------------------- *)
  Theorem expect_loop_post (c : cfg) t0 s evs : wfW rx c -> Inv s ->
    match expect_loop c t0 s evs with (r, s', evs') =>
      exists r2, strip r = strip r2 /\ (ckind c = KRe \/ W c <> None -> r = r2) /\
                 call_post c (pend s) evs (r2, pend s', evs') /\ Inv s'
    end.
  Proof.
    intros Hwf HI. pose proof (expect_refines rx re_search c t0 s evs Hwf HI) as A.
    pose proof (ncall_post c t0 (pend s) evs) as P.
    destruct (expect_loop c t0 s evs) as [[r s'] evs'].
    destruct (ncall c t0 (pend s) evs) as [[r2 p2] e2].
    destruct A as (A1 & A2 & A3 & A4 & A5). subst p2 e2. exists r2. auto.
  Qed.

  Lemma handed_strip r : handed (strip r) = handed r.
  Proof. destruct r; reflexivity. Qed.

  (** C01 for one call from any reachable state *)
  Theorem call_conserves (c : cfg) t0 s evs : wfW rx c -> Inv s ->
    match expect_loop c t0 s evs with (r, s', evs') =>
      exists used, evs = used ++ evs' /\ handed r ++ pend s' = pend s ++ data_of used /\ Inv s' /\
      (forall i b, r = AtTimeout i b -> b = pend s' /\ pend s' = pend s ++ data_of used) /\
      (forall i b, r = AtEof i b -> b = pend s ++ data_of used /\ pend s' = [] /\ buf s' = []) /\
      (forall b, r = Errored b -> b = pend s' /\ pend s' = pend s ++ data_of used)
    end.
  Proof.
    intros Hwf HI. pose proof (expect_loop_post c t0 s evs Hwf HI) as P.
    assert (HE : forall r s' evs', expect_loop c t0 s evs = (r, s', evs') -> forall i b, r = AtEof i b -> buf s' = pend s').
    { intros r s' evs' H i b Hr. now rewrite (expect_loop_eof_state c t0 s evs r s' evs' H i b Hr). }
    destruct (expect_loop c t0 s evs) as [[r s'] evs'] eqn:EL.
    destruct P as (r2 & P1 & _ & (used & Hu & HP) & HI'). cbn zeta in HP. destruct HP as [HC HR].
    exists used. split; [exact Hu|]. rewrite <- handed_strip, P1, handed_strip. split; [exact HC|]. split; [exact HI'|].
    repeat split.
    - destruct r2; try (subst r; discriminate). subst r. injection P1 as <- <-. now destruct HR as (_ & -> & ->).
    - destruct r2; try (subst r; discriminate). now destruct HR as (_ & _ & ->).
    - destruct r2; try (subst r; discriminate). subst r. injection P1 as <- <-. now destruct HR as (_ & -> & _).
    - destruct r2; try (subst r; discriminate). now destruct HR as (_ & _ & ->).
    - rewrite (HE _ _ _ eq_refl i b H). destruct r2; try (subst r; discriminate). now destruct HR as (_ & _ & ->).
    - destruct r2; try (subst r; discriminate). subst r. injection P1 as <-. now destruct HR as (-> & ->).
    - destruct r2; try (subst r; discriminate). now destruct HR as (_ & ->).
  Qed.

  (** C01 for whole histories of calls: what was handed back, in call order, followed by what is
      still pending, is the text that was pending at the start plus everything read since *)
  Fixpoint run_calls (cs : list (cfg * bool)) (s : st) (evs : list ev) : list res * st * list ev :=
    match cs with
    | [] => ([], s, evs)
    | (c, t0) :: r =>
        match expect_loop c t0 s evs with
        | (x, s', evs') => match run_calls r s' evs' with (xs, s'', evs'') => (x :: xs, s'', evs'') end
        end
    end.

  Theorem history_conserves : forall cs s evs, Forall (fun ct => wfW rx (fst ct)) cs -> Inv s ->
    match run_calls cs s evs with (rs, s', evs') =>
      exists used, evs = used ++ evs' /\
                   flat_map handed rs ++ pend s' = pend s ++ data_of used /\ Inv s'
    end.
  Proof.
    induction cs as [|[c t0] cs IH]; intros s evs Hwf HI; cbn [run_calls].
    - exists []. cbn. rewrite app_nil_r. auto.
    - inversion Hwf as [|? ? Hc Hcs]; subst. cbn [fst] in Hc.
      pose proof (call_conserves c t0 s evs Hc HI) as C.
      destruct (expect_loop c t0 s evs) as [[x s1] evs1].
      destruct C as (u1 & Hu1 & HC1 & HI1 & _).
      specialize (IH s1 evs1 Hcs HI1). destruct (run_calls cs s1 evs1) as [[xs s2] evs2].
      destruct IH as (u2 & Hu2 & HC2 & HI2).
      exists (u1 ++ u2). split; [now rewrite Hu1, Hu2, app_assoc|]. split; [|exact HI2].
      cbn [flat_map]. rewrite <- app_assoc, HC2, app_assoc, HC1, data_of_app. now rewrite app_assoc.
  Qed.

  (** assigning to the buffer attribute replaces the pending text: whatever the state was, the next
      call behaves exactly as on a fresh object whose pending text is v *)
  Theorem set_buffer_replaces v : pend (set_buffer v) = v /\ buf (set_buffer v) = v /\ Inv (set_buffer v).
  Proof. repeat split. apply Inv_same. Qed.

  (** C02 on the model of the code *)
  Theorem match_is_genuine_leftmost (c : cfg) t0 s evs : wfW rx c -> Inv s ->
    forall i b a sp s' evs', expect_loop c t0 s evs = (Matched i b a sp, s', evs') ->
    exists used st en, evs = used ++ evs' /\
      let P := pend s ++ data_of used in           (* all pending text at the read that matched *)
      let w := lastW (W c) P in                    (* the text that was searched *)
      (* pattern i is a text pattern whose leftmost candidate in w is (st, en) ... *)
      (exists e, nth_error (pats c) i = Some e /\ occ_full c w e = Some (st, en)) /\
      (* ... after is that occurrence and before ends where it starts ... *)
      a = firstn (en - st) (skipn st w) /\ b = firstn (length P - length w + st) P /\
      b ++ a ++ pend s' = P /\
      (* ... the match object's span is this span (regex searcher / window in force) ... *)
      (ckind c = KRe \/ W c <> None -> sp = (st, en)) /\
      (* ... no listed pattern has a candidate that starts earlier; on ties the first listed wins *)
      (forall j e a' b', nth_error (pats c) j = Some e -> occ_full c w e = Some (a', b') ->
                         st <= a' /\ (a' = st -> i <= j)).
  Proof.
    intros Hwf HI i b a sp s' evs' H.
    pose proof (expect_loop_post c t0 s evs Hwf HI) as P. rewrite H in P.
    destruct P as (r2 & P1 & P2 & (used & Hu & HP) & _). cbn zeta in HP. destruct HP as [HC HR].
    destruct r2 as [i2 b2 a2 [st en]| | |]; try discriminate. injection P1 as <- <- <-.
    destruct HR as (Hn & Hb & Ha & Hp').
    destruct (nsearch_some c _ _ _ _ Hn) as [Hgen Hleft].
    exists used, st, en. split; [exact Hu|]. cbn zeta.
    split; [exact Hgen|]. split; [exact Ha|]. split; [exact Hb|].
    split; [cbn [handed] in HC; now rewrite <- app_assoc in HC|].
    split; [intros Hk; now injection (P2 Hk) as ->|]. exact Hleft.
  Qed.

  (** C04 on the model of the code: EOF / TIMEOUT outcomes *)
  Theorem eof_timeout_outcomes (c : cfg) t0 s evs : wfW rx c -> Inv s ->
    match expect_loop c t0 s evs with (r, s', evs') =>
      exists used, evs = used ++ evs' /\
      let P := pend s ++ data_of used in
      match r with
      | AtEof i b => i = eof_index c /\ b = P /\ pend s' = [] /\ buf s' = []
      | AtTimeout i b => i = timeout_index c /\ b = P /\ pend s' = P
      | Errored b => b = P /\ pend s' = P
      | Matched _ _ _ _ => True
      end
    end.
  Proof.
    intros Hwf HI. pose proof (expect_loop_post c t0 s evs Hwf HI) as P.
    destruct (expect_loop c t0 s evs) as [[r s'] evs'] eqn:EL.
    destruct P as (r2 & P1 & _ & (used & Hu & HP) & _). cbn zeta in HP. destruct HP as [_ HR].
    exists used. split; [exact Hu|]. cbn zeta.
    destruct r as [| i b | i b | b]; [exact I | | |]; destruct r2; try discriminate; injection P1 as <- <- || injection P1 as <-.
    - destruct HR as (-> & -> & Hp). repeat split; auto.
      now rewrite (expect_loop_eof_state c t0 s evs _ _ _ EL _ _ eq_refl).
    - destruct HR as (-> & -> & Hp). now repeat split.
    - destruct HR as (-> & Hp). now repeat split.
  Qed.

  (** an occurrence already present in the searchable pending text wins, whatever the transport
      does next (EOF, TIMEOUT, error, timeout 0): the call consumes no event and reports the match *)
  Theorem pending_match_wins (c : cfg) t0 s evs h : wfW rx c -> Inv s ->
    nsearch c (lastW (W c) (pend s)) = Some h ->
    exists i b a sp s', expect_loop c t0 s evs = (Matched i b a sp, s', evs) /\
                        strip (Matched i b a sp) = strip (fst (hit (pend s) (lastW (W c) (pend s)) h)).
  Proof.
    intros Hwf HI Hn. unfold Model.expect_loop.
    pose proof (existing_refines rx re_search c s Hwf HI) as E. rewrite Hn in E. rewrite E.
    destruct h as [[i a] b]. cbn [hit fst]. eexists _, _, _, _, _. split; reflexivity.
  Qed.

  (** where EOF / TIMEOUT are listed: the position in the original list (the last one when listed twice) *)
  Lemma last_index_spec (p : entry -> bool) (l : list entry) :
    match last_index p l with
    | Some i => (exists e, nth_error l i = Some e /\ p e = true) /\
                forall j e, nth_error l j = Some e -> p e = true -> j <= i
    | None => forall e, In e l -> p e = false
    end.
  Proof.
    unfold Model.last_index.
    assert (G : forall l k acc,
      (match acc with Some i => i < k | None => True end) ->
      match fold_left (fun acc ie => if p (snd ie) then Some (fst ie) else acc) (enumerate k l) acc with
      | Some i => (acc = Some i /\ (forall e, In e l -> p e = false)) \/
                  (k <= i /\ (exists e, nth_error l (i - k) = Some e /\ p e = true) /\
                   forall j e, nth_error l j = Some e -> p e = true -> k + j <= i)
      | None => acc = None /\ forall e, In e l -> p e = false
      end).
    { clear l. induction l as [|e l IH]; intros k acc Hacc; cbn [enumerate fold_left fst snd].
      - destruct acc; [left; split; [reflexivity | intros ? []] | split; [reflexivity | intros ? []]].
      - destruct (p e) eqn:Ep.
        + specialize (IH (S k) (Some k) (Nat.lt_succ_diag_r k)).
          destruct (fold_left _ (enumerate (S k) l) (Some k)) as [i|]; [|destruct IH; discriminate].
          right. destruct IH as [[[= <-] Hnone]|(Hi & (e0 & He0 & Hp0) & Hmax)].
          * split; [lia|]. split; [exists e; rewrite Nat.sub_diag; now split|].
            intros [|j] e0 Hn Hp0; [lia|]. cbn in Hn. apply nth_error_In in Hn. rewrite (Hnone _ Hn) in Hp0. discriminate.
          * split; [lia|]. split; [exists e0; replace (i - k) with (S (i - S k)) by lia; now split|].
            intros [|j] e1 Hn Hp1; [lia|]. cbn in Hn. specialize (Hmax j e1 Hn Hp1). lia.
        + assert (Hacc' : match acc with Some i => i < S k | None => True end) by (destruct acc; [lia | exact I]).
          specialize (IH (S k) acc Hacc').
          destruct (fold_left _ (enumerate (S k) l) acc) as [i|].
          * destruct IH as [[-> Hnone]|(Hi & (e0 & He0 & Hp0) & Hmax)].
            -- left. split; [reflexivity|]. intros e0 [<-|H]; [exact Ep | now apply Hnone].
            -- right. split; [lia|]. split; [exists e0; replace (i - k) with (S (i - S k)) by lia; now split|].
               intros [|j] e1 Hn Hp1; [cbn in Hn; injection Hn as <-; rewrite Ep in Hp1; discriminate|].
               cbn in Hn. specialize (Hmax j e1 Hn Hp1). lia.
          * destruct IH as [-> Hnone]. split; [reflexivity|]. intros e0 [<-|H]; [exact Ep | now apply Hnone]. }
    specialize (G l 0 None I).
    destruct (fold_left _ (enumerate 0 l) None) as [i|].
    - destruct G as [[? _]|(_ & (e & He & Hp) & Hmax)]; [discriminate|]. rewrite Nat.sub_0_r in He.
      split; [now exists e | exact Hmax].
    - now destruct G.
  Qed.

  Theorem eof_sticky (c : cfg) t0 : nsearch c [] = None ->
    expect_loop c t0 {| pend := []; buf := [] |} [] = (AtEof (eof_index c) [], {| pend := []; buf := [] |}, []).
  Proof.
    intros Hn. unfold Model.expect_loop.
    assert (D : forall fl, do_search rx re_search c {| pend := []; buf := [] |} [] fl = (None, {| pend := []; buf := [] |})).
    { intros fl. rewrite do_search_eq. cbn [length Nat.min].
      assert (search rx re_search c [] (Nat.min fl 0) = nsearch c []) as ->.
      { apply search_full; [intros; cbn; lia | intros; cbn; lia]. }
      rewrite Hn. unfold trim. destruct (maintain c); [|reflexivity]. cbn [buf length]. now destruct n. }
    assert (E : existing_data rx re_search c {| pend := []; buf := [] |} = (None, {| pend := []; buf := [] |})).
    { unfold Model.existing_data. cbn [pend buf length]. change (0 <? 0) with false. cbv iota.
      destruct (W c) as [w|]; [destruct (truthy (Some w))|]; cbn [Nat.sub skipn]; apply D. }
    rewrite E. reflexivity.
  Qed.
End Facts.

(** which search window a call uses (Expecter.__init__) *)
Lemma resolve_window_spec (attr : option nat) :
  (forall w, resolve_window (Some w) attr = w) /\ resolve_window None attr = attr.
Proof. split; reflexivity. Qed.
