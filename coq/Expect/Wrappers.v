(** C01: the file-like wrappers of SpawnBase (spawnbase.py read / readline / readlines / __iter__) as compositions of
    expect(), on top of the Expecter model. *)
From Coq Require Import ZArith NArith List Bool Arith.
Import ListNotations.
From PV Require Import Base.PySeq Expect.Model.

Section Wrappers.
  Variable rx : Type.
  Variable re_search : rx -> text -> nat -> option (nat * nat).
  Variable crlf_rx : rx.                      (* the compiled pattern '\r\n' *)
  Variable dot_n : nat -> rx.                 (* the compiled pattern '.{n}' with DOTALL *)
  Variable Wd : option nat.                   (* the searchwindowsize of the spawn object *)

  Definition crlf : text := [13; 10]%N.

  (** a wrapper returns a text or lets the exception of expect() through *)
  Inductive wres := WText (t : text) | WRaise (r : res).

  Definition line_cfg : cfg rx := {| ckind := KRe; pats := [PRe crlf_rx; @PEof rx]; W := Wd |}.
  Definition all_cfg : cfg rx := {| ckind := KRe; pats := [@PEof rx]; W := Wd |}.
  Definition n_cfg (n : nat) : cfg rx := {| ckind := KRe; pats := [PRe (dot_n n); @PEof rx]; W := Wd |}.

  (** readline(): index 0 -> before + crlf, EOF -> before *)
  Definition readline (s : st) (evs : list ev) : wres * st * list ev :=
    match expect_loop rx re_search line_cfg false s evs with
    | (Matched 0 b _ _, s', e') => (WText (b ++ crlf), s', e')
    | (Matched _ b _ _, s', e') => (WText b, s', e')
    | (AtEof (Some _) b, s', e') => (WText b, s', e')
    | (r, s', e') => (WRaise r, s', e')
    end.

  (** read(-1): expect(EOF), return before *)
  Definition read_all (s : st) (evs : list ev) : wres * st * list ev :=
    match expect_loop rx re_search all_cfg false s evs with
    | (AtEof (Some _) b, s', e') => (WText b, s', e')
    | (Matched _ b _ _, s', e') => (WText b, s', e')
    | (r, s', e') => (WRaise r, s', e')
    end.

  (** read(n), n > 0: expect(['.{n}', EOF]); index 0 -> after, EOF -> before.  read(0) returns '' without reading. *)
  Definition read_n (n : nat) (s : st) (evs : list ev) : wres * st * list ev :=
    match n with
    | 0 => (WText [], s, evs)
    | _ => match expect_loop rx re_search (n_cfg n) false s evs with
           | (Matched 0 _ a _, s', e') => (WText a, s', e')
           | (Matched _ b _ _, s', e') => (WText b, s', e')
           | (AtEof (Some _) b, s', e') => (WText b, s', e')
           | (r, s', e') => (WRaise r, s', e')
           end
    end.

  (** readlines() / iteration: readline until it returns '' (or raises); [fuel] bounds the number of lines *)
  Inductive lend := LEnd | LRaised (r : res) | LFuel.
  Fixpoint readlines (fuel : nat) (s : st) (evs : list ev) (acc : list text) : list text * lend * st * list ev :=
    match fuel with
    | 0 => (acc, LFuel, s, evs)
    | S f => match readline s evs with
             | (WText [], s', e') => (acc, LEnd, s', e')
             | (WText l, s', e') => readlines f s' e' (acc ++ [l])
             | (WRaise r, s', e') => (acc, LRaised r, s', e')
             end
    end.

  (** histories of wrapper calls *)
  Inductive wop := WReadline | WReadAll | WReadN (n : nat) | WReadlines
               | WCall (k : kind) (ps : list (entry rx)) (t0 : bool).      (* an ordinary expect-family call in between *)
End Wrappers.
Arguments WReadline {rx}.
Arguments WReadAll {rx}.
Arguments WReadN {rx} n.
Arguments WReadlines {rx}.
Arguments WCall {rx} k ps t0.
