(** The naive reference procedure of property C03: "after each read, search all pending text
    (or its last W characters)" - independent of the incremental machinery of the Expecter. *)
From Coq Require Import ZArith NArith List Bool Arith.
Import ListNotations.
From PV Require Import Base.PySeq Expect.Model.

Section Spec.
  Variable rx : Type.
  Variable re_search : rx -> text -> nat -> option (nat * nat).
  Notation cfg := (cfg rx).
  Notation entry := (entry rx).

  (** the text that is searchable: all pending text, or its last w characters *)
  Definition lastW (w : option nat) (p : text) : text :=
    match w with Some n => last_n n p | None => p end.

  (** leftmost occurrence of one list entry in the window, by scanning from position 0 *)
  Definition occ_full (c : cfg) (window : text) (e : entry) : option (nat * nat) :=
    match ckind c, e with
    | KExact, PStr s => match find_from s window 0 0 with
                        | Some n => Some (n, n + length s)
                        | None => None
                        end
    | KRe, PRe r => re_search r window 0
    | _, _ => None
    end.

  Definition nsearch (c : cfg) (window : text) : option (nat * nat * nat) :=
    best (map (fun ie => (fst ie, occ_full c window (snd ie))) (enumerate 0 (pats c))) None.

  (** a hit at window span (a, b): before = everything up to the occurrence (including the text
      in front of the window), after = the occurrence, new pending text = what follows it *)
  Definition hit (p window : text) (h : nat * nat * nat) : res * text :=
    match h with (idx, a, b) =>
      (Matched idx (firstn (length p - length window + a) p) (firstn (b - a) (skipn a window)) (a, b),
       skipn b window)
    end.

  Fixpoint nloop (c : cfg) (t0 : bool) (p : text) (evs : list ev) : res * text * list ev :=
    match evs with
    | [] => (AtEof (eof_index c) p, [], [])
    | Data d :: r =>
        let p' := p ++ d in
        match nsearch c (lastW (W c) p') with
        | Some h => (hit p' (lastW (W c) p') h, r)
        | None => if t0 then (AtTimeout (timeout_index c) p', p', r) else nloop c t0 p' r
        end
    | Timeout :: r => (AtTimeout (timeout_index c) p, p, r)
    | Eof :: r => (AtEof (eof_index c) p, [], r)
    | Err :: r => (Errored p, p, r)
    end.

  Definition ncall (c : cfg) (t0 : bool) (p : text) (evs : list ev) : res * text * list ev :=
    match nsearch c (lastW (W c) p) with
    | Some h => (hit p (lastW (W c) p) h, evs)
    | None => nloop c t0 p evs
    end.

  (** histories on the reference: the only state is the pending text *)
  Fixpoint nhistory (ops : list (op rx)) (p : text) (evs : list ev) : list (option res * text * nat) :=
    match ops with
    | [] => []
    | Call c t0 :: r => match ncall c t0 p evs with
                        | (x, p', evs') => (Some x, p', length evs') :: nhistory r p' evs'
                        end
    | SetBuffer v :: r => (None, v, length evs) :: nhistory r v evs
    end.

  (** results compared up to the window-relative span (the string searcher's span is not part
      of the API; for the regex searcher the spans agree exactly) *)
  Definition strip (r : res) : res :=
    match r with Matched i b a _ => Matched i b a (0, 0) | x => x end.
End Spec.
