(** Executable model of pexpect/expect.py: Expecter (do_search, existing_data, new_data, eof,
    timeout, errored, expect_loop), searcher_string.search, searcher_re.search, and the
    SpawnBase.buffer setter.  Written function by function after the Python; no proofs here.

    Texts are [list N] (bytes or code points: the Python code is polymorphic in the same way).
    The regular-expression engine is a parameter ([re_search r text pos] stands for
    [r.search(text, pos)] and returns the span of the match). *)
From Coq Require Import ZArith NArith List Bool Arith.
Import ListNotations.
From PV Require Import Base.PySeq.

Section WithRe.
  Variable rx : Type.
  Variable re_search : rx -> text -> nat -> option (nat * nat).

  Inductive entry := PStr (s : text) | PRe (r : rx) | PEof | PTimeout.
  Inductive kind := KExact | KRe.

  (** one expect call: which searcher class, the pattern list as given, the search window
      (None, or Some w; the documented domain is w >= 1) *)
  Record cfg := { ckind : kind; pats : list entry; W : option nat }.

  (** spawn._before (untrimmed pending text) and spawn._buffer (search buffer) *)
  Record st := { pend : text; buf : text }.

  Inductive res :=
  | Matched (idx : nat) (before after : text) (span : nat * nat)
  | AtEof (idx : option nat) (before : text)        (* Some i: EOF is listed at i; None: EOF raised *)
  | AtTimeout (idx : option nat) (before : text)
  | Errored (before : text).

  Inductive ev := Data (d : text) | Timeout | Eof | Err.

  (** -- the searchers ------------------------------------------------------------------ *)
  Fixpoint enumerate {A} (i : nat) (l : list A) : list (nat * A) :=
    match l with [] => [] | x :: r => (i, x) :: enumerate (S i) r end.

  (** searcher_*.__init__: eof_index / timeout_index = the LAST such entry *)
  Definition last_index (p : entry -> bool) (l : list entry) : option nat :=
    fold_left (fun acc ie => if p (snd ie) then Some (fst ie) else acc) (enumerate 0 l) None.
  Definition is_eof e := match e with PEof => true | _ => false end.
  Definition is_timeout e := match e with PTimeout => true | _ => false end.
  Definition eof_index (c : cfg) := last_index is_eof (pats c).
  Definition timeout_index (c : cfg) := last_index is_timeout (pats c).

  Definition longest (l : list entry) : nat :=
    fold_left (fun m e => match e with PStr s => Nat.max m (length s) | _ => m end) l 0.
  (** Expecter.lookback: longest_string for the string searcher, None for the regex searcher *)
  Definition lookback (c : cfg) : option nat :=
    match ckind c with KExact => Some (longest (pats c)) | KRe => None end.

  (** candidate span of one list entry (expect.py:265-276 and 353-365) *)
  Definition cand (c : cfg) (window : text) (freshlen : nat) (e : entry) : option (nat * nat) :=
    match ckind c, e with
    | KExact, PStr s =>
        let off := match W c with
                   | None => (- Z.of_nat (freshlen + length s))%Z
                   | Some w => (- Z.of_nat w)%Z
                   end in
        match py_find s window off with Some n => Some (n, n + length s) | None => None end
    | KRe, PRe r =>
        let start := match W c with None => 0 | Some w => length window - w end in
        re_search r window start
    | _, _ => None
    end.

  (** the strict-< fold over the list: earliest start wins, first listed wins ties *)
  Fixpoint best (cs : list (nat * option (nat * nat))) (acc : option (nat * nat * nat))
    : option (nat * nat * nat) :=
    match cs with
    | [] => acc
    | (i, None) :: r => best r acc
    | (i, Some (s, e)) :: r =>
        match acc with
        | None => best r (Some (i, s, e))
        | Some (_, s0, _) => if s <? s0 then best r (Some (i, s, e)) else best r acc
        end
    end.

  Definition search (c : cfg) (window : text) (freshlen : nat) : option (nat * nat * nat) :=
    best (map (fun ie => (fst ie, cand c window freshlen (snd ie))) (enumerate 0 (pats c))) None.

  (** -- Expecter ------------------------------------------------------------------------ *)
  (** [self.searchwindowsize or self.lookback] when truthy *)
  Definition maintain (c : cfg) : option nat :=
    if truthy (W c) then W c else if truthy (lookback c) then lookback c else None.

  (** expect.py:18-40 *)
  Definition do_search (c : cfg) (s : st) (window : text) (freshlen : nat) : option res * st :=
    let freshlen := Nat.min freshlen (length window) in
    match search c window freshlen with
    | Some (idx, a, b) =>
        let rest := skipn b window in
        let before := py_slice (pend s) None
                        (Some (Z.of_nat (length (pend s)) - (Z.of_nat (length window) - Z.of_nat a))%Z) in
        (Some (Matched idx before (py_slice window (Some (Z.of_nat a)) (Some (Z.of_nat b))) (a, b)),
         {| pend := rest; buf := rest |})
    | None =>
        match maintain c with
        | Some m => if m <? length (buf s)
                    then (None, {| pend := pend s; buf := py_tail m window |})
                    else (None, s)
        | None => (None, s)
        end
    end.

  (** expect.py:42-70 *)
  Definition existing_data (c : cfg) (s : st) : option res * st :=
    let before_len := length (pend s) in
    let buf_len := length (buf s) in
    if buf_len <? before_len then
      if negb (truthy (W c)) then
        do_search c {| pend := pend s; buf := pend s |} (pend s) before_len
      else
        let w := match W c with Some w => w | None => 0 end in
        if buf_len <? w then
          let window := skipn (before_len - w) (pend s) in
          do_search c {| pend := pend s; buf := window |} window before_len
        else
          do_search c s (skipn (buf_len - w) (buf s)) before_len
    else
      match W c with
      | Some w => if truthy (W c) then do_search c s (skipn (buf_len - w) (buf s)) before_len
                  else do_search c s (buf s) before_len
      | None => do_search c s (buf s) before_len
      end.

  (** expect.py:72-98 *)
  Definition new_data (c : cfg) (s : st) (d : text) : option res * st :=
    let freshlen := length d in
    let pend' := pend s ++ d in
    if negb (truthy (W c)) then
      if truthy (lookback c) then
        let L := match lookback c with Some l => l | None => 0 end in
        let old_len := length (buf s) in
        let buf' := buf s ++ d in
        do_search c {| pend := pend'; buf := buf' |} (skipn (old_len - L) buf') freshlen
      else
        let buf' := buf s ++ d in
        do_search c {| pend := pend'; buf := buf' |} buf' freshlen
    else
      let w := match W c with Some w => w | None => 0 end in
      if (w <=? length d) || match buf s with [] => true | _ => false end then
        let window := py_tail w d in
        do_search c {| pend := pend'; buf := py_tail w window |} window freshlen
      else
        let buf' := buf s ++ d in
        do_search c {| pend := pend'; buf := buf' |} (skipn (length buf' - w) buf') freshlen.

  (** expect.py:100-144 *)
  Definition eof (c : cfg) (s : st) : res * st :=
    (AtEof (eof_index c) (pend s), {| pend := []; buf := [] |}).
  Definition timeout (c : cfg) (s : st) : res * st :=
    (AtTimeout (timeout_index c) (pend s), s).
  Definition errored (c : cfg) (s : st) : res * st := (Errored (pend s), s).

  (** expect.py:153-184.  The loop is driven by what the transport delivers: [Data d] is a
      successful read_nonblocking, [Timeout] stands for a TIMEOUT raised by the read or by the
      deadline test at the loop head, [Eof] for EOF, [Err] for any other exception; an
      exhausted list means the stream has ended (EOF from then on). *)
  Fixpoint loop (c : cfg) (t0 : bool) (s : st) (evs : list ev) : res * st * list ev :=
    match evs with
    | [] => (eof c s, [])
    | Data d :: r =>
        match new_data c s d with
        | (Some x, s') => (x, s', r)
        | (None, s') => if t0 then (timeout c s', r) else loop c t0 s' r
        end
    | Timeout :: r => (timeout c s, r)
    | Eof :: r => (eof c s, r)
    | Err :: r => (errored c s, r)
    end.

  (** [t0] = the call was made with timeout 0: pending text is searched, one read is attempted,
      and the deadline test at the head of the next iteration reports TIMEOUT *)
  Definition expect_loop (c : cfg) (t0 : bool) (s : st) (evs : list ev) : res * st * list ev :=
    match existing_data c s with
    | (Some x, s') => (x, s', evs)
    | (None, s') => loop c t0 s' evs
    end.

  (** SpawnBase.buffer = v  (spawnbase.py:_set_buffer) *)
  Definition set_buffer (v : text) : st := {| pend := v; buf := v |}.

  (** a history: expect calls and buffer assignments over one event stream *)
  Inductive op := Call (c : cfg) (t0 : bool) | SetBuffer (v : text).
  Fixpoint history (ops : list op) (s : st) (evs : list ev) : list (option res * st * nat) :=
    match ops with
    | [] => []
    | Call c t0 :: r => match expect_loop c t0 s evs with
                     | (x, s', evs') => (Some x, s', length evs') :: history r s' evs'
                     end
    | SetBuffer v :: r => (None, set_buffer v, length evs) :: history r (set_buffer v) evs
    end.

  (** Expecter.__init__ (expect.py): which search window a call uses.  [given = None]: the caller passed nothing (-1), the
      searchwindowsize attribute of the spawn object decides; [given = Some w]: the caller's own value, where w = None means
      "search everything" whatever the attribute says. *)
  Definition resolve_window (given : option (option nat)) (attr : option nat) : option nat :=
    match given with Some w => w | None => attr end.
  Definition resolve_op (attr : option nat) (o : op * bool) : op :=
    match o with
    | (Call c t0, true) => Call {| ckind := ckind c; pats := pats c; W := resolve_window None attr |} t0
    | (o', _) => o'
    end.
End WithRe.

Arguments PStr {rx}. Arguments PRe {rx}. Arguments PEof {rx}. Arguments PTimeout {rx}.
Arguments ckind {rx}. Arguments pats {rx}. Arguments W {rx}. Arguments Build_cfg {rx}.
Arguments Call {rx}. Arguments SetBuffer {rx}. Arguments resolve_op {rx}.
Arguments eof_index {rx}. Arguments timeout_index {rx}. Arguments lookback {rx}. Arguments longest {rx}.
Arguments maintain {rx}. Arguments is_eof {rx}. Arguments is_timeout {rx}. Arguments last_index {rx}.
Arguments eof {rx}. Arguments timeout {rx}. Arguments errored {rx}.
