(** C03: the incremental Expecter refines the naive reference procedure. *)
From Coq Require Import ZArith NArith List Bool Arith Lia.
Import ListNotations.
From PV Require Import Base.PySeq Base.PySeqFacts Expect.Model Expect.Spec.

Section Refine.
  Variable rx : Type.
  Variable re_search : rx -> text -> nat -> option (nat * nat).
  Notation cfg := (cfg rx).
  Notation entry := (entry rx).
  Notation search := (search rx re_search).
  Notation cand := (cand rx re_search).
  Notation nsearch := (nsearch rx re_search).
  Notation occ_full := (occ_full rx re_search).
  Notation do_search := (do_search rx re_search).
  Notation existing_data := (existing_data rx re_search).
  Notation new_data := (new_data rx re_search).
  Notation loop := (loop rx re_search).
  Notation expect_loop := (expect_loop rx re_search).
  Notation nloop := (nloop rx re_search).
  Notation ncall := (ncall rx re_search).

  (** documented domain of the search window: None or a positive number *)
  Definition wfW (c : cfg) : Prop := match W c with Some w => 1 <= w | None => True end.
  (** between calls: the search buffer is a suffix of the untrimmed pending text *)
  Definition Inv (s : st) : Prop := exists x, pend s = x ++ buf s.

  (** -- general slice facts (no bounds needed) ------------------------------------------ *)
  Lemma py_slice_prefix_gen {A} (l : list A) k : py_slice l None (Some (Z.of_nat k)) = firstn k l.
  Proof.
    unfold py_slice. cbn [skipn]. rewrite Nat.sub_0_r.
    destruct (Nat.le_gt_cases k (length l)) as [H|H].
    - f_equal. norm_tac.
    - assert (norm_idx (length l) (Z.of_nat k) = length l) as -> by norm_tac.
      now rewrite !firstn_all2 by lia.
  Qed.

  Lemma py_slice_mid_gen {A} (l : list A) a b :
    py_slice l (Some (Z.of_nat a)) (Some (Z.of_nat b)) = firstn (b - a) (skipn a l).
  Proof.
    unfold py_slice.
    destruct (Nat.le_gt_cases a (length l)) as [Ha|Ha].
    - assert (norm_idx (length l) (Z.of_nat a) = a) as -> by norm_tac.
      destruct (Nat.le_gt_cases b (length l)) as [Hb|Hb].
      + assert (norm_idx (length l) (Z.of_nat b) = b) as -> by norm_tac. reflexivity.
      + assert (norm_idx (length l) (Z.of_nat b) = length l) as -> by norm_tac.
        rewrite !firstn_all2; try reflexivity; rewrite skipn_length; lia.
    - assert (norm_idx (length l) (Z.of_nat a) = length l) as -> by norm_tac.
      rewrite !skipn_all2 by lia. now rewrite !firstn_nil.
  Qed.

  (** -- the strict-< fold commutes with shifting all spans ------------------------------ *)
  Definition shift (o : nat) (x : option (nat * nat)) : option (nat * nat) :=
    match x with Some (a, b) => Some (o + a, o + b) | None => None end.
  Definition shift3 (o : nat) (x : option (nat * nat * nat)) : option (nat * nat * nat) :=
    match x with Some (i, a, b) => Some (i, o + a, o + b) | None => None end.

  Lemma best_shift o cs acc :
    best (map (fun ic => (fst ic, shift o (snd ic))) cs) (shift3 o acc) = shift3 o (best cs acc).
  Proof.
    revert acc. induction cs as [|[i [[a b]|]] cs IH]; intros acc; cbn [map best fst snd shift].
    - reflexivity.
    - destruct acc as [[[i0 a0] b0]|]; cbn [shift3].
      + replace (o + a <? o + a0) with (a <? a0)
          by (destruct (Nat.ltb_spec a a0), (Nat.ltb_spec (o + a) (o + a0)); try reflexivity; lia).
        destruct (a <? a0); [apply (IH (Some (i, a, b))) | apply (IH (Some (i0, a0, b0)))].
      + apply (IH (Some (i, a, b))).
    - apply IH.
  Qed.

  Lemma best_ext cs cs' acc : map snd cs = map snd cs' -> map fst cs = map fst cs' -> best cs acc = best cs' acc.
  Proof.
    intros H1 H2. assert (cs = cs') as ->; [|reflexivity].
    revert cs' H1 H2. induction cs as [|[i x] cs IH]; intros [|[i' x'] cs']; cbn; try discriminate; auto.
    intros [= -> H1] [= -> H2]. f_equal. now apply IH.
  Qed.

  (** search as a map over the enumerated pattern list *)
  Lemma search_by_cands (c : cfg) window fl (f : entry -> option (nat * nat)) :
    (forall e, In e (pats c) -> cand c window fl e = f e) ->
    search c window fl = best (map (fun ie => (fst ie, f (snd ie))) (enumerate 0 (pats c))) None.
  Proof.
    intros H. unfold Model.search. f_equal.
    assert (G : forall i l, (forall e, In e l -> cand c window fl e = f e) ->
              map (fun ie => (fst ie, cand c window fl (snd ie))) (enumerate i l) =
              map (fun ie => (fst ie, f (snd ie))) (enumerate i l)).
    { intros i l; revert i; induction l as [|e l IH]; intros i Hl; cbn; [reflexivity|].
      rewrite Hl by (left; reflexivity). f_equal. apply IH. intros e' He'. apply Hl. now right. }
    apply G, H.
  Qed.

  Lemma best_acc_some cs x : best cs (Some x) <> None.
  Proof.
    revert x. induction cs as [|[i [[a b]|]] cs IH]; intros [[i0 a0] b0]; cbn [best]; try discriminate; auto.
    destruct (a <? a0); apply IH.
  Qed.

  Lemma best_none cs : best cs None = None -> forall ic, In ic cs -> snd ic = None.
  Proof.
    induction cs as [|[i [[a b]|]] cs IH]; cbn [best]; intros H ic Hin.
    - destruct Hin.
    - exfalso. now apply (best_acc_some cs (i, a, b)).
    - destruct Hin as [<-|Hin]; [reflexivity | now apply IH].
  Qed.

  Lemma in_enumerate {A} (l : list A) : forall i e, In e l -> exists k, In (k, e) (enumerate i l).
  Proof.
    induction l as [|x l IH]; intros i e [].
    - subst. exists i. now left.
    - destruct (IH (S i) e H) as [k Hk]. exists k. now right.
  Qed.

  Lemma nsearch_none (c : cfg) window : nsearch c window = None ->
    forall e, In e (pats c) -> occ_full c window e = None.
  Proof.
    intros H e He. unfold Spec.nsearch in H.
    destruct (in_enumerate (pats c) 0 e He) as [k Hk].
    apply (best_none _ H (k, occ_full c window e)).
    apply (in_map (fun ie => (fst ie, occ_full c window (snd ie))) _ (k, e)) in Hk. exact Hk.
  Qed.

  (** -- Lemma A: the window is searched completely when it fits ---------------------------- *)
  Lemma cand_full (c : cfg) window fl e :
    (W c = None -> ckind c = KExact -> fl = length window) ->
    (forall w, W c = Some w -> length window <= w) ->
    cand c window fl e = occ_full c window e.
  Proof.
    intros HN HS. unfold Model.cand, Spec.occ_full.
    destruct (ckind c) eqn:EK, e as [s0|r| |]; try reflexivity.
    - (* exact *)
      assert (E : forall off : Z, (off <= 0)%Z -> (off + Z.of_nat (length window) <= 0)%Z ->
                  py_find s0 window off = find_from s0 window 0 0).
      { intros off H1 H2. unfold py_find.
        destruct (Z.ltb_spec (Z.of_nat (length window)) off); [lia|].
        f_equal. norm_tac. }
      destruct (W c) as [w|] eqn:EW.
      + rewrite E; [reflexivity | lia | specialize (HS w eq_refl); lia].
      + rewrite E; [reflexivity | lia | rewrite (HN eq_refl eq_refl); lia].
    - destruct (W c) as [w|] eqn:EW; [|reflexivity].
      specialize (HS w eq_refl). now replace (length window - w) with 0 by lia.
  Qed.

  Lemma search_full (c : cfg) window fl :
    (W c = None -> ckind c = KExact -> fl = length window) ->
    (forall w, W c = Some w -> length window <= w) ->
    search c window fl = nsearch c window.
  Proof. intros H1 H2. apply search_by_cands. intros e _. now apply cand_full. Qed.

  (** -- Lemma B: the incremental string search --------------------------------------------- *)
  Lemma cand_incremental (c : cfg) x B d s0 :
    ckind c = KExact -> W c = None ->
    (forall k, occb s0 (x ++ B) k = false) ->
    (length s0 <= length B \/ x = []) ->
    shift (length x) (cand c (B ++ d) (length d) (PStr s0)) = occ_full c (x ++ B ++ d) (PStr s0).
  Proof.
    intros HK HW Hno Hlen. unfold Model.cand, Spec.occ_full. rewrite HK, HW.
    unfold py_find. rewrite app_length.
    destruct (Z.ltb_spec (Z.of_nat (length B + length d)) (- Z.of_nat (length d + length s0))) as [Hbad|_]; [lia|].
    set (st := norm_idx (length B + length d) (- Z.of_nat (length d + length s0))).
    assert (Hs0 : 1 <= length s0).
    { destruct s0 as [|ch s0]; [|cbn; lia]. specialize (Hno 0). unfold occb in Hno. cbn in Hno. discriminate. }
    assert (Hst : st = length B - length s0) by (subst st; norm_tac).
    (* occurrences in the whole text are either inside the old text (impossible) or inside the window *)
    assert (Hold : forall k, k < length x + st -> occb s0 (x ++ B ++ d) k = false).
    { intros k Hk. rewrite app_assoc. rewrite occb_inside; [apply Hno|].
      rewrite app_length. destruct Hlen as [Hl| ->]; cbn [length] in *; lia. }
    symmetry.
    destruct (find_from s0 (B ++ d) 0 st) as [n|] eqn:E.
    - apply find0_some in E as (E1 & E2 & E3). cbn [shift].
      rewrite (find0_char s0 (x ++ B ++ d) 0 (Some (length x + n))); [now rewrite Nat.add_assoc|].
      split; [lia|]. split; [now rewrite occb_suffix|].
      intros k _ Hk. destruct (Nat.lt_ge_cases k (length x + st)) as [H|H]; [now apply Hold|].
      replace k with (length x + (k - length x)) by lia. rewrite occb_suffix. apply E3; lia.
    - cbn [shift]. rewrite (find0_char s0 (x ++ B ++ d) 0 None); [reflexivity|].
      intros k _. destruct (Nat.lt_ge_cases k (length x + st)) as [H|H]; [now apply Hold|].
      replace k with (length x + (k - length x)) by lia. rewrite occb_suffix.
      apply (find0_none _ _ _ E). lia.
  Qed.

  Lemma search_incremental (c : cfg) x B d :
    ckind c = KExact -> W c = None ->
    (forall s0, In (PStr s0) (pats c) -> forall k, occb s0 (x ++ B) k = false) ->
    (forall s0, In (PStr s0) (pats c) -> length s0 <= length B \/ x = []) ->
    shift3 (length x) (search c (B ++ d) (length d)) = nsearch c (x ++ B ++ d).
  Proof.
    intros HK HW Hno Hlen. unfold Model.search, Spec.nsearch.
    change None with (shift3 (length x) None) at 2. rewrite <- best_shift. f_equal.
    rewrite map_map. apply map_ext_in. intros [i e] Hin. cbn [fst snd]. f_equal.
    assert (He : In e (pats c)).
    { clear -Hin. revert Hin. generalize 0. induction (pats c) as [|y l IH]; intros n; cbn; [tauto|].
      intros [[= _ ->]|H]; [now left | right; eapply IH; eauto]. }
    destruct e as [s0|r| |].
    - apply cand_incremental; auto.
    - unfold Model.cand, Spec.occ_full. now rewrite HK.
    - unfold Model.cand, Spec.occ_full. now rewrite HK.
    - unfold Model.cand, Spec.occ_full. now rewrite HK.
  Qed.

  (** -- what do_search computes --------------------------------------------------------------- *)
  Definition ihit (p window : text) (h : nat * nat * nat) : res * text :=
    match h with (idx, a, b) =>
      (Matched idx
         (py_slice p None (Some (Z.of_nat (length p) - (Z.of_nat (length window) - Z.of_nat a))%Z))
         (py_slice window (Some (Z.of_nat a)) (Some (Z.of_nat b))) (a, b),
       skipn b window)
    end.

  Definition trim (c : cfg) (s : st) (window : text) : st :=
    match maintain c with
    | Some m => if m <? length (buf s) then {| pend := pend s; buf := py_tail m window |} else s
    | None => s
    end.

  Lemma do_search_eq (c : cfg) s window fl :
    do_search c s window fl =
    match search c window (Nat.min fl (length window)) with
    | Some h => (Some (fst (ihit (pend s) window h)),
                 {| pend := snd (ihit (pend s) window h); buf := snd (ihit (pend s) window h) |})
    | None => (None, trim c s window)
    end.
  Proof.
    unfold Model.do_search, trim. destruct (search c window (Nat.min fl (length window))) as [[[i a] b]|].
    - reflexivity.
    - destruct (maintain c) as [m|]; [destruct (m <? length (buf s))|]; reflexivity.
  Qed.

  Lemma ihit_hit p x window h : p = x ++ window -> ihit p window h = hit p window h.
  Proof.
    intros ->. destruct h as [[i a] b]. unfold ihit, hit. f_equal. f_equal.
    - rewrite app_length.
      replace (Z.of_nat (length x + length window) - (Z.of_nat (length window) - Z.of_nat a))%Z
        with (Z.of_nat (length x + length window - length window + a)) by lia.
      apply py_slice_prefix_gen.
    - apply py_slice_mid_gen.
  Qed.

  Lemma hit_shift x w i a b :
    strip (fst (hit (x ++ w) w (i, a, b))) = strip (fst (hit (x ++ w) (x ++ w) (i, length x + a, length x + b))) /\
    snd (hit (x ++ w) w (i, a, b)) = snd (hit (x ++ w) (x ++ w) (i, length x + a, length x + b)).
  Proof.
    unfold hit, strip; cbn [fst snd]. rewrite !app_length. split.
    - f_equal.
      + f_equal. lia.
      + replace (length x + b - (length x + a)) with (b - a) by lia. f_equal.
        rewrite skipn_app, (skipn_all2 x) by lia. cbn [app]. f_equal. lia.
    - rewrite skipn_app, (skipn_all2 x) by lia. cbn [app]. f_equal. lia.
  Qed.

  (** -- the invariant that holds inside a call, after every miss ------------------------------ *)
  Definition J (c : cfg) (s : st) : Prop :=
    match maintain c with
    | Some m => buf s = last_n m (pend s)
    | None => buf s = pend s
    end /\
    (W c = None -> ckind c = KExact ->
     forall s0, In (PStr s0) (pats c) -> forall k, occb s0 (pend s) k = false).

  Lemma J_Inv c s : J c s -> Inv s.
  Proof.
    intros [H _]. unfold Inv. destruct (maintain c) as [m|].
    - destruct (last_n_suffix m (pend s)) as (x & Hx & _). exists x. now rewrite H.
    - exists []. now rewrite H.
  Qed.

  Lemma maintain_W (c : cfg) w : W c = Some w -> 1 <= w -> maintain c = Some w.
  Proof. intros H Hw. unfold Model.maintain. rewrite H. destruct w; [lia|reflexivity]. Qed.

  Lemma maintain_N (c : cfg) : W c = None ->
    maintain c = match ckind c with
                 | KExact => if longest (pats c) =? 0 then None else Some (longest (pats c))
                 | KRe => None
                 end.
  Proof.
    intros H. unfold Model.maintain, Model.lookback. rewrite H. cbn [truthy].
    destruct (ckind c); [|reflexivity]. destruct (longest (pats c)); reflexivity.
  Qed.

  Lemma last_n_idem {A} n (l : list A) : last_n n (last_n n l) = last_n n l.
  Proof. apply last_n_all. rewrite last_n_length. lia. Qed.

  Lemma last_n_of_suffix {A} n (x b : list A) : n <= length b -> last_n n (x ++ b) = last_n n b.
  Proof. apply last_n_app_ge. Qed.

  (** J3 from a failed full search *)
  Lemma no_occ_of_nsearch (c : cfg) P : ckind c = KExact -> nsearch c P = None ->
    forall s0, In (PStr s0) (pats c) -> forall k, occb s0 P k = false.
  Proof.
    intros HK H s0 Hin k. pose proof (nsearch_none c P H _ Hin) as Ho.
    unfold Spec.occ_full in Ho. rewrite HK in Ho.
    destruct (find_from s0 P 0 0) eqn:E; [discriminate|].
    apply (find0_none _ _ _ E). lia.
  Qed.

  (** -- a search over the window [lastW P] of a state whose buffer ends with that window --------- *)
  Lemma step_full (c : cfg) s1 P fl :
    wfW c -> pend s1 = P ->
    (forall w, W c = Some w -> exists x y, P = x ++ buf s1 /\ buf s1 = y ++ last_n w P) ->
    (W c = None -> buf s1 = P /\ (ckind c = KExact -> length P <= fl)) ->
    match nsearch c (lastW (W c) P) with
    | Some h => do_search c s1 (lastW (W c) P) fl =
                (Some (fst (hit P (lastW (W c) P) h)),
                 {| pend := snd (hit P (lastW (W c) P) h); buf := snd (hit P (lastW (W c) P) h) |})
    | None => exists s2, do_search c s1 (lastW (W c) P) fl = (None, s2) /\ pend s2 = P /\ J c s2
    end.
  Proof.
    intros Hwf HP HS HN. rewrite do_search_eq.
    assert (Hsearch : search c (lastW (W c) P) (Nat.min fl (length (lastW (W c) P))) = nsearch c (lastW (W c) P)).
    { apply search_full.
      - intros E EK. rewrite E in *. cbn [lastW]. destruct (HN eq_refl) as [_ H]. specialize (H EK). lia.
      - intros w E. rewrite E. cbn [lastW]. rewrite last_n_length. lia. }
    rewrite Hsearch. destruct (nsearch c (lastW (W c) P)) as [h|] eqn:En.
    - rewrite HP. destruct (W c) as [w|] eqn:EW; cbn [lastW].
      + destruct (last_n_suffix w P) as (x & Hx & _). now rewrite (ihit_hit P x _ h Hx).
      + now rewrite (ihit_hit P [] P h eq_refl).
    - eexists. split; [reflexivity|]. unfold trim, J.
      destruct (W c) as [w|] eqn:EW; cbn [lastW] in *.
      + (* window in force *)
        unfold wfW in Hwf. rewrite EW in Hwf. rewrite (maintain_W c w EW Hwf).
        destruct (HS w eq_refl) as (x & y & Hx & Hy).
        destruct (Nat.ltb_spec w (length (buf s1))) as [Hlt|Hge]; cbn [pend buf].
        * split; [exact HP|]. split; [|discriminate].
          rewrite HP, py_tail_last_n by lia. apply last_n_idem.
        * split; [exact HP|]. split; [|discriminate]. rewrite HP.
          (* |buf| <= w and buf = y ++ last_n w P is a suffix of P: then y = [] *)
          assert (length (buf s1) = length y + Nat.min w (length P)) as Hl
              by (rewrite Hy at 1; rewrite app_length, last_n_length; reflexivity).
          assert (length P = length x + length (buf s1)) as Hl2 by (rewrite Hx at 1; now rewrite app_length).
          assert (length y = 0) by lia. destruct y; [exact Hy | cbn in *; lia].
      + destruct (HN eq_refl) as [HB Hfl]. rewrite (maintain_N c EW).
        assert (J3 : ckind c = KExact -> forall s0, In (PStr s0) (pats c) -> forall k, occb s0 P k = false).
        { intros HK. now apply no_occ_of_nsearch. }
        destruct (ckind c) eqn:EK.
        * destruct (longest (pats c) =? 0) eqn:EL.
          -- split; [exact HP|]. split; [now rewrite HP | intros _ _; rewrite HP; now apply J3].
          -- apply Nat.eqb_neq in EL.
             destruct (Nat.ltb_spec (longest (pats c)) (length (buf s1))) as [Hlt|Hge]; cbn [pend buf].
             ++ split; [exact HP|]. split; [|intros _ _; rewrite HP; now apply J3].
                rewrite HP. apply py_tail_last_n. lia.
             ++ split; [exact HP|]. split; [|intros _ _; rewrite HP; now apply J3].
                rewrite HP, HB. symmetry. apply last_n_all. now rewrite <- HB.
        * split; [exact HP|]. split; [now rewrite HP | intros _ H; discriminate].
  Qed.

  Lemma Inv_full s : Inv s -> length (pend s) <= length (buf s) -> buf s = pend s.
  Proof.
    intros [x Hx] Hl. rewrite Hx in Hl. rewrite app_length in Hl.
    destruct x; [now rewrite Hx | cbn in Hl; lia].
  Qed.

  Lemma existing_refines (c : cfg) s :
    wfW c -> Inv s ->
    match nsearch c (lastW (W c) (pend s)) with
    | Some h => existing_data c s =
                (Some (fst (hit (pend s) (lastW (W c) (pend s)) h)),
                 {| pend := snd (hit (pend s) (lastW (W c) (pend s)) h);
                    buf := snd (hit (pend s) (lastW (W c) (pend s)) h) |})
    | None => exists s2, existing_data c s = (None, s2) /\ pend s2 = pend s /\ J c s2
    end.
  Proof.
    intros Hwf HI. unfold Model.existing_data.
    destruct (W c) as [w|] eqn:EW.
    - (* a window is in force *)
      assert (Hw : 1 <= w) by (unfold wfW in Hwf; now rewrite EW in Hwf).
      assert (Ht : truthy (Some w) = true) by (destruct w; [lia | reflexivity]).
      rewrite Ht. cbn [negb].
      destruct (Nat.ltb_spec (length (buf s)) (length (pend s))) as [Hlt|Hge].
      + destruct (Nat.ltb_spec (length (buf s)) w) as [Hlt2|Hge2].
        * pose proof (step_full c {| pend := pend s; buf := skipn (length (pend s) - w) (pend s) |} (pend s) (length (pend s)) Hwf eq_refl) as S.
          rewrite EW in S. cbn [lastW pend buf] in S. apply S.
          -- intros w' [= <-]. destruct (last_n_suffix w (pend s)) as (x & Hx & _). exists x, []. split; [exact Hx | reflexivity].
          -- discriminate.
        * destruct HI as [x Hx].
          assert (Hwin : skipn (length (buf s) - w) (buf s) = last_n w (pend s)).
          { rewrite Hx. rewrite last_n_of_suffix by lia. reflexivity. }
          rewrite Hwin.
          pose proof (step_full c s (pend s) (length (pend s)) Hwf eq_refl) as S.
          rewrite EW in S. cbn [lastW] in S. apply S.
          -- intros w' [= <-]. exists x, (firstn (length (buf s) - w) (buf s)). split; [exact Hx|].
             rewrite <- Hwin. now rewrite firstn_skipn.
          -- discriminate.
      + pose proof (Inv_full s HI Hge) as HB.
        assert (Hwin : skipn (length (buf s) - w) (buf s) = last_n w (pend s)) by (now rewrite HB).
        rewrite Hwin.
        pose proof (step_full c s (pend s) (length (pend s)) Hwf eq_refl) as S.
        rewrite EW in S. cbn [lastW] in S. apply S.
        * intros w' [= <-]. exists [], (firstn (length (buf s) - w) (buf s)). split; [now rewrite HB|].
          rewrite <- Hwin. now rewrite firstn_skipn.
        * discriminate.
    - (* no window *)
      cbn [truthy negb].
      destruct (Nat.ltb_spec (length (buf s)) (length (pend s))) as [Hlt|Hge].
      + pose proof (step_full c {| pend := pend s; buf := pend s |} (pend s) (length (pend s)) Hwf eq_refl) as S.
        rewrite EW in S. cbn [lastW pend buf] in S. apply S; [discriminate | intros _; split; [reflexivity | intros _; lia]].
      + pose proof (Inv_full s HI Hge) as HB. rewrite HB.
        pose proof (step_full c s (pend s) (length (pend s)) Hwf eq_refl) as S.
        rewrite EW in S. cbn [lastW] in S. apply S; [discriminate | intros _; split; [exact HB | intros _; lia]].
  Qed.

  Lemma longest_ge (l : list entry) : forall m, m <= fold_left (fun m e => match e with PStr s => Nat.max m (length s) | _ => m end) l m.
  Proof.
    induction l as [|e l IH]; intros m; cbn [fold_left]; [lia|].
    destruct e; try apply IH. etransitivity; [|apply IH]. lia.
  Qed.
  Lemma longest_bound (l : list entry) s0 : In (PStr s0) l -> length s0 <= longest l.
  Proof.
    unfold Model.longest. generalize 0. induction l as [|e l IH]; intros m []; cbn [fold_left].
    - subst e. etransitivity; [|apply longest_ge]. lia.
    - destruct e; now apply IH.
  Qed.

  (** the outcome of a call step on the implementation side vs a hit of the reference *)
  Definition hit_ok (c : cfg) (r : res) (s' : st) (P lw : text) (h : nat * nat * nat) : Prop :=
    strip r = strip (fst (hit P lw h)) /\
    (ckind c = KRe \/ W c <> None -> r = fst (hit P lw h)) /\
    pend s' = snd (hit P lw h) /\ buf s' = pend s'.

  Lemma new_refines (c : cfg) s d :
    wfW c -> J c s ->
    match nsearch c (lastW (W c) (pend s ++ d)) with
    | Some h => exists r s', new_data c s d = (Some r, s') /\
                             hit_ok c r s' (pend s ++ d) (lastW (W c) (pend s ++ d)) h
    | None => exists s2, new_data c s d = (None, s2) /\ pend s2 = pend s ++ d /\ J c s2
    end.
  Proof.
    intros Hwf [J2 J3]. unfold Model.new_data.
    assert (from_full : forall s1 fl,
      match nsearch c (lastW (W c) (pend s ++ d)) with
      | Some h => do_search c s1 (lastW (W c) (pend s ++ d)) fl =
                  (Some (fst (hit (pend s ++ d) (lastW (W c) (pend s ++ d)) h)),
                   {| pend := snd (hit (pend s ++ d) (lastW (W c) (pend s ++ d)) h);
                      buf := snd (hit (pend s ++ d) (lastW (W c) (pend s ++ d)) h) |})
      | None => exists s2, do_search c s1 (lastW (W c) (pend s ++ d)) fl = (None, s2) /\ pend s2 = pend s ++ d /\ J c s2
      end ->
      match nsearch c (lastW (W c) (pend s ++ d)) with
      | Some h => exists r s', do_search c s1 (lastW (W c) (pend s ++ d)) fl = (Some r, s') /\
                               hit_ok c r s' (pend s ++ d) (lastW (W c) (pend s ++ d)) h
      | None => exists s2, do_search c s1 (lastW (W c) (pend s ++ d)) fl = (None, s2) /\ pend s2 = pend s ++ d /\ J c s2
      end).
    { intros s1 fl H. destruct (nsearch c (lastW (W c) (pend s ++ d))) as [h|]; [|exact H].
      eexists _, _. split; [exact H|]. unfold hit_ok. cbn [pend buf]. repeat split; reflexivity. }
    destruct (W c) as [w|] eqn:EW.
    - (* window in force *)
      assert (Hw : 1 <= w) by (unfold wfW in Hwf; now rewrite EW in Hwf).
      assert (Ht : truthy (Some w) = true) by (destruct w; [lia | reflexivity]).
      rewrite Ht. cbn [negb]. rewrite (maintain_W c w EW Hw) in J2.
      destruct ((w <=? length d) || match buf s with [] => true | _ :: _ => false end) eqn:Ebr.
      + assert (Hwin : py_tail w d = last_n w (pend s ++ d)).
        { rewrite py_tail_last_n by lia. apply orb_prop in Ebr as [E|E].
          - apply Nat.leb_le in E. symmetry. now apply last_n_app_ge.
          - destruct (buf s) eqn:EB; [|discriminate].
            assert (length (last_n w (pend s)) = 0) by (now rewrite <- J2).
            rewrite last_n_length in H. assert (pend s = []) as -> by (destruct (pend s); [reflexivity | cbn in H; lia]).
            reflexivity. }
        rewrite Hwin. rewrite py_tail_last_n, last_n_idem by lia.
        apply from_full.
        pose proof (step_full c {| pend := pend s ++ d; buf := last_n w (pend s ++ d) |} (pend s ++ d) (length d) Hwf eq_refl) as S.
        rewrite EW in S. cbn [lastW pend buf] in S. cbn [lastW]. apply S.
        * intros w' [= <-]. destruct (last_n_suffix w (pend s ++ d)) as (x & Hx & _). exists x, []. split; [exact Hx | reflexivity].
        * discriminate.
      + assert (Hwin : skipn (length (buf s ++ d) - w) (buf s ++ d) = last_n w (pend s ++ d)).
        { rewrite J2. apply last_n_app. }
        rewrite Hwin. apply from_full.
        pose proof (step_full c {| pend := pend s ++ d; buf := buf s ++ d |} (pend s ++ d) (length d) Hwf eq_refl) as S.
        rewrite EW in S. cbn [lastW pend buf] in S. cbn [lastW]. apply S.
        * intros w' [= <-]. destruct (last_n_suffix w (pend s)) as (x & Hx & _).
          exists x, (firstn (length (buf s ++ d) - w) (buf s ++ d)). split.
          -- rewrite Hx at 1. rewrite J2. now rewrite app_assoc.
          -- rewrite <- Hwin. now rewrite firstn_skipn.
        * discriminate.
    - (* no window *)
      cbn [truthy negb lastW]. rewrite (maintain_N c EW) in J2.
      destruct (ckind c) eqn:EK.
      + (* string searcher: the incremental tail search *)
        unfold Model.lookback. rewrite EK.
        set (L := longest (pats c)) in *.
        (* in both branches the window is (buf s ++ d) *)
        assert (HB : exists x, pend s = x ++ buf s /\
                     forall s0, In (PStr s0) (pats c) -> length s0 <= length (buf s) \/ x = []).
        { destruct (L =? 0) eqn:EL.
          - exists []. split; [now rewrite J2 | now right].
          - destruct (last_n_suffix L (pend s)) as (x & Hx & Hxl). exists x. split; [now rewrite J2|].
            intros s0 Hin. pose proof (longest_bound _ _ Hin) as Hb. fold L in Hb.
            rewrite J2, last_n_length.
            destruct (Nat.le_gt_cases L (length (pend s))); [left; lia | right; destruct x; [reflexivity | cbn in Hxl; lia]]. }
        destruct HB as (x & Hx & Hlen).
        assert (Hwindow : (if truthy (Some L)
                           then do_search c {| pend := pend s ++ d; buf := buf s ++ d |}
                                  (skipn (length (buf s) - L) (buf s ++ d)) (length d)
                           else do_search c {| pend := pend s ++ d; buf := buf s ++ d |} (buf s ++ d) (length d))
                          = do_search c {| pend := pend s ++ d; buf := buf s ++ d |} (buf s ++ d) (length d)).
        { destruct L as [|L'] eqn:EL'; [reflexivity|]. cbn [truthy].
          replace (length (buf s) - S L') with 0; [reflexivity|].
          cbn [Nat.eqb] in J2. rewrite J2, last_n_length. lia. }
        rewrite Hwindow. rewrite do_search_eq. cbn [pend buf].
        replace (Nat.min (length d) (length (buf s ++ d))) with (length d) by (rewrite app_length; lia).
        pose proof (search_incremental c x (buf s) d EK EW) as SI.
        rewrite <- Hx in SI. specialize (SI (J3 eq_refl eq_refl) Hlen).
        rewrite <- app_assoc in SI || idtac.
        assert (HP : pend s ++ d = x ++ buf s ++ d) by (rewrite Hx at 1; now rewrite app_assoc).
        rewrite <- HP in SI.
        destruct (search c (buf s ++ d) (length d)) as [[[i a] b]|] eqn:ES; cbn [shift3] in SI; rewrite <- SI.
        * eexists _, _. split; [reflexivity|]. unfold hit_ok. cbn [pend buf fst snd].
          rewrite (ihit_hit (pend s ++ d) x (buf s ++ d) (i, a, b) HP).
          rewrite HP. destruct (hit_shift x (buf s ++ d) i a b) as [H1 H2].
          split; [exact H1|]. split; [intros [H|H]; [rewrite EK in H; discriminate | now elim H]|]. split; [exact H2 | reflexivity].
        * eexists. split; [reflexivity|]. unfold trim. rewrite (maintain_N c EW), EK. fold L. cbn [pend buf].
          assert (J3' : forall s0, In (PStr s0) (pats c) -> forall k, occb s0 (pend s ++ d) k = false)
            by (apply no_occ_of_nsearch; [exact EK | now rewrite <- SI]).
          destruct (L =? 0) eqn:EL.
          -- split; [reflexivity|]. unfold J. rewrite (maintain_N c EW), EK. fold L. rewrite EL. cbn [pend buf].
             split; [now rewrite J2 | intros _ _; exact J3'].
          -- apply Nat.eqb_neq in EL.
             destruct (Nat.ltb_spec L (length (buf s ++ d))) as [Hlt|Hge]; cbn [pend buf];
               (split; [reflexivity|]); unfold J; rewrite (maintain_N c EW), EK; fold L;
               replace (L =? 0) with false by (symmetry; now apply Nat.eqb_neq); cbn [pend buf];
               (split; [|intros _ _; exact J3']).
             ++ rewrite py_tail_last_n by lia. rewrite J2. apply last_n_app.
             ++ rewrite <- (last_n_app L (pend s) d), <- J2. symmetry. now apply last_n_all.
      + (* regex searcher, no window: the whole pending text is searched every time *)
        unfold Model.lookback. rewrite EK. cbn [truthy]. rewrite J2.
        apply from_full. cbn [lastW].
        pose proof (step_full c {| pend := pend s ++ d; buf := pend s ++ d |} (pend s ++ d) (length d) Hwf eq_refl) as S.
        rewrite EW in S. cbn [lastW pend buf] in S. apply S; [discriminate|].
        intros _. split; [reflexivity | intros H; rewrite EK in H; discriminate].
  Qed.

  (** -- the loop, the call, the history -------------------------------------------------------- *)
  Definition agree (c : cfg) (x : res * st * list ev) (y : res * text * list ev) : Prop :=
    match x, y with
    | (r, s', e), (r2, p2, e2) =>
        strip r = strip r2 /\ (ckind c = KRe \/ W c <> None -> r = r2) /\
        pend s' = p2 /\ e = e2 /\ Inv s'
    end.

  Lemma Inv_same t : Inv {| pend := t; buf := t |}.
  Proof. now exists []. Qed.

  Lemma loop_refines (c : cfg) t0 : wfW c -> forall evs s, J c s ->
    agree c (loop c t0 s evs) (nloop c t0 (pend s) evs).
  Proof.
    intros Hwf. induction evs as [|e evs IH]; intros s HJ; cbn [Model.loop Spec.nloop].
    - unfold agree, Model.eof. cbn [pend buf]. repeat split; auto. apply Inv_same.
    - destruct e as [d| | |].
      + pose proof (new_refines c s d Hwf HJ) as N.
        destruct (nsearch c (lastW (W c) (pend s ++ d))) as [h|].
        * destruct N as (r & s' & -> & H1 & H2 & H3 & H4). unfold agree.
          destruct (hit (pend s ++ d) (lastW (W c) (pend s ++ d)) h) as [r2 p2] eqn:Eh. cbn [fst snd] in *.
          repeat split; auto. exists []. now rewrite H4.
        * destruct N as (s2 & -> & HP & HJ2). destruct t0.
          -- unfold agree, Model.timeout. rewrite HP. repeat split; auto. now apply (J_Inv c).
          -- rewrite <- HP. now apply IH.
      + unfold agree, Model.timeout. repeat split; auto. now apply (J_Inv c).
      + unfold agree, Model.eof. cbn [pend buf]. repeat split; auto. apply Inv_same.
      + unfold agree, Model.errored. repeat split; auto. now apply (J_Inv c).
  Qed.

  Theorem expect_refines (c : cfg) t0 s evs : wfW c -> Inv s ->
    agree c (expect_loop c t0 s evs) (ncall c t0 (pend s) evs).
  Proof.
    intros Hwf HI. unfold Model.expect_loop, Spec.ncall.
    pose proof (existing_refines c s Hwf HI) as E.
    destruct (nsearch c (lastW (W c) (pend s))) as [h|].
    - rewrite E. unfold agree.
      destruct (hit (pend s) (lastW (W c) (pend s)) h) as [r2 p2]. cbn [fst snd pend buf].
      repeat split; auto. apply Inv_same.
    - destruct E as (s2 & -> & HP & HJ). rewrite <- HP. now apply loop_refines.
  Qed.

  (** histories: every call of any history behaves like the reference, whatever happened before *)
  Definition wf_op (o : op rx) : Prop := match o with Call c _ => wfW c | SetBuffer _ => True end.

  Definition agree_step (o : op rx) (x : option res * st * nat) (y : option res * text * nat) : Prop :=
    match x, y with
    | (r, s', n), (r2, p2, n2) =>
        option_map strip r = option_map strip r2 /\
        (match o with Call c _ => ckind c = KRe \/ W c <> None | SetBuffer _ => True end -> r = r2) /\
        pend s' = p2 /\ n = n2
    end.

  Theorem history_refines : forall ops s evs, Forall wf_op ops -> Inv s ->
    Forall2 (fun o xy => agree_step o (fst xy) (snd xy)) ops
      (combine (history rx re_search ops s evs) (nhistory rx re_search ops (pend s) evs)) /\
    length (history rx re_search ops s evs) = length ops /\
    length (nhistory rx re_search ops (pend s) evs) = length ops.
  Proof.
    induction ops as [|o ops IH]; intros s evs Hwf HI; cbn [history nhistory combine length].
    - repeat split; constructor.
    - inversion Hwf as [|? ? Ho Hops]; subst. destruct o as [c t0|v].
      + pose proof (expect_refines c t0 s evs Ho HI) as A.
        destruct (expect_loop c t0 s evs) as [[r s'] e'].
        destruct (ncall c t0 (pend s) evs) as [[r2 p2] e2].
        destruct A as (A1 & A2 & A3 & A4 & A5). subst p2 e2.
        destruct (IH s' e' Hops A5) as (I1 & I2 & I3).
        cbn [combine length]. split; [|split; congruence].
        constructor; [|exact I1]. cbn [fst snd agree_step option_map].
        repeat split; auto; [now rewrite A1 | intros H; now rewrite (A2 H)].
      + destruct (IH (set_buffer v) evs Hops (Inv_same v)) as (I1 & I2 & I3). cbn [set_buffer pend] in *.
        cbn [combine length]. split; [|split; congruence].
        constructor; [|exact I1]. cbn [fst snd agree_step option_map set_buffer pend]. repeat split; auto.
  Qed.
End Refine.
