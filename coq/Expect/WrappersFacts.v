(** C01 for the file-like wrappers: what readline / readlines / read() RETURN, followed by what is pending, is the text
    received - corollaries of the refinement (expect_loop_post). *)
From Coq Require Import ZArith NArith List Bool Arith Lia.
Import ListNotations.
From PV Require Import Base.PySeq Expect.Model Expect.Spec Expect.Refine Expect.SpecFacts Expect.Wrappers.

Section Facts.
  Variable rx : Type.
  Variable re_search : rx -> text -> nat -> option (nat * nat).
  Variable crlf_rx : rx.
  Variable dot_n : nat -> rx.
  Variable Wd : option nat.
  Hypothesis re_span : forall r t p a b, re_search r t p = Some (a, b) -> a <= b.
  Hypothesis Wd_ok : match Wd with Some w => 1 <= w | None => True end.
  (** the compiled pattern '\r\n' matches the text "\r\n" and nothing else (law of the regex engine for a literal) *)
  Hypothesis crlf_law : forall w a b, re_search crlf_rx w 0 = Some (a, b) -> firstn (b - a) (skipn a w) = crlf.

  Notation readline := (readline rx re_search crlf_rx Wd).
  Notation readlines := (readlines rx re_search crlf_rx Wd).
  Notation read_all := (read_all rx re_search Wd).
  Notation line_cfg := (line_cfg rx crlf_rx Wd).
  Notation all_cfg := (all_cfg rx Wd).
  Notation read_n := (read_n rx re_search dot_n Wd).
  Notation n_cfg := (n_cfg rx dot_n Wd).

  Lemma wf_line : wfW rx line_cfg. Proof. exact Wd_ok. Qed.
  Lemma wf_all : wfW rx all_cfg. Proof. exact Wd_ok. Qed.
  Lemma wf_n n : wfW rx (n_cfg n). Proof. exact Wd_ok. Qed.

  (** what one readline() returns, followed by the pending text, is what was pending plus what it read; an exception
      (TIMEOUT, transport error) consumes nothing; '' is returned only at EOF with nothing pending *)
  Theorem readline_conserves s evs : Inv s ->
    match readline s evs with (r, s', e') =>
      exists used, evs = used ++ e' /\ Inv s' /\
      match r with
      | WText l => l ++ pend s' = pend s ++ data_of used /\ (l = [] -> pend s' = [] /\ pend s ++ data_of used = [])
      | WRaise _ => pend s' = pend s ++ data_of used
      end
    end.
  Proof.
    intros HI. unfold Wrappers.readline.
    pose proof (expect_loop_post rx re_search re_span line_cfg false s evs wf_line HI) as P.
    destruct (expect_loop rx re_search line_cfg false s evs) as [[r s'] e'].
    destruct P as (r2 & P1 & P2 & (used & Hu & HP) & HI'). specialize (P2 (or_introl eq_refl)). subst r2.
    cbn zeta in HP. destruct HP as [HC HR].
    destruct r as [i b a [st en]|i b|i b|b].
    - destruct HR as (Hn & Hb & Ha & Hp').
      destruct (nsearch_some rx re_search line_cfg _ _ _ _ Hn) as [(e0 & He0 & Ho) _].
      destruct i as [|[|i]]; cbn in He0.
      + injection He0 as <-. cbn in Ho. apply crlf_law in Ho.
        assert (Ea : a = crlf) by (rewrite Ha; exact Ho). rewrite Ea in HC.
        exists used. split; [exact Hu|]. split; [exact HI'|]. cbn [handed] in HC. split; [exact HC|].
        intros H. apply app_eq_nil in H as [_ H]. discriminate.
      + injection He0 as <-. cbn in Ho. discriminate.
      + destruct i; discriminate.
    - destruct HR as (Hi & Hb & Hp'). cbn in Hi. subst i. exists used. split; [exact Hu|]. split; [exact HI'|].
      cbn [handed] in HC. split; [exact HC|]. intros ->. split; [exact Hp' | now rewrite <- Hb].
    - destruct HR as (_ & _ & Hp'). exists used. auto.
    - destruct HR as (_ & Hp'). exists used. auto.
  Qed.

  Lemma readlines_S f s evs acc : readlines (S f) s evs acc =
    match readline s evs with
    | (WText [], s', e') => (acc, LEnd, s', e')
    | (WText l, s', e') => readlines f s' e' (acc ++ [l])
    | (WRaise r, s', e') => (acc, LRaised r, s', e')
    end.
  Proof. reflexivity. Qed.

  (** readlines() / iteration: the lines returned, concatenated, followed by the pending text, are the received text;
      when the loop ends normally nothing is pending: the lines ARE the child's output up to EOF *)
  Theorem readlines_conserves : forall fuel s evs acc, Inv s ->
    match readlines fuel s evs acc with (ls, fin, s', e') =>
      exists used, evs = used ++ e' /\ Inv s' /\
      concat ls ++ pend s' = concat acc ++ pend s ++ data_of used /\
      (fin = LEnd -> pend s' = [] /\ concat ls = concat acc ++ pend s ++ data_of used) /\
      (forall l, In l ls -> In l acc \/ l <> [])
    end.
  Proof.
    induction fuel as [|f IH]; intros s evs acc HI; [cbn [Wrappers.readlines] | rewrite readlines_S].
    - exists []. cbn. rewrite app_nil_r. repeat split; auto; discriminate.
    - pose proof (readline_conserves s evs HI) as R.
      destruct (readline s evs) as [[[l|r] s1] e1]; destruct R as (u1 & Hu1 & HI1 & R).
      + destruct R as [HC HE]. destruct l as [|c l].
        * destruct (HE eq_refl) as [Hp Hall]. exists u1. split; [exact Hu1|]. split; [exact HI1|].
          rewrite Hp, app_nil_r. apply app_eq_nil in Hall as [Hps Hd]. rewrite Hps, Hd. cbn. rewrite !app_nil_r.
          repeat split; auto.
        * pose proof (IH s1 e1 (acc ++ [(c :: l) : text]) HI1) as IH1.
          destruct (readlines f s1 e1 (acc ++ [(c :: l) : text])) as [[[ls fin] s2] e2].
          destruct IH1 as (u2 & Hu2 & HI2 & HC2 & HE2 & HN2).
          assert (Hcat : concat (acc ++ [c :: l]) ++ pend s1 ++ data_of u2 = concat acc ++ pend s ++ data_of (u1 ++ u2)).
          { rewrite concat_app, data_of_app. replace (concat [c :: l]) with (c :: l) by (cbn; now rewrite app_nil_r).
            rewrite <- (app_assoc (concat acc)). f_equal.
            rewrite (app_assoc (c :: l)), HC, <- app_assoc. reflexivity. }
          exists (u1 ++ u2). split; [now rewrite Hu1, Hu2, app_assoc|]. split; [exact HI2|].
          split; [now rewrite HC2|]. split.
          -- intros Hf. destruct (HE2 Hf) as [A B]. split; [exact A | now rewrite B].
          -- intros x Hx. destruct (HN2 x Hx) as [Hin|Hne]; [|now right].
             apply in_app_or in Hin as [Hin|[<-|[]]]; [now left | right; discriminate].
      + exists u1. split; [exact Hu1|]. split; [exact HI1|]. rewrite R. split; [reflexivity|]. split; [discriminate | now left].
  Qed.

  (** read() with no size returns everything up to EOF and leaves nothing pending *)
  Theorem read_all_conserves s evs : Inv s ->
    match read_all s evs with (r, s', e') =>
      exists used, evs = used ++ e' /\ Inv s' /\
      match r with
      | WText t => t = pend s ++ data_of used /\ pend s' = []
      | WRaise _ => pend s' = pend s ++ data_of used
      end
    end.
  Proof.
    intros HI. unfold Wrappers.read_all.
    pose proof (expect_loop_post rx re_search re_span all_cfg false s evs wf_all HI) as P.
    destruct (expect_loop rx re_search all_cfg false s evs) as [[r s'] e'].
    destruct P as (r2 & P1 & P2 & (used & Hu & HP) & HI'). specialize (P2 (or_introl eq_refl)). subst r2.
    cbn zeta in HP. destruct HP as [HC HR].
    destruct r as [i b a [st en]|i b|i b|b].
    - destruct HR as (Hn & _). destruct (nsearch_some rx re_search all_cfg _ _ _ _ Hn) as [(e0 & He0 & Ho) _].
      destruct i as [|i]; cbn in He0; [injection He0 as <-; cbn in Ho; discriminate | destruct i; discriminate].
    - destruct HR as (Hi & Hb & Hp'). cbn in Hi. subst i. exists used. auto.
    - destruct HR as (_ & _ & Hp'). exists used. auto.
    - destruct HR as (_ & Hp'). exists used. auto.
  Qed.

  (** read(n) with no search window in force: the text returned is the NEXT n characters (or, at EOF, all that was left:
      nothing stays pending then), nothing is skipped, and it is followed by what stays pending.  [dot_law] is the law of the
      regex engine for '.{n}' with DOTALL: its leftmost match is the first n characters, whenever there are n.
      (With a search window the pattern is searched in the last W characters only and the characters in front of the
      match are dropped by spawnbase.read: see DESIGN, 'outside the properties'.) *)
  Hypothesis dot_law : forall n w a b, re_search (dot_n n) w 0 = Some (a, b) -> a = 0 /\ b = n /\ n <= length w.

  Theorem read_n_conserves n s evs : Wd = None -> Inv s ->
    match read_n n s evs with (r, s', e') =>
      exists used, evs = used ++ e' /\ Inv s' /\
      match r with
      | WText t => t ++ pend s' = pend s ++ data_of used /\ (length t = n \/ pend s' = [])
      | WRaise _ => pend s' = pend s ++ data_of used
      end
    end.
  Proof.
    intros HW HI. unfold Wrappers.read_n. destruct n as [|n].
    { exists []. cbn. rewrite app_nil_r. repeat split; auto. }
    pose proof (expect_loop_post rx re_search re_span (n_cfg (S n)) false s evs (wf_n (S n)) HI) as P.
    destruct (expect_loop rx re_search (n_cfg (S n)) false s evs) as [[r s'] e'].
    destruct P as (r2 & P1 & P2 & (used & Hu & HP) & HI'). specialize (P2 (or_introl eq_refl)). subst r2.
    cbn zeta in HP. destruct HP as [HC HR].
    destruct r as [i b a [st en]|i b|i b|b].
    - destruct HR as (Hn & Hb & Ha & Hp').
      destruct (nsearch_some rx re_search (n_cfg (S n)) _ _ _ _ Hn) as [(e0 & He0 & Ho) _].
      destruct i as [|[|i]]; cbn in He0.
      + injection He0 as <-. cbn in Ho. apply dot_law in Ho as (-> & -> & Hlen).
        cbn [Wrappers.n_cfg W] in Hb, Ha. rewrite HW in Hb, Ha, Hlen. cbn [lastW] in Hb, Ha, Hlen.
        rewrite Nat.sub_diag in Hb. cbn in Hb. subst b. cbn [handed app] in HC.
        exists used. split; [exact Hu|]. split; [exact HI'|]. split; [exact HC|].
        left. rewrite Ha. cbn [skipn]. rewrite Nat.sub_0_r, firstn_length. lia.
      + injection He0 as <-. cbn in Ho. discriminate.
      + destruct i; discriminate.
    - destruct HR as (Hi & Hb & Hp'). cbn in Hi. subst i. exists used. split; [exact Hu|]. split; [exact HI'|].
      cbn [handed] in HC. split; [exact HC|]. now right.
    - destruct HR as (_ & _ & Hp'). exists used. auto.
    - destruct HR as (_ & Hp'). exists used. auto.
  Qed.
End Facts.
