From Coq Require Import ZArith NArith List Bool.
Import ListNotations.
From PV Require Import Base.V Base.PySeq Base.Rx Expect.Model Run.Model.

Definition stop_id (s : stop) : Z :=
  match s with StopEof => 0 | StopTimeout => 1 | StopCallback => 2 | StopTypeError => 3 | StopTransportError => 4 | OutOfFuel => 9 end.
(** (events, transport events): output, strings sent, pending text, events left, how it stopped *)
Definition run_case (c : option nat * list (entry rx * resp) * list ev) : V :=
  let r := run rx rx_search 40 (fst (fst c)) (snd (fst c)) (snd c) in
  VL [vtext (r_out r); vlist vtext (r_sent r); vtext (pend (r_state r)); vnat (length (r_rest r)); VI (stop_id (r_stop r))].

(** job run-args: (timeout given to run()) -> the timeout the spawn object is created with *)
Definition run_args (g : option (option Z)) : V := vopt (fun z => VI z) (spawn_timeout g).
