(** C12: model of the event loop of pexpect.run() (run.py:113-146) on top of the Expecter model. *)
From Coq Require Import ZArith NArith List Bool Arith.
Import ListNotations.
From PV Require Import Base.PySeq Expect.Model.

Section Run.
  Variable rx : Type.
  Variable re_search : rx -> text -> nat -> option (nat * nat).

  (** what a callback returns: a string to send, a true value (stop), a false value (go on) *)
  Inductive cbres := CbStr (s : text) | CbTrue | CbFalse.
  (** a response: a string, a function/method, or something else (TypeError) *)
  Inductive resp := RSend (s : text) | RCall (r : cbres) | RBad.

  Inductive stop := StopEof | StopTimeout | StopCallback | StopTypeError | StopTransportError | OutOfFuel.
  Record result := { r_out : text; r_sent : list text; r_state : st; r_rest : list ev; r_stop : stop }.

  (** run.py:122-138: reaction to the event with index i; None = keep looping *)
  Definition react (responses : list resp) (i : nat) (sent : list text) : option (list text * bool) :=
    match nth_error responses i with
    | Some (RSend s) => Some (sent ++ [s], false)
    | Some (RCall (CbStr s)) => Some (sent ++ [s], false)
    | Some (RCall CbTrue) => Some (sent, true)
    | Some (RCall CbFalse) => Some (sent, false)
    | Some RBad | None => None                      (* TypeError *)
    end.

  Fixpoint run_loop (fuel : nat) (c : cfg rx) (responses : list resp) (s : st) (evs : list ev)
                    (out : text) (sent : list text) : result :=
    match fuel with
    | 0 => {| r_out := out; r_sent := sent; r_state := s; r_rest := evs; r_stop := OutOfFuel |}
    | S f =>
        match expect_loop rx re_search c false s evs with
        | (Matched i b a _, s', evs') =>
            let out := out ++ b ++ a in
            match react responses i sent with
            | Some (sent', true) => {| r_out := out; r_sent := sent'; r_state := s'; r_rest := evs'; r_stop := StopCallback |}
            | Some (sent', false) => run_loop f c responses s' evs' out sent'
            | None => {| r_out := out; r_sent := sent; r_state := s'; r_rest := evs'; r_stop := StopTypeError |}
            end
        | (AtEof (Some i) b, s', evs') =>
            let out := out ++ b in
            match react responses i sent with
            | Some (sent', true) => {| r_out := out; r_sent := sent'; r_state := s'; r_rest := evs'; r_stop := StopEof |}
            | Some (sent', false) => run_loop f c responses s' evs' out sent'
            | None => {| r_out := out; r_sent := sent; r_state := s'; r_rest := evs'; r_stop := StopTypeError |}
            end
        | (AtEof None b, s', evs') =>
            {| r_out := out ++ b; r_sent := sent; r_state := s'; r_rest := evs'; r_stop := StopEof |}
        | (AtTimeout (Some i) b, s', evs') =>
            (* a TIMEOUT event consumes nothing: before is appended only if the run stops here *)
            match react responses i sent with
            | Some (sent', true) => {| r_out := out ++ b; r_sent := sent'; r_state := s'; r_rest := evs'; r_stop := StopTimeout |}
            | Some (sent', false) => run_loop f c responses s' evs' out sent'
            | None => {| r_out := out; r_sent := sent; r_state := s'; r_rest := evs'; r_stop := StopTypeError |}
            end
        | (AtTimeout None b, s', evs') =>
            {| r_out := out ++ b; r_sent := sent; r_state := s'; r_rest := evs'; r_stop := StopTimeout |}
        | (Errored b, s', evs') =>
            {| r_out := out; r_sent := sent; r_state := s'; r_rest := evs'; r_stop := StopTransportError |}
        end
    end.

  (** run(): events = list of (pattern, response); patterns are compiled to regexes (expect()) *)
  (** [Wd]: a searchwindowsize given to run() is handed on to the spawn object *)
  Definition run (fuel : nat) (Wd : option nat) (events : list (entry rx * resp)) (evs : list ev) : result :=
    run_loop fuel {| ckind := KRe; pats := map fst events; W := Wd |} (map snd events)
             {| pend := []; buf := [] |} evs [] [].
End Run.

(** run()'s own arguments: the timeout the spawn object is created with.  [given = None]: not given, or the marker -1: the default
    of spawn (30 s); [Some None]: None = never time out; [Some (Some t)]: t.  (logfile, cwd, env and the other keyword arguments are
    handed on unchanged.) *)
Definition spawn_timeout (given : option (option Z)) : option Z :=
  match given with None => Some 30%Z | Some t => t end.
