(** C12: run() returns exactly the output up to the point it stops - each piece once. *)
From Coq Require Import ZArith NArith List Bool Arith Lia.
Import ListNotations.
From PV Require Import Base.PySeq Expect.Model Expect.Spec Expect.Refine Expect.SpecFacts Run.Model.

Section Proofs.
  Variable rx : Type.
  Variable re_search : rx -> text -> nat -> option (nat * nat).
  Hypothesis re_span : forall r t p a b, re_search r t p = Some (a, b) -> a <= b.

  (** what the loop guarantees when it stops, relative to everything received so far *)
  Definition post (total : text) (r : result) : Prop :=
    match r_stop r with
    | StopEof | StopTimeout => r_out r = total                         (* everything, pending text included *)
    | StopCallback | StopTypeError | StopTransportError | OutOfFuel =>
        r_out r ++ pend (r_state r) = total                            (* everything consumed; the rest is still pending *)
    end.

  Lemma run_loop_conserves (c : cfg rx) responses : wfW rx c -> forall fuel s evs out sent, Inv s ->
    let r := run_loop rx re_search fuel c responses s evs out sent in
    exists used, evs = used ++ r_rest r /\ post (out ++ pend s ++ data_of used) r /\ Inv (r_state r).
  Proof.
    intros Hwf. induction fuel as [|f IH]; intros s evs out sent HI; cbn [run_loop].
    - exists []. cbn. rewrite app_nil_r. auto.
    - pose proof (call_conserves rx re_search re_span c false s evs Hwf HI) as C.
      destruct (expect_loop rx re_search c false s evs) as [[x s'] evs'].
      destruct C as (u1 & Hu & HC & HI' & HT & HE & HX).
      assert (step : forall out' sent', out' ++ pend s' = out ++ pend s ++ data_of u1 ->
                let r := run_loop rx re_search f c responses s' evs' out' sent' in
                exists used, evs = used ++ r_rest r /\ post (out ++ pend s ++ data_of used) r /\ Inv (r_state r)).
      { intros out' sent' Heq. destruct (IH s' evs' out' sent' HI') as (u2 & Hu2 & HP & HI2).
        exists (u1 ++ u2). split; [rewrite Hu, Hu2 at 1; now rewrite app_assoc|]. split; [|exact HI2].
        replace (out ++ pend s ++ data_of (u1 ++ u2)) with (out' ++ pend s' ++ data_of u2); [exact HP|].
        rewrite data_of_app, (app_assoc out'), Heq, <- !app_assoc. reflexivity. }
      destruct x as [i b a sp | [i|] b | [i|] b | b]; cbn [handed] in HC.
      + (* a pattern matched *)
        destruct (react responses i sent) as [[sent' [|]]|].
        * exists u1. cbn. repeat split; auto. rewrite <- HC. now rewrite <- !app_assoc.
        * apply step. rewrite <- HC. now rewrite <- !app_assoc.
        * exists u1. split; [exact Hu|]. split; [|exact HI'].
          unfold post. cbn [r_stop r_out r_state]. rewrite <- HC; now rewrite <- !app_assoc.
      + (* EOF listed as an event *)
        destruct (HE _ _ eq_refl) as (Hb & Hp & _).
        destruct (react responses i sent) as [[sent' [|]]|].
        * exists u1. cbn. repeat split; auto. now rewrite Hb.
        * apply step. rewrite Hp, app_nil_r, Hb. reflexivity.
        * exists u1. split; [exact Hu|]. split; [|exact HI'].
          unfold post. cbn [r_stop r_out r_state]. rewrite Hp, ?app_nil_r, Hb; reflexivity.
      + destruct (HE _ _ eq_refl) as (Hb & _). exists u1. cbn. repeat split; auto. now rewrite Hb.
      + (* TIMEOUT listed as an event: nothing consumed *)
        destruct (HT _ _ eq_refl) as (Hb & Hp).
        destruct (react responses i sent) as [[sent' [|]]|].
        * exists u1. cbn. repeat split; auto. now rewrite Hb, Hp.
        * apply step. now rewrite Hp.
        * exists u1. split; [exact Hu|]. split; [|exact HI'].
          unfold post. cbn [r_stop r_out r_state]. rewrite Hp; reflexivity.
      + destruct (HT _ _ eq_refl) as (Hb & Hp). exists u1. cbn. repeat split; auto. now rewrite Hb, Hp.
      + destruct (HX _ eq_refl) as (Hb & Hp). exists u1. cbn. repeat split; auto. now rewrite Hp.
  Qed.

  (** run(): the value returned is exactly what the child wrote up to the stop *)
  Theorem run_output_complete fuel Wd events evs : match Wd with Some w => 1 <= w | None => True end ->
    let r := run rx re_search fuel Wd events evs in
    exists used, evs = used ++ r_rest r /\
      match r_stop r with
      | StopEof | StopTimeout => r_out r = data_of used
      | _ => r_out r ++ pend (r_state r) = data_of used
      end.
  Proof.
    intros HW. unfold run.
    destruct (run_loop_conserves {| ckind := KRe; pats := map fst events; W := Wd |} (map snd events) HW
                fuel {| pend := []; buf := [] |} evs [] [] (Inv_same [])) as (used & Hu & HP & _).
    exists used. split; [exact Hu|]. unfold post in HP. cbn [pend app] in HP. exact HP.
  Qed.

  (** every response is sent exactly when its event fires, in order: the list sent only grows by the response of the event just matched *)
  Lemma react_sent responses i sent sent' stopnow : react responses i sent = Some (sent', stopnow) ->
    sent' = sent \/ exists s, sent' = sent ++ [s] /\
      (nth_error responses i = Some (RSend s) \/ nth_error responses i = Some (RCall (CbStr s))).
  Proof.
    unfold react. destruct (nth_error responses i) as [[s|[s| |]|]|]; intros [= <- <-]; eauto.
  Qed.
End Proofs.

Lemma spawn_timeout_spec :
  spawn_timeout None = Some 30%Z /\ spawn_timeout (Some None) = None /\ forall t, spawn_timeout (Some (Some t)) = Some t.
Proof. repeat split. Qed.
