From Coq Require Import ZArith List Bool.
Import ListNotations.
From PV Require Import Base.V Life.Model.
Local Open Scope Z_scope.

Definition vo (o : option Z) : V := match o with Some z => VL [VI z] | None => VL [] end.
Definition enc_out (o : outc) : V :=
  match o with RBool b => VL [VI 0; vbool b] | RCode z => VL [VI 1; vo z] | RNone => VL [VI 2] | RaisePty n => VL [VI 3; vnat n] | RBlocks => VL [VI 4] end.
Definition enc_world (w : world) : V :=
  VL [VL [vbool (alive (ch w)); vbool (reaped (ch w)); vbool (stopped (ch w))];
      VL [vbool (t_terminated (pt w)); vo (t_status (pt w)); vo (t_exit (pt w)); vo (t_sig (pt w)); vbool (t_closed (pt w)); vbool (t_fd_open (pt w))];
      VL [vbool (s_terminated (sp w)); vo (s_status (sp w)); vo (s_exit (sp w)); vo (s_sig (sp w)); vbool (s_closed (sp w)); vbool (s_fd_valid (sp w))];
      vlist (fun k => VL [VI (fst k); vbool (snd k)]) (kills w); vnat (fd_closes w)].
Fixpoint run_ops (w : world) (ops : list lop) : list V :=
  match ops with [] => [] | o :: r => let '(x, w') := lstep w o in VL [enc_out x; enc_world w'] :: run_ops w' r end.
Definition run_life (c : bool * bool * bool * list lop) : V :=
  match c with (ih, ii, st, ops) => VL (run_ops (world0 ih ii st) ops) end.
(** the W* macros: (status) -> [WIFEXITED, WEXITSTATUS, WIFSIGNALED, WTERMSIG, WIFSTOPPED] *)
Definition run_wstatus (ss : list Z) : V :=
  vlist (fun s => VL [vbool (WIFEXITED s); VI (WEXITSTATUS s); vbool (WIFSIGNALED s); VI (WTERMSIG s); vbool (WIFSTOPPED s)]) ss.

(** fdspawn / SocketSpawn lifecycle (job fd-life): (is_socket, ops) -> per op [result, state] *)
From PV Require Import Life.FdModel.
Definition enc_fres (r : fres) : V := match r with FOk => VL [VI 0] | FBool b => VL [VI 1; vbool b] | FErr => VL [VI 2] end.
Definition enc_fdw (w : fdw) : V := VL [vbool (f_valid w); vbool (f_closed w); vbool (os_open w); vnat (f_releases w)].
Fixpoint run_fops (s : bool) (w : fdw) (ops : list fop) : list V :=
  match ops with [] => [] | o :: r => let '(x, w') := fstep s w o in VL [enc_fres x; enc_fdw w'] :: run_fops s w' r end.
Definition run_fdlife (c : bool * list fop) : V := match c with (s, ops) => VL (run_fops s fd0 ops) end.
