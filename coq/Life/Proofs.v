(** C09 / C10: invariants of the lifecycle model over all operation sequences. *)
From Coq Require Import ZArith List Bool Lia.
Import ListNotations.
From PV Require Import Life.Model.
Local Open Scope Z_scope.

(** wait statuses the model's children can die with: exit codes 0..255 and terminating signals 1..126 *)
Definition good_status (st : Z) : Prop := (exists c, 0 <= c < 256 /\ st = c * 256) \/ (1 <= st < 127).

Definition fields_of (st : Z) : option Z * option Z :=
  if WIFEXITED st then (Some (WEXITSTATUS st), None) else (None, Some (WTERMSIG st)).

(** the W* macros decode what the status constructors encode *)
Lemma decode_exit c : 0 <= c < 256 -> WIFEXITED (status_of_exit c) = true /\ WEXITSTATUS (status_of_exit c) = c /\ WIFSIGNALED (status_of_exit c) = false.
Proof.
  intros H. unfold WIFEXITED, WEXITSTATUS, WIFSIGNALED, status_of_exit.
  assert (E : (c * 256) mod 128 = 0) by (replace (c * 256) with ((c * 2) * 128) by lia; apply Z.mod_mul; lia).
  rewrite E. rewrite (Z.div_mul c 256) by lia. rewrite (Z.mod_small c 256) by lia. cbn. auto.
Qed.
Lemma decode_signal s : 1 <= s < 127 -> WIFEXITED (status_of_signal s) = false /\ WIFSIGNALED (status_of_signal s) = true /\ WTERMSIG (status_of_signal s) = s.
Proof.
  intros H. unfold WIFEXITED, WIFSIGNALED, WTERMSIG, status_of_signal. rewrite Z.mod_small by lia.
  destruct (Z.eqb_spec s 0), (Z.eqb_spec s 127); try lia; cbn; auto.
Qed.
Lemma good_status_decodes st : good_status st -> WIFEXITED st = true \/ (WIFEXITED st = false /\ WIFSIGNALED st = true).
Proof.
  intros [(c & Hc & ->)|H].
  - left. apply (decode_exit c Hc).
  - right. destruct (decode_signal st H) as (A & B & _). auto.
Qed.

Definition Inv (w : world) : Prop :=
  (alive (ch w) = false -> good_status (fate (ch w))) /\
  (t_terminated (pt w) = true -> alive (ch w) = false /\ reaped (ch w) = true /\
      t_status (pt w) = Some (fate (ch w)) /\ (t_exit (pt w), t_sig (pt w)) = fields_of (fate (ch w))) /\
  (reaped (ch w) = true -> t_terminated (pt w) = true) /\
  (s_terminated (sp w) = true -> t_terminated (pt w) = true /\ s_status (sp w) = t_status (pt w) /\
      s_exit (sp w) = t_exit (pt w) /\ s_sig (sp w) = t_sig (pt w)) /\
  Forall (fun k => snd k = true) (kills w) /\
  (fd_closes w = if t_fd_open (pt w) then 0%nat else 1%nat) /\
  (t_closed (pt w) = true -> t_fd_open (pt w) = false /\ t_terminated (pt w) = true) /\
  (s_closed (sp w) = true -> s_fd_valid (sp w) = false /\ t_closed (pt w) = true).

Definition wf_op (o : lop) : Prop :=
  match o with
  | OKill s => 1 <= s < 127
  | OEnv (EExit c) => 0 <= c < 256
  | OEnv (ESignalled s) => 1 <= s < 127
  | OEnv EReapedElsewhere => False         (* a world where nobody else reaps our child; Life/Foreign.v lifts this *)
  | _ => True
  end.

Lemma world0_inv ih ii st : Inv (world0 ih ii st).
Proof. unfold Inv, world0; cbn. repeat split; try discriminate; auto. Qed.

(** -- the child only ever dies with a good status ---------------------------------------------- *)
Lemma deliver_spec c sig : 1 <= sig < 127 -> (alive c = false -> good_status (fate c)) ->
  reaped (deliver c sig) = reaped c /\
  (alive (deliver c sig) = false -> good_status (fate (deliver c sig))) /\
  (alive c = false -> deliver c sig = c) /\
  (sig = SIGKILL -> alive (deliver c sig) = false).
Proof.
  intros Hs Hg.
  assert (K : good_status (status_of_signal SIGKILL)) by (right; unfold status_of_signal, SIGKILL; lia).
  assert (H1 : good_status (status_of_signal SIGHUP)) by (right; unfold status_of_signal, SIGHUP; lia).
  assert (H2 : good_status (status_of_signal SIGINT)) by (right; unfold status_of_signal, SIGINT; lia).
  assert (H3 : good_status (status_of_signal sig)) by (right; unfold status_of_signal; lia).
  unfold deliver, die. destruct (alive c) eqn:Ea; cbn [negb].
  2: { repeat split; auto. }
  repeat match goal with |- context[if ?b then _ else _] => let E := fresh "E" in destruct b eqn:E end;
    cbn [alive reaped fate]; repeat split; auto; try discriminate; try congruence;
    try (intros ->; rewrite Z.eqb_refl in *; discriminate).
Qed.

(** a change of the child that keeps it unreaped and its death status good preserves the invariant as long as no
    object has recorded a termination yet, or the child was already dead (then nothing changes) *)
Lemma inv_set_ch w c' : Inv w ->
  reaped c' = reaped (ch w) ->
  (alive c' = false -> good_status (fate c')) ->
  (alive (ch w) = false -> c' = ch w) ->
  Inv (set_ch w c').
Proof.
  intros (I1 & I2 & I3 & I4 & I5 & I6 & I7 & I8) Hr Hg Hd. unfold Inv, set_ch; cbn.
  split; [exact Hg|]. split.
  { intros Ht. destruct (I2 Ht) as (A & B & C & D). rewrite (Hd A). auto. }
  split; [intros H; apply I3; congruence|].
  split; [exact I4|]. split; [exact I5|]. split; [exact I6|]. split; [exact I7 | exact I8].
Qed.

(** -- the one place where the child is reaped and its status decoded ------------------------------ *)
Lemma pty_isalive_spec w : Inv w ->
  match pty_isalive w with
  | (RBool true, w') => w' = w /\ alive (ch w) = true /\ t_terminated (pt w) = false
  | (RBool false, w') => Inv w' /\ t_terminated (pt w') = true /\ sp w' = sp w /\ kills w' = kills w /\
                         fd_closes w' = fd_closes w /\ t_closed (pt w') = t_closed (pt w) /\ t_fd_open (pt w') = t_fd_open (pt w) /\
                         (t_terminated (pt w) = true -> w' = w)
  | _ => False
  end.
Proof.
  intros HI. unfold pty_isalive.
  destruct (t_terminated (pt w)) eqn:Et; [split; [exact HI|]; repeat split; auto|].
  destruct (reaped (ch w)) eqn:Er.
  { destruct HI as (_ & _ & I3 & _). specialize (I3 Er). congruence. }
  destruct (alive (ch w)) eqn:Ea; [auto|].
  pose proof HI as (I1 & I2 & I3 & I4 & I5 & I6 & I7 & I8).
  assert (S4 : s_terminated (sp w) = true -> False) by (intros H; destruct (I4 H); congruence).
  pose proof (good_status_decodes _ (I1 Ea)) as [Hx|[Hx Hs]].
  - rewrite Hx. unfold Inv, set_pt, set_ch; cbn. unfold fields_of. rewrite Hx.
    repeat split; auto; try discriminate; try (intros H; now elim (S4 H)); try (exfalso; apply S4; assumption); try (apply I8; assumption);
      try (apply I7; assumption).
  - rewrite Hx, Hs. unfold Inv, set_pt, set_ch; cbn. unfold fields_of. rewrite Hx.
    repeat split; auto; try discriminate; try (intros H; now elim (S4 H)); try (exfalso; apply S4; assumption); try (apply I8; assumption);
      try (apply I7; assumption).
Qed.

Lemma copy_fields_inv w : Inv w -> t_terminated (pt w) = true -> Inv (copy_fields w) /\ s_terminated (sp (copy_fields w)) = true.
Proof.
  intros (I1 & I2 & I3 & I4 & I5 & I6 & I7 & I8) Ht. unfold Inv, copy_fields, set_sp; cbn.
  split; [|reflexivity]. split; [exact I1|]. split; [exact I2|]. split; [exact I3|].
  split; [intros _; auto|]. split; [exact I5|]. split; [exact I6|]. split; [exact I7 | exact I8].
Qed.

Lemma isalive_spec w : Inv w ->
  match isalive w with
  | (RBool true, w') => w' = w /\ alive (ch w) = true /\ t_terminated (pt w) = false
  | (RBool false, w') => Inv w' /\ t_terminated (pt w') = true /\ s_terminated (sp w') = true /\ alive (ch w') = false /\ reaped (ch w') = true /\
                         kills w' = kills w /\ fd_closes w' = fd_closes w /\ t_closed (pt w') = t_closed (pt w) /\
                         t_fd_open (pt w') = t_fd_open (pt w) /\ s_closed (sp w') = s_closed (sp w) /\ s_fd_valid (sp w') = s_fd_valid (sp w)
  | _ => False
  end.
Proof.
  intros HI. unfold isalive. pose proof (pty_isalive_spec w HI) as P.
  destruct (pty_isalive w) as [[[|]| | | |] w']; auto.
  destruct P as (P1 & P2 & P3 & P4 & P5 & P6 & P7 & _).
  destruct (copy_fields_inv w' P1 P2) as [C1 C2].
  pose proof P1 as (_ & J2 & _). destruct (J2 P2) as (A & B & _).
  split; [exact C1|]. repeat split; auto; unfold copy_fields, set_sp; cbn; try congruence.
Qed.

(** -- what every liveness check guarantees ------------------------------------------------------ *)
Definition frame (w w' : world) : Prop :=
  fd_closes w' = fd_closes w /\ t_closed (pt w') = t_closed (pt w) /\ t_fd_open (pt w') = t_fd_open (pt w) /\
  s_closed (sp w') = s_closed (sp w) /\ s_fd_valid (sp w') = s_fd_valid (sp w).
Lemma frame_refl w : frame w w. Proof. repeat split. Qed.
Lemma frame_trans a b c : frame a b -> frame b c -> frame a c.
Proof. unfold frame. intuition congruence. Qed.

Definition dead (w : world) : Prop := t_terminated (pt w) = true /\ alive (ch w) = false /\ reaped (ch w) = true.

Definition check_ok (check : world -> outc * world) : Prop := forall w, Inv w ->
  match check w with
  | (RBool true, w') => w' = w /\ alive (ch w) = true /\ t_terminated (pt w) = false
  | (RBool false, w') => Inv w' /\ dead w' /\ kills w' = kills w /\ frame w w'
  | _ => False
  end.

Lemma pty_isalive_ok : check_ok pty_isalive.
Proof.
  intros w HI. pose proof (pty_isalive_spec w HI) as P. destruct (pty_isalive w) as [[[|]| | | |] w']; auto.
  destruct P as (P1 & P2 & P3 & P4 & P5 & P6 & P7 & _). pose proof P1 as (_ & J2 & _). destruct (J2 P2) as (A & B & _).
  split; [exact P1|]. unfold dead, frame. rewrite P3. repeat split; auto.
Qed.
Lemma isalive_ok : check_ok isalive.
Proof.
  intros w HI. pose proof (isalive_spec w HI) as P. destruct (isalive w) as [[[|]| | | |] w']; auto.
  destruct P as (P1 & P2 & P3 & P4 & P5 & P6 & P7 & P8 & P9 & P10 & P11). split; [exact P1|]. unfold dead, frame. repeat split; auto.
Qed.

Section WithCheck.
  Variable check : world -> outc * world.
  Hypothesis Hc : check_ok check.

  Lemma inv_after_kill w sig : Inv w -> alive (ch w) = true -> t_terminated (pt w) = false -> 1 <= sig < 127 ->
    Inv {| ch := deliver (ch w) sig; pt := pt w; sp := sp w; kills := kills w ++ [(sig, alive (ch w))]; fd_closes := fd_closes w |}.
  Proof.
    intros (I1 & I2 & I3 & I4 & I5 & I6 & I7 & I8) Ha Ht Hs.
    destruct (deliver_spec (ch w) sig Hs I1) as (D1 & D2 & D3 & D4).
    unfold Inv; cbn. split; [exact D2|]. split; [intros H; congruence|].
    split; [intros H; apply I3; congruence|]. split; [exact I4|].
    split; [apply Forall_app; split; [exact I5 | constructor; [exact Ha | constructor]]|].
    split; [exact I6|]. split; [exact I7 | exact I8].
  Qed.

  Lemma send_kill_spec w sig : Inv w -> 1 <= sig < 127 ->
    match send_kill check w sig with
    | (RNone, w') => Inv w' /\ frame w w' /\ (sig = SIGKILL -> alive (ch w') = false) /\ (dead w -> w' = w \/ dead w')
    | _ => False
    end.
  Proof.
    intros HI Hs. unfold send_kill. pose proof (Hc w HI) as C. destruct (check w) as [[[|]| | | |] w']; try contradiction.
    - destruct C as (-> & Ha & Ht). split; [now apply inv_after_kill|]. split; [repeat split|]. split.
      + intros ->. cbn. destruct (deliver_spec (ch w) SIGKILL Hs ltac:(destruct HI; auto)) as (_ & _ & _ & D4). now apply D4.
      + intros (D & _). congruence.
    - destruct C as (C1 & C2 & C3 & C4). split; [exact C1|]. split; [exact C4|]. split; [intros _; apply C2 | intros _; now right].
  Qed.

  (** outcome of terminate: a boolean; True exactly when the child is dead and reaped *)
  Definition term_good (w0 : world) (force : bool) (out : outc * world) : Prop :=
    match out with
    | (RBool b, w') => Inv w' /\ frame w0 w' /\ (b = true -> dead w') /\ (b = false -> force = false)
    | _ => False
    end.

  Lemma step_good w0 force sig (k : world -> outc * world) w : Inv w -> frame w0 w -> 1 <= sig < 127 ->
    (sig = SIGKILL \/ forall w2, Inv w2 -> frame w0 w2 -> term_good w0 force (k w2)) ->
    term_good w0 force
      (match send_kill check w sig with
       | (RNone, w1) => match check w1 with
                        | (RBool false, w2) => (RBool true, w2)
                        | (RBool true, w2) => k w2
                        | r => r
                        end
       | r => r
       end).
  Proof.
    intros HI HF Hs Hk. pose proof (send_kill_spec w sig HI Hs) as K.
    destruct (send_kill check w sig) as [[| |  | |] w1]; try contradiction.
    destruct K as (K1 & K2 & K3 & _). pose proof (Hc w1 K1) as C.
    destruct (check w1) as [[[|]| | | |] w2]; try contradiction.
    - destruct C as (-> & Ha & Ht). destruct Hk as [->|Hk].
      + rewrite (K3 eq_refl) in Ha. discriminate.
      + apply Hk; [exact K1 | eapply frame_trans; eauto].
    - destruct C as (C1 & C2 & C3 & C4). unfold term_good. split; [exact C1|]. split; [eapply frame_trans; [eapply frame_trans|]; eauto|].
      split; [intros _; exact C2 | discriminate].
  Qed.

  Theorem terminate_spec w force : Inv w -> term_good w force (terminate_with check w force).
  Proof.
    intros HI. unfold terminate_with. pose proof (Hc w HI) as C.
    destruct (check w) as [[[|]| | | |] w0]; try contradiction.
    2: { destruct C as (C1 & C2 & C3 & C4). unfold term_good. split; [exact C1|]. split; [exact C4|]. split; [intros _; exact C2 | discriminate]. }
    destruct C as (-> & Ha & Ht).
    assert (S1 : 1 <= SIGHUP < 127) by (unfold SIGHUP; lia). assert (S2 : 1 <= SIGCONT < 127) by (unfold SIGCONT; lia).
    assert (S3 : 1 <= SIGINT < 127) by (unfold SIGINT; lia). assert (S4 : 1 <= SIGKILL < 127) by (unfold SIGKILL; lia).
    cbv zeta.
    apply step_good; auto using frame_refl. right. intros w2 H2 F2.
    apply step_good; auto. right. intros w3 H3 F3.
    apply step_good; auto. right. intros w4 H4 F4.
    destruct force.
    - apply step_good; auto.
    - unfold term_good. split; [exact H4|]. split; [exact F4|]. split; [discriminate | reflexivity].
  Qed.
End WithCheck.

Definition terminate_ok w force := terminate_spec isalive isalive_ok w force.
Definition pty_terminate_ok w force := terminate_spec pty_isalive pty_isalive_ok w force.

(** -- sequences of operations (close is covered by the correspondence and the real-kernel oracle, not by a theorem) ---- *)
Definition no_close (o : lop) : bool := match o with OClose _ | ODrop => false | _ => true end.

Lemma env1_spec c e : (match e with EExit x => 0 <= x < 256 | ESignalled s => 1 <= s < 127 | EReapedElsewhere => False end) ->
  (alive c = false -> good_status (fate c)) ->
  reaped (env1 c e) = reaped c /\ (alive (env1 c e) = false -> good_status (fate (env1 c e))) /\ (alive c = false -> env1 c e = c).
Proof.
  intros He Hg. unfold env1. destruct e as [code|sig|]; [| |contradiction]; (destruct (alive c) eqn:Ea; cbn [negb]; [|auto]);
    cbn; repeat split; auto; try discriminate; intros _.
  - left. exists code. split; [exact He | reflexivity].
  - right. exact He.
Qed.

Theorem lstep_inv w o : Inv w -> wf_op o -> no_close o = true ->
  Inv (snd (lstep w o)) /\ fst (lstep w o) <> RaisePty 1.
Proof.
  intros HI Hwf Hnc. destruct o as [| |sig|force|force|e| |]; cbn [lstep wf_op] in *; try discriminate.
  6: { unfold io. destruct (s_closed (sp w) || negb (s_fd_valid (sp w))); cbn [fst snd]; (split; [exact HI | discriminate]). }
  - pose proof (isalive_ok w HI) as C. destruct (isalive w) as [[[|]| | | |] w']; try contradiction; cbn [fst snd].
    + destruct C as (-> & _). split; [exact HI | discriminate].
    + split; [apply C | discriminate].
  - unfold wait. pose proof (pty_isalive_spec w HI) as P. destruct (pty_isalive w) as [[[|]| | | |] w']; try contradiction; cbn [fst snd].
    + destruct P as (-> & _). split; [exact HI | discriminate].
    + destruct P as (P1 & P2 & _). split; [apply (copy_fields_inv w' P1 P2) | discriminate].
  - pose proof (send_kill_spec isalive isalive_ok w sig HI Hwf) as K. unfold kill.
    destruct (send_kill isalive w sig) as [[| | | |] w']; try contradiction. cbn [fst snd]. split; [apply K | discriminate].
  - pose proof (terminate_ok w force HI) as T. unfold terminate.
    destruct (terminate_with isalive w force) as [[[|]| | | |] w']; try contradiction; cbn [fst snd]; (split; [apply T | discriminate]).
  - cbn [fst snd]. split; [|discriminate]. destruct HI as (I1 & I2 & I3 & I4 & I5 & I6 & I7 & I8).
    destruct (env1_spec (ch w) e Hwf I1) as (E1 & E2 & E3).
    apply inv_set_ch; auto. unfold Inv. auto 10.
Qed.

Theorem steps_inv ops : forall w, Inv w -> Forall wf_op ops -> forallb no_close ops = true ->
  Inv (fold_left (fun w o => snd (lstep w o)) ops w).
Proof.
  induction ops as [|o ops IH]; intros w HI Hwf Hnc; cbn [fold_left]; [exact HI|].
  inversion Hwf as [|? ? Hwo Hwr]; subst. cbn [forallb] in Hnc. apply andb_prop in Hnc as [Hn1 Hn2].
  apply IH; auto. now apply lstep_inv.
Qed.

(** C09: whenever the object says terminated, the fields are the real fate: exactly one of exitstatus / signalstatus is
    set, it is what the wait status decodes to, the child is dead and has been reaped *)
Theorem status_truth w : Inv w -> s_terminated (sp w) = true ->
  alive (ch w) = false /\ reaped (ch w) = true /\ s_status (sp w) = Some (fate (ch w)) /\
  (s_exit (sp w), s_sig (sp w)) = fields_of (fate (ch w)) /\
  ((exists c, s_exit (sp w) = Some c /\ s_sig (sp w) = None) \/ (exists g, s_exit (sp w) = None /\ s_sig (sp w) = Some g)).
Proof.
  intros (I1 & I2 & I3 & I4 & _) Hs. destruct (I4 Hs) as (A & B & C & D). destruct (I2 A) as (E & F & G & H).
  rewrite B, C, D. repeat split; auto. unfold fields_of in H. destruct (WIFEXITED (fate (ch w))); injection H as -> ->; eauto.
Qed.

(** ... and they never change afterwards: every further operation leaves the four attributes as they are *)
Theorem status_stable w o : Inv w -> wf_op o -> no_close o = true -> s_terminated (sp w) = true ->
  let w' := snd (lstep w o) in
  s_terminated (sp w') = true /\ s_status (sp w') = s_status (sp w) /\ s_exit (sp w') = s_exit (sp w) /\ s_sig (sp w') = s_sig (sp w).
Proof.
  intros HI Hwf Hnc Hs. pose proof HI as (I1 & I2 & I3 & I4 & _). destruct (I4 Hs) as (Ht & B & C & D).
  assert (P : pty_isalive w = (RBool false, w)) by (unfold pty_isalive; now rewrite Ht).
  assert (Q : isalive w = (RBool false, copy_fields w)) by (unfold isalive; now rewrite P).
  assert (R : forall w0, sp (copy_fields w) = sp w0 -> s_terminated (sp w0) = true /\ s_status (sp w0) = s_status (sp w) /\
                         s_exit (sp w0) = s_exit (sp w) /\ s_sig (sp w0) = s_sig (sp w)).
  { intros w0 <-. unfold copy_fields, set_sp; cbn. auto. }
  destruct o as [| |sig|force|force|e| |]; cbn [lstep no_close] in *; try discriminate; cbv zeta.
  6: { unfold io. destruct (s_closed (sp w) || negb (s_fd_valid (sp w))); cbn [snd]; auto. }
  - rewrite Q. cbn [snd]. now apply R.
  - unfold wait. rewrite P. cbn [snd]. now apply R.
  - unfold kill, send_kill. rewrite Q. cbn [snd]. now apply R.
  - unfold terminate, terminate_with. rewrite Q. cbn [snd]. now apply R.
  - cbn [snd set_ch sp]. auto.
Qed.

(** C10: liveness is never misreported *)
Theorem isalive_truth w : Inv w ->
  match isalive w with
  | (RBool true, w') => alive (ch w') = true /\ s_terminated (sp w') = s_terminated (sp w)
  | (RBool false, w') => alive (ch w') = false /\ reaped (ch w') = true /\ s_terminated (sp w') = true
  | _ => False
  end.
Proof.
  intros HI. pose proof (isalive_spec w HI) as P. destruct (isalive w) as [[[|]| | | |] w']; auto.
  - destruct P as (-> & A & _). auto.
  - destruct P as (_ & _ & A & B & C & _). auto.
Qed.

(** C10: a signal is only ever sent to a process that is alive (never to a reaped pid) *)
Theorem kills_only_alive ops : forall w, Inv w -> Forall wf_op ops -> forallb no_close ops = true ->
  Forall (fun k => snd k = true) (kills (fold_left (fun w o => snd (lstep w o)) ops w)).
Proof. intros w HI Hwf Hnc. apply (steps_inv ops w HI Hwf Hnc). Qed.

(** C10: terminate(force=True) leaves the child dead and reaped, whatever its disposition *)
Theorem terminate_force_kills w : Inv w ->
  match terminate w true with
  | (RBool true, w') => Inv w' /\ alive (ch w') = false /\ reaped (ch w') = true /\ t_terminated (pt w') = true
  | _ => False
  end.
Proof.
  intros HI. pose proof (terminate_ok w true HI) as T. unfold terminate.
  destruct (terminate_with isalive w true) as [[[|]| | | |] w']; try contradiction.
  - destruct T as (T1 & _ & T3 & _). destruct (T3 eq_refl) as (A & B & C). auto.
  - destruct T as (_ & _ & _ & T4). specialize (T4 eq_refl). discriminate.
Qed.

(** ============ close(): ptyprocess.close and pexpect.spawn.close ================================================ *)
Lemma inv_finish w : Inv w -> dead w -> t_fd_open (pt w) = false ->
  Inv (set_pt w {| t_terminated := t_terminated (pt w); t_status := t_status (pt w); t_exit := t_exit (pt w);
                   t_sig := t_sig (pt w); t_closed := true; t_fd_open := false |}).
Proof.
  intros (I1 & I2 & I3 & I4 & I5 & I6 & I7 & I8) (D1 & D2 & D3) Hfd. unfold Inv, set_pt; cbn.
  split; [exact I1|]. split; [exact I2|]. split; [exact I3|]. split; [exact I4|]. split; [exact I5|].
  split; [now rewrite Hfd in I6|]. split; [intros _; split; [reflexivity | exact D1]|].
  intros H. destruct (I8 H) as [A _]. split; [exact A | reflexivity].
Qed.

Lemma inv_release_fd w : Inv w -> t_closed (pt w) = false ->
  Inv {| ch := ch w; pt := {| t_terminated := t_terminated (pt w); t_status := t_status (pt w); t_exit := t_exit (pt w); t_sig := t_sig (pt w);
                              t_closed := false; t_fd_open := false |};
         sp := sp w; kills := kills w; fd_closes := (fd_closes w + (if t_fd_open (pt w) then 1 else 0))%nat |}.
Proof.
  intros (I1 & I2 & I3 & I4 & I5 & I6 & I7 & I8) Hc. unfold Inv; cbn.
  split; [exact I1|]. split; [exact I2|]. split; [exact I3|]. split; [exact I4|]. split; [exact I5|].
  split; [rewrite I6; destruct (t_fd_open (pt w)); reflexivity|]. split; [discriminate|].
  intros H. destruct (I8 H) as [_ B]. congruence.
Qed.

Definition sframe (w w' : world) : Prop := s_closed (sp w') = s_closed (sp w) /\ s_fd_valid (sp w') = s_fd_valid (sp w).

Lemma pty_close_spec w force : Inv w ->
  match pty_close w force with
  | (RNone, w') => Inv w' /\ dead w' /\ t_closed (pt w') = true /\ sframe w w' /\ (t_closed (pt w) = true -> w' = w) /\
                   (fd_closes w' = 1%nat)
  | (RaisePty n, w') => n = 2%nat /\ Inv w' /\ force = false /\ t_closed (pt w') = false /\ t_fd_open (pt w') = false /\ sframe w w'
  | _ => False
  end.
Proof.
  intros HI. unfold pty_close. destruct (t_closed (pt w)) eqn:Ec.
  { pose proof HI as (I1 & I2 & I3 & I4 & I5 & I6 & I7 & I8). destruct (I7 Ec) as [Hfd Ht]. destruct (I2 Ht) as (A & B & _).
    split; [exact HI|]. split; [repeat split; assumption|]. split; [exact Ec|]. split; [split; reflexivity|]. split; [auto|].
    now rewrite Hfd in I6. }
  cbv zeta.
  pose proof (inv_release_fd w HI Ec) as H1.
  match type of H1 with Inv ?W => set (w1 := W) in * end.
  assert (S1 : 1 <= SIGHUP < 127) by (unfold SIGHUP; lia).
  assert (G1 : alive (ch w1) = false -> good_status (fate (ch w1))) by (destruct H1; assumption).
  destruct (deliver_spec (ch w1) SIGHUP S1 G1) as (D1 & D2 & D3 & _).
  pose proof (inv_set_ch w1 (deliver (ch w1) SIGHUP) H1 D1 D2 D3) as H2.
  set (w2 := set_ch w1 (deliver (ch w1) SIGHUP)) in *.
  assert (F2 : t_fd_open (pt w2) = false) by reflexivity.
  assert (C2 : t_closed (pt w2) = false) by reflexivity.
  assert (SF2 : sframe w w2) by (split; reflexivity).
  assert (ST2 : s_terminated (sp w2) = s_terminated (sp w)) by reflexivity.
  assert (K2 : fd_closes w2 = 1%nat).
  { destruct H2 as (_ & _ & _ & _ & _ & I6 & _). now rewrite F2 in I6. }
  pose proof (pty_isalive_spec w2 H2) as C.
  destruct (pty_isalive w2) as [[[|]| | | |] w3]; try contradiction.
  - destruct C as (-> & Ha & Ht).
    pose proof (pty_terminate_ok w2 force H2) as T. unfold pty_terminate.
    destruct (terminate_with pty_isalive w2 force) as [[[|]| | | |] w4]; try contradiction.
    + destruct T as (T1 & (F1 & F2' & F3 & F4 & F5) & T3 & _). specialize (T3 eq_refl).
      assert (Fd4 : t_fd_open (pt w4) = false) by congruence.
      split; [now apply inv_finish|]. split; [exact T3|]. split; [reflexivity|].
      split; [destruct SF2; split; cbn; congruence|]. split; [congruence|]. cbn. congruence.
    + destruct T as (T1 & (F1 & F2' & F3 & F4 & F5) & _ & T4). specialize (T4 eq_refl).
      split; [reflexivity|]. split; [exact T1|]. split; [exact T4|]. split; [congruence|]. split; [congruence|].
      destruct SF2; split; congruence.
  - destruct C as (P1 & P2 & P3 & P4 & P5 & P6 & P7 & _).
    assert (D : dead w3). { pose proof P1 as (_ & J2 & _). destruct (J2 P2) as (A & B & _). repeat split; assumption. }
    assert (Fd3 : t_fd_open (pt w3) = false) by congruence.
    split; [now apply inv_finish|]. split; [exact D|]. split; [reflexivity|].
    split; [destruct SF2; split; cbn; rewrite P3; assumption|]. split; [congruence|]. cbn. congruence.
Qed.

Lemma inv_fd_invalid w : Inv w ->
  Inv (set_sp w {| s_terminated := s_terminated (sp w); s_status := s_status (sp w); s_exit := s_exit (sp w); s_sig := s_sig (sp w);
                   s_closed := s_closed (sp w); s_fd_valid := false |}).
Proof.
  intros (I1 & I2 & I3 & I4 & I5 & I6 & I7 & I8). unfold Inv, set_sp; cbn.
  split; [exact I1|]. split; [exact I2|]. split; [exact I3|]. split; [exact I4|]. split; [exact I5|]. split; [exact I6|]. split; [exact I7|].
  intros H. destruct (I8 H) as [_ B]. split; [reflexivity | exact B].
Qed.

Lemma inv_set_closed w : Inv w -> t_closed (pt w) = true ->
  Inv (set_sp w {| s_terminated := s_terminated (sp w); s_status := s_status (sp w); s_exit := s_exit (sp w); s_sig := s_sig (sp w);
                   s_closed := true; s_fd_valid := false |}).
Proof.
  intros (I1 & I2 & I3 & I4 & I5 & I6 & I7 & I8) Hc. unfold Inv, set_sp; cbn.
  split; [exact I1|]. split; [exact I2|]. split; [exact I3|]. split; [exact I4|]. split; [exact I5|]. split; [exact I6|]. split; [exact I7|].
  intros _. split; [reflexivity | exact Hc].
Qed.

(** the state a successful close() leaves behind *)
Definition closed_state (w : world) : Prop :=
  Inv w /\ dead w /\ s_terminated (sp w) = true /\ s_closed (sp w) = true /\ s_fd_valid (sp w) = false /\
  t_closed (pt w) = true /\ fd_closes w = 1%nat.

Lemma isalive_dead w : t_terminated (pt w) = true -> isalive w = (RBool false, copy_fields w).
Proof. intros Ht. unfold isalive, pty_isalive. now rewrite Ht. Qed.

Lemma close_spec w force : Inv w ->
  match close w force with
  | (RNone, w') => closed_state w' /\ (s_closed (sp w) = true -> kills w' = kills w /\ ch w' = ch w)
  | (RaisePty n, w') => n = 2%nat /\ Inv w' /\ force = false /\ s_fd_valid (sp w') = false /\ s_closed (sp w') = s_closed (sp w) /\
                        t_fd_open (pt w') = false
  | _ => False
  end.
Proof.
  intros HI. unfold close. pose proof (pty_close_spec w force HI) as P.
  destruct (pty_close w force) as [[| | |n|] w1]; try contradiction.
  - destruct P as (P1 & P2 & P3 & (P4a & P4b) & P5 & P6).
    pose proof (inv_fd_invalid w1 P1) as H1.
    match type of H1 with Inv ?W => set (w2 := W) in * end.
    pose proof (isalive_spec w2 H1) as A.
    assert (Ed : isalive w2 = (RBool false, copy_fields w2)) by (apply isalive_dead; destruct P2 as (D & _); exact D).
    rewrite Ed in A. rewrite Ed. set (w3 := copy_fields w2) in *.
    assert (Ech : ch w3 = ch w1) by reflexivity.
    destruct A as (A1 & A2 & A3 & A4 & A5 & A6 & A7 & A8 & A9 & A10 & A11).
    assert (C3 : t_closed (pt w3) = true) by (rewrite A8; exact P3).
    split.
    + unfold closed_state. split; [now apply inv_set_closed|]. cbn.
      split; [repeat split; assumption|]. split; [exact A3|]. split; [reflexivity|]. split; [reflexivity|].
      split; [exact C3|]. exact P6.
    + intros Hs. destruct HI as (_ & _ & _ & _ & _ & _ & _ & I8). destruct (I8 Hs) as [_ Hc]. specialize (P5 Hc). subst w1.
      cbn. split; reflexivity.
  - destruct P as (-> & P1 & P2 & P3 & P4 & (P5a & P5b)).
    split; [reflexivity|]. split; [now apply inv_fd_invalid|]. cbn. repeat split; auto.
Qed.

(** -- dropping the object: PtyProcess.__del__ = its close(force=True), errors swallowed; the spawn object's own fields are
    not touched by anything ptyprocess does ------------------------------------------------------------------------------ *)
Lemma pty_isalive_sp w : sp (snd (pty_isalive w)) = sp w.
Proof.
  unfold pty_isalive. destruct (t_terminated (pt w)); [reflexivity|]. destruct (reaped (ch w)); [reflexivity|].
  destruct (alive (ch w)); reflexivity.
Qed.

Lemma pty_kill_sp w sig : sp (snd (send_kill pty_isalive w sig)) = sp w.
Proof.
  unfold send_kill. pose proof (pty_isalive_sp w) as P. destruct (pty_isalive w) as [[[|]| | | |] w']; cbn [snd] in *; exact P.
Qed.

Lemma pty_terminate_sp w force : sp (snd (terminate_with pty_isalive w force)) = sp w.
Proof.
  unfold terminate_with.
  assert (STEP : forall sig (k : world -> outc * world), (forall v, sp (snd (k v)) = sp v) ->
            forall v, sp (snd (match send_kill pty_isalive v sig with
                               | (RNone, w1) => match pty_isalive w1 with
                                                | (RBool false, w2) => (RBool true, w2)
                                                | (RBool true, w2) => k w2
                                                | r => r
                                                end
                               | r => r
                               end)) = sp v).
  { intros sig k Hk v. pose proof (pty_kill_sp v sig) as K. destruct (send_kill pty_isalive v sig) as [[[|]| | | |] w1]; cbn [snd] in *; try exact K.
    pose proof (pty_isalive_sp w1) as A. destruct (pty_isalive w1) as [[[|]| | | |] w2]; cbn [snd] in *; try congruence. }
  pose proof (pty_isalive_sp w) as P. destruct (pty_isalive w) as [[[|]| | | |] w0]; cbn [snd] in *; try exact P.
  rewrite <- P. apply STEP. intros v. apply STEP. intros v1. apply STEP. intros v2.
  destruct force; [|reflexivity]. apply STEP. reflexivity.
Qed.

Lemma pty_close_sp w force : sp (snd (pty_close w force)) = sp w.
Proof.
  unfold pty_close. destruct (t_closed (pt w)); [reflexivity|]. cbv zeta.
  match goal with |- context[pty_isalive ?W] => set (w2 := W) end.
  assert (S2 : sp w2 = sp w) by reflexivity.
  pose proof (pty_isalive_sp w2) as A. destruct (pty_isalive w2) as [[[|]| | | |] w3]; cbn [snd set_pt sp] in *; try congruence.
  pose proof (pty_terminate_sp w3 force) as T. unfold pty_terminate.
  destruct (terminate_with pty_isalive w3 force) as [[[|]| | | |] w4]; cbn [snd set_pt sp] in *; congruence.
Qed.

(** C10: dropping the object, in any reachable state: the child is dead and reaped, the descriptor has been released exactly once
    in total, PtyProcess is closed; the spawn object's own fields are as they were *)
Theorem drop_spec w : Inv w ->
  let w' := snd (drop w) in
  Inv w' /\ dead w' /\ t_closed (pt w') = true /\ t_fd_open (pt w') = false /\ fd_closes w' = 1%nat /\ sp w' = sp w /\
  (t_closed (pt w) = true -> w' = w).
Proof.
  intros HI. cbv zeta. unfold drop. cbn [snd]. pose proof (pty_close_spec w true HI) as P. pose proof (pty_close_sp w true) as S.
  destruct (pty_close w true) as [[| | |n|] w']; try contradiction; cbn [snd] in *.
  - destruct P as (P1 & P2 & P3 & _ & P5 & P6). pose proof P1 as (_ & _ & _ & _ & _ & _ & I7 & _). destruct (I7 P3) as [F _].
    split; [exact P1|]. split; [exact P2|]. split; [exact P3|]. split; [exact F|]. split; [exact P6|]. split; [exact S|exact P5].
  - destruct P as (_ & _ & P & _). discriminate.
Qed.

(** -- every sequence of operations, close included ------------------------------------------------------------- *)
Theorem lstep_inv_all w o : Inv w -> wf_op o -> Inv (snd (lstep w o)) /\ fst (lstep w o) <> RaisePty 1.
Proof.
  intros HI Hwf. destruct (no_close o) eqn:E; [now apply lstep_inv|].
  destruct o as [| | | |force| | |]; try discriminate; cbn [lstep].
  - pose proof (close_spec w force HI) as C. destruct (close w force) as [[| | |n|] w']; try contradiction; cbn [fst snd].
    + split; [apply C | discriminate].
    + destruct C as (-> & C & _). split; [exact C | discriminate].
  - split; [apply (drop_spec w HI) | discriminate].
Qed.

Theorem steps_inv_all ops : forall w, Inv w -> Forall wf_op ops -> Inv (fold_left (fun w o => snd (lstep w o)) ops w).
Proof.
  induction ops as [|o ops IH]; intros w HI Hwf; cbn [fold_left]; [exact HI|].
  inversion Hwf as [|? ? Hwo Hwr]; subst. apply IH; auto. now apply lstep_inv_all.
Qed.

Theorem kills_only_alive_all ops w : Inv w -> Forall wf_op ops ->
  Forall (fun k => snd k = true) (kills (fold_left (fun w o => snd (lstep w o)) ops w)).
Proof. intros HI Hwf. apply (steps_inv_all ops w HI Hwf). Qed.

(** the descriptor is released at most once, whatever is called and however often *)
Theorem fd_released_at_most_once ops w : Inv w -> Forall wf_op ops ->
  (fd_closes (fold_left (fun w o => snd (lstep w o)) ops w) <= 1)%nat.
Proof.
  intros HI Hwf. destruct (steps_inv_all ops w HI Hwf) as (_ & _ & _ & _ & _ & I6 & _). rewrite I6.
  destruct (t_fd_open _); lia.
Qed.

(** close(force=True) leaves the child dead and reaped, the object terminated and closed, the descriptor released once *)
Theorem close_force w : Inv w ->
  match close w true with
  | (RNone, w') => closed_state w'
  | _ => False
  end.
Proof.
  intros HI. pose proof (close_spec w true HI) as C. destruct (close w true) as [[| | |n|] w']; try contradiction.
  - apply C.
  - destruct C as (_ & _ & C & _). discriminate.
Qed.

(** close(force=False) either succeeds in the same way or raises with the descriptor number invalidated *)
Theorem close_polite w : Inv w ->
  match close w false with
  | (RNone, w') => closed_state w'
  | (RaisePty n, w') => n = 2%nat /\ Inv w' /\ s_fd_valid (sp w') = false /\ t_fd_open (pt w') = false
  | _ => False
  end.
Proof.
  intros HI. pose proof (close_spec w false HI) as C. destruct (close w false) as [[| | |n|] w']; try contradiction.
  - apply C.
  - destruct C as (C1 & C2 & _ & C4 & _ & C6). auto.
Qed.

(** close() is idempotent: on a closed object it sends no signal, releases nothing, leaves the child and every attribute alone *)
Theorem close_idempotent w force : closed_state w ->
  match close w force with
  | (RNone, w') => closed_state w' /\ kills w' = kills w /\ ch w' = ch w /\ fd_closes w' = fd_closes w /\
                   s_status (sp w') = s_status (sp w) /\ s_exit (sp w') = s_exit (sp w) /\ s_sig (sp w') = s_sig (sp w)
  | _ => False
  end.
Proof.
  intros (HI & (D1 & D2 & D3) & St & Sc & Sf & Tc & Fc).
  pose proof HI as (_ & _ & _ & I4 & _). destruct (I4 St) as (_ & B1 & B2 & B3).
  unfold close, pty_close. rewrite Tc. rewrite isalive_dead by exact D1. cbn.
  split; [|repeat split; auto].
  pose proof (close_spec w force HI) as C. unfold close, pty_close in C. rewrite Tc in C. rewrite isalive_dead in C by exact D1.
  cbn in C. apply C.
Qed.

(** C09 with close: once terminated is set, no operation at all changes the four attributes *)
Theorem status_stable_all w o : Inv w -> wf_op o -> s_terminated (sp w) = true ->
  let w' := snd (lstep w o) in
  s_terminated (sp w') = true /\ s_status (sp w') = s_status (sp w) /\ s_exit (sp w') = s_exit (sp w) /\ s_sig (sp w') = s_sig (sp w).
Proof.
  intros HI Hwf Hs. destruct (no_close o) eqn:E; [now apply status_stable|].
  destruct o as [| | | |force| | |]; try discriminate; cbn [lstep]; cbv zeta.
  2: { destruct (drop_spec w HI) as (_ & _ & _ & _ & _ & -> & _). auto. }
  pose proof HI as (_ & _ & _ & I4 & _). destruct (I4 Hs) as (Ht & B1 & B2 & B3).
  unfold close, pty_close. destruct (t_closed (pt w)) eqn:Ec.
  - rewrite isalive_dead by exact Ht. cbn. auto.
  - cbv zeta. unfold pty_isalive at 1. cbn [set_ch pt t_terminated]. rewrite Ht.
    rewrite isalive_dead by reflexivity. cbn. auto.
Qed.

(** C10: after close() - successful or not - every I/O call on the object fails with an error and changes nothing *)
Theorem io_after_close w force : Inv w ->
  let w' := snd (close w force) in fst (io w') = RaisePty 3 /\ snd (io w') = w'.
Proof.
  intros HI. cbv zeta. pose proof (close_spec w force HI) as C. destruct (close w force) as [[| | |n|] w']; try contradiction; cbn [snd].
  - destruct C as ((_ & _ & _ & Sc & _) & _). unfold io. rewrite Sc. cbn. auto.
  - destruct C as (_ & _ & _ & Sf & _). unfold io. rewrite Sf. cbn. rewrite orb_true_r. auto.
Qed.

(** ... and keeps failing whatever is called afterwards: the descriptor number never becomes valid again *)
Theorem fd_stays_invalid w o : Inv w -> wf_op o -> s_fd_valid (sp w) = false -> s_fd_valid (sp (snd (lstep w o))) = false.
Proof.
  intros HI Hwf Hf. destruct o as [| |sig|force|force|e| |]; cbn [lstep].
  - pose proof (isalive_spec w HI) as P. destruct (isalive w) as [[[|]| | | |] w']; try contradiction; cbn [snd].
    + now destruct P as (-> & _).
    + destruct P as (_ & _ & _ & _ & _ & _ & _ & _ & _ & _ & P). congruence.
  - unfold wait. pose proof (pty_isalive_spec w HI) as P. destruct (pty_isalive w) as [[[|]| | | |] w']; try contradiction; cbn [snd].
    + now destruct P as (-> & _).
    + destruct P as (_ & _ & P & _). unfold copy_fields, set_sp; cbn. congruence.
  - pose proof (send_kill_spec isalive isalive_ok w sig HI Hwf) as K. unfold kill.
    destruct (send_kill isalive w sig) as [[| | | |] w']; try contradiction. cbn [snd]. destruct K as (_ & (_ & _ & _ & _ & K) & _). congruence.
  - pose proof (terminate_ok w force HI) as T. unfold terminate.
    destruct (terminate_with isalive w force) as [[[|]| | | |] w']; try contradiction; cbn [snd]; destruct T as (_ & (_ & _ & _ & _ & T) & _); congruence.
  - pose proof (close_spec w force HI) as C. destruct (close w force) as [[| | |n|] w']; try contradiction; cbn [snd].
    + apply C.
    + apply C.
  - cbn. exact Hf.
  - unfold io. destruct (s_closed (sp w) || negb (s_fd_valid (sp w))); exact Hf.
  - destruct (drop_spec w HI) as (_ & _ & _ & _ & _ & -> & _). exact Hf.
Qed.
