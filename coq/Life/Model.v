(** C09 / C10: the lifecycle operations of pexpect.spawn (isalive, wait, kill, terminate, close) on top of the
    operations of ptyprocess they delegate to, over a model of the child process and of waitpid/kill.
    MODELLED, NOT VERIFIED: the child process, signal delivery, waitpid, the wait-status encoding of the OS. *)
From Coq Require Import ZArith List Bool Lia.
Import ListNotations.
Local Open Scope Z_scope.

(** -- wait status (the W* macros of Linux) --------------------------------------------------- *)
Definition WIFEXITED (s : Z) : bool := (s mod 128) =? 0.
Definition WEXITSTATUS (s : Z) : Z := (s / 256) mod 256.
Definition WIFSTOPPED (s : Z) : bool := (s mod 256) =? 127.
Definition WIFSIGNALED (s : Z) : bool := negb ((s mod 128) =? 0) && negb ((s mod 128) =? 127).
Definition WTERMSIG (s : Z) : Z := s mod 128.
Definition status_of_exit (code : Z) : Z := code * 256.
Definition status_of_signal (sig : Z) : Z := sig.

(** -- the child process ------------------------------------------------------------------------- *)
Record child := { alive : bool;            (* running (possibly stopped); false = has terminated *)
                  reaped : bool;           (* its wait status has been collected by waitpid *)
                  fate : Z;                (* wait status once terminated *)
                  ign_hup : bool; ign_int : bool; stopped : bool; pend_hup : bool; pend_int : bool }.

Definition die (c : child) (st : Z) : child :=
  {| alive := false; reaped := reaped c; fate := st; ign_hup := ign_hup c; ign_int := ign_int c;
     stopped := false; pend_hup := false; pend_int := false |}.

Definition SIGHUP := 1. Definition SIGINT := 2. Definition SIGKILL := 9. Definition SIGCONT := 18.

(** delivery of a signal sent with os.kill to a process that has not been reaped *)
Definition deliver (c : child) (sig : Z) : child :=
  if negb (alive c) then c                                   (* a zombie ignores signals *)
  else if sig =? SIGKILL then die c (status_of_signal SIGKILL)
  else if sig =? SIGCONT then
    let c' := {| alive := true; reaped := reaped c; fate := fate c; ign_hup := ign_hup c; ign_int := ign_int c;
                 stopped := false; pend_hup := pend_hup c; pend_int := pend_int c |} in
    if pend_hup c && negb (ign_hup c) then die c' (status_of_signal SIGHUP)
    else if pend_int c && negb (ign_int c) then die c' (status_of_signal SIGINT)
    else c'
  else if sig =? SIGHUP then
    if stopped c then {| alive := true; reaped := reaped c; fate := fate c; ign_hup := ign_hup c; ign_int := ign_int c;
                         stopped := true; pend_hup := true; pend_int := pend_int c |}
    else if ign_hup c then c else die c (status_of_signal SIGHUP)
  else if sig =? SIGINT then
    if stopped c then {| alive := true; reaped := reaped c; fate := fate c; ign_hup := ign_hup c; ign_int := ign_int c;
                         stopped := true; pend_hup := pend_hup c; pend_int := true |}
    else if ign_int c then c else die c (status_of_signal SIGINT)
  else die c (status_of_signal sig).                          (* any other signal: default action terminate *)

(** the child does something by itself *)
(** [EReapedElsewhere]: somebody else collects the dead child's wait status - the kernel itself when the application ignores
    SIGCHLD, another waitpid(-1) in the application, a signal handler: pexpect can then never learn the fate *)
Inductive envev := EExit (code : Z) | ESignalled (sig : Z) | EReapedElsewhere.
Definition env1 (c : child) (e : envev) : child :=
  match e with
  | EReapedElsewhere =>
      if alive c then c
      else {| alive := false; reaped := true; fate := fate c; ign_hup := ign_hup c; ign_int := ign_int c;
              stopped := stopped c; pend_hup := pend_hup c; pend_int := pend_int c |}
  | EExit code => if negb (alive c) then c else die c (status_of_exit code)
  | ESignalled s => if negb (alive c) then c else die c (status_of_signal s)
  end.

(** -- ptyprocess.PtyProcess and pexpect.spawn state ------------------------------------------------ *)
Record pty := { t_terminated : bool; t_status : option Z; t_exit : option Z; t_sig : option Z; t_closed : bool;
                t_fd_open : bool }.
Record spw := { s_terminated : bool; s_status : option Z; s_exit : option Z; s_sig : option Z; s_closed : bool;
                s_fd_valid : bool (* child_fd <> -1 *) }.
Record world := { ch : child; pt : pty; sp : spw; kills : list (Z * bool) (* signals sent, and whether the target was alive *);
                  fd_closes : nat }.

Inductive outc := RBool (b : bool) | RCode (z : option Z) | RNone | RaisePty (why : nat) | RBlocks.

Definition set_pt (w : world) (p : pty) : world := {| ch := ch w; pt := p; sp := sp w; kills := kills w; fd_closes := fd_closes w |}.
Definition set_sp (w : world) (s : spw) : world := {| ch := ch w; pt := pt w; sp := s; kills := kills w; fd_closes := fd_closes w |}.
Definition set_ch (w : world) (c : child) : world := {| ch := c; pt := pt w; sp := sp w; kills := kills w; fd_closes := fd_closes w |}.

(** ptyprocess.isalive: waitpid(WNOHANG) and decoding (the blocking variant after EOF is known finding K1 of C05) *)
Definition pty_isalive (w : world) : outc * world :=
  if t_terminated (pt w) then (RBool false, w)
  else if reaped (ch w) then (RaisePty 1, w)                      (* ECHILD: somebody else reaped our child *)
  else if alive (ch w) then (RBool true, w)
  else
    let st := fate (ch w) in
    let c' := {| alive := false; reaped := true; fate := st; ign_hup := ign_hup (ch w); ign_int := ign_int (ch w);
                 stopped := false; pend_hup := false; pend_int := false |} in
    let p := pt w in
    let p' := if WIFEXITED st then {| t_terminated := true; t_status := Some st; t_exit := Some (WEXITSTATUS st); t_sig := None;
                                      t_closed := t_closed p; t_fd_open := t_fd_open p |}
              else if WIFSIGNALED st then {| t_terminated := true; t_status := Some st; t_exit := None; t_sig := Some (WTERMSIG st);
                                             t_closed := t_closed p; t_fd_open := t_fd_open p |}
              else p in
    (RBool false, set_pt (set_ch w c') p').

Definition copy_fields (w : world) : world :=
  set_sp w {| s_terminated := true; s_status := t_status (pt w); s_exit := t_exit (pt w); s_sig := t_sig (pt w);
              s_closed := s_closed (sp w); s_fd_valid := s_fd_valid (sp w) |}.

(** pexpect.spawn.isalive *)
Definition isalive (w : world) : outc * world :=
  match pty_isalive w with
  | (RBool false, w') => (RBool false, copy_fields w')
  | r => r
  end.

(** pexpect.spawn.kill / ptyprocess.kill: os.kill only after a positive liveness check *)
Definition send_kill (check : world -> outc * world) (w : world) (sig : Z) : outc * world :=
  match check w with
  | (RBool true, w') => (RNone, {| ch := deliver (ch w') sig; pt := pt w'; sp := sp w';
                                   kills := kills w' ++ [(sig, alive (ch w'))]; fd_closes := fd_closes w' |})
  | (RBool false, w') => (RNone, w')
  | r => r
  end.
Definition kill := send_kill isalive.
Definition pty_kill := send_kill pty_isalive.

(** terminate(force): HUP, CONT, INT, then KILL when forced; the sleeps in between are where the kernel makes the
    effect of a signal visible (assumed: a signalled child is a zombie after delayafterterminate) *)
Definition terminate_with (check : world -> outc * world) (w : world) (force : bool) : outc * world :=
  let kill_ := send_kill check in
  let step (sig : Z) (k : world -> outc * world) (w : world) : outc * world :=
    match kill_ w sig with
    | (RNone, w1) => match check w1 with
                     | (RBool false, w2) => (RBool true, w2)
                     | (RBool true, w2) => k w2
                     | r => r
                     end
    | r => r
    end in
  match check w with
  | (RBool false, w0) => (RBool true, w0)
  | (RBool true, w0) =>
      step SIGHUP (step SIGCONT (step SIGINT (fun w3 =>
        if force then step SIGKILL (fun w4 => (RBool false, w4)) w3 else (RBool false, w3)))) w0
  | r => r
  end.
Definition terminate := terminate_with isalive.
Definition pty_terminate := terminate_with pty_isalive.

(** ptyprocess.close(force) *)
Definition pty_close (w : world) (force : bool) : outc * world :=
  if t_closed (pt w) then (RNone, w)
  else
    let p := pt w in
    let w1 := {| ch := ch w; pt := {| t_terminated := t_terminated p; t_status := t_status p; t_exit := t_exit p; t_sig := t_sig p;
                                      t_closed := false; t_fd_open := false |};
                 sp := sp w; kills := kills w; fd_closes := (fd_closes w + (if t_fd_open p then 1 else 0))%nat |} in
    (* closing the master hangs up the terminal: the kernel sends SIGHUP to the child *)
    let w1 := set_ch w1 (deliver (ch w1) SIGHUP) in
    let finish (w2 : world) := (RNone, set_pt w2 {| t_terminated := t_terminated (pt w2); t_status := t_status (pt w2); t_exit := t_exit (pt w2);
                                                     t_sig := t_sig (pt w2); t_closed := true; t_fd_open := false |}) in
    match pty_isalive w1 with
    | (RBool true, w2) => match pty_terminate w2 force with
                          | (RBool true, w3) => finish w3
                          | (RBool false, w3) => (RaisePty 2, w3)          (* Could not terminate the child. *)
                          | r => r
                          end
    | (RBool false, w2) => finish w2
    | r => r
    end.

(** pexpect.spawn.close(force) *)
Definition close (w : world) (force : bool) : outc * world :=
  match pty_close w force with
  | (RNone, w1) =>
      let w1 := set_sp w1 {| s_terminated := s_terminated (sp w1); s_status := s_status (sp w1); s_exit := s_exit (sp w1); s_sig := s_sig (sp w1);
                             s_closed := s_closed (sp w1); s_fd_valid := false |} in
      match isalive w1 with
      | (RBool _, w2) => (RNone, set_sp w2 {| s_terminated := s_terminated (sp w2); s_status := s_status (sp w2); s_exit := s_exit (sp w2);
                                              s_sig := s_sig (sp w2); s_closed := true; s_fd_valid := false |})
      | r => r
      end
  | (r, w1) =>        (* the descriptor is released even when the child could not be terminated *)
      (r, set_sp w1 {| s_terminated := s_terminated (sp w1); s_status := s_status (sp w1); s_exit := s_exit (sp w1); s_sig := s_sig (sp w1);
                       s_closed := s_closed (sp w1); s_fd_valid := false |})
  end.

(** pexpect.spawn.wait: blocks while the child runs *)
Definition wait (w : world) : outc * world :=
  match pty_isalive w with
  | (RBool true, w1) => (RBlocks, w1)
  | (RBool false, w1) => (RCode (t_exit (pt w1)), copy_fields w1)
  | r => r
  end.

(** any read / send / expect on the object: once the object is closed or its descriptor number has been invalidated it fails
    with an error and touches nothing (what it does on an open object is the business of C06-C08, not modelled here) *)
Definition io (w : world) : outc * world :=
  if s_closed (sp w) || negb (s_fd_valid (sp w)) then (RaisePty 3, w) else (RNone, w).

(** dropping the last reference to the object: pexpect.spawn has no finaliser of its own; PtyProcess.__del__ calls its
    close() (force=True) unless already closed, and swallows whatever that raises *)
Definition drop (w : world) : outc * world := (RNone, snd (pty_close w true)).

Inductive lop := OIsalive | OWait | OKill (sig : Z) | OTerminate (force : bool) | OClose (force : bool) | OEnv (e : envev) | OIo | ODrop.
Definition lstep (w : world) (o : lop) : outc * world :=
  match o with
  | OIsalive => isalive w | OWait => wait w | OKill s => kill w s | OTerminate f => terminate w f | OClose f => close w f
  | OEnv e => (RNone, set_ch w (env1 (ch w) e))
  | OIo => io w
  | ODrop => drop w
  end.

Definition world0 (ih ii st : bool) : world :=
  {| ch := {| alive := true; reaped := false; fate := 0; ign_hup := ih; ign_int := ii; stopped := st; pend_hup := false; pend_int := false |};
     pt := {| t_terminated := false; t_status := None; t_exit := None; t_sig := None; t_closed := false; t_fd_open := true |};
     sp := {| s_terminated := false; s_status := None; s_exit := None; s_sig := None; s_closed := false; s_fd_valid := true |};
     kills := []; fd_closes := 0 |}.
