(** C09 in a world where somebody else may reap the child (the kernel when the application ignores SIGCHLD, another waitpid in the
    application): pexpect may then be unable to learn the fate (its liveness checks raise) - but what it REPORTS is still the
    truth: whenever terminated is set, the status fields are the child's real fate, exactly one of them, and they never change.
    The invariant here (Truth) is the part of Inv that survives a foreign reaper; every operation preserves it. *)
From Coq Require Import ZArith List Bool Lia.
Import ListNotations.
From PV Require Import Life.Model Life.Proofs.
Local Open Scope Z_scope.

Definition wf_op' (o : lop) : Prop := match o with OEnv EReapedElsewhere => True | _ => wf_op o end.

Definition Truth (w : world) : Prop :=
  (alive (ch w) = false -> good_status (fate (ch w))) /\
  (t_terminated (pt w) = true -> alive (ch w) = false /\ t_status (pt w) = Some (fate (ch w)) /\
      (t_exit (pt w), t_sig (pt w)) = fields_of (fate (ch w))) /\
  (s_terminated (sp w) = true -> t_terminated (pt w) = true /\ s_status (sp w) = t_status (pt w) /\
      s_exit (sp w) = t_exit (pt w) /\ s_sig (sp w) = t_sig (pt w)).

Lemma truth0 ih ii st : Truth (world0 ih ii st).
Proof. unfold Truth, world0; cbn. repeat split; discriminate. Qed.

(** worlds that agree on the child and on the status fields of both objects *)
Definition same_status (w w' : world) : Prop :=
  ch w' = ch w /\ t_terminated (pt w') = t_terminated (pt w) /\ t_status (pt w') = t_status (pt w) /\ t_exit (pt w') = t_exit (pt w) /\
  t_sig (pt w') = t_sig (pt w) /\ s_terminated (sp w') = s_terminated (sp w) /\ s_status (sp w') = s_status (sp w) /\
  s_exit (sp w') = s_exit (sp w) /\ s_sig (sp w') = s_sig (sp w).

Lemma truth_same w w' : same_status w w' -> Truth w -> Truth w'.
Proof.
  intros (A & B & C & D & E & F & G & H & I) (T1 & T2 & T3). unfold Truth. rewrite A, B, C, D, E, F, G, H, I. auto.
Qed.

(** a change of the child under which a dead child stays dead with the same fate *)
Lemma truth_set_ch w c' : Truth w -> (alive c' = false -> good_status (fate c')) ->
  (alive (ch w) = false -> alive c' = false /\ fate c' = fate (ch w)) -> Truth (set_ch w c').
Proof.
  intros (T1 & T2 & T3) Hg Hd. unfold Truth, set_ch; cbn. split; [exact Hg|]. split; [|exact T3].
  intros Ht. destruct (T2 Ht) as (A & B & C). destruct (Hd A) as [D E]. rewrite E. auto.
Qed.

Lemma deliver_dead c sig : alive c = false -> deliver c sig = c.
Proof. intros H. unfold deliver. now rewrite H. Qed.

Lemma truth_deliver w sig : 1 <= sig < 127 -> Truth w -> Truth (set_ch w (deliver (ch w) sig)).
Proof.
  intros Hs T. pose proof T as (T1 & _). destruct (deliver_spec (ch w) sig Hs T1) as (_ & D2 & D3 & _).
  apply truth_set_ch; auto. intros Ha. rewrite (D3 Ha). auto.
Qed.

Lemma truth_env w e : (match e with EExit x => 0 <= x < 256 | ESignalled s => 1 <= s < 127 | EReapedElsewhere => True end) ->
  Truth w -> Truth (set_ch w (env1 (ch w) e)).
Proof.
  intros He T. pose proof T as (T1 & _). destruct e as [code|sig|].
  - destruct (env1_spec (ch w) (EExit code) He T1) as (_ & E2 & E3). apply truth_set_ch; auto. intros Ha. rewrite (E3 Ha). auto.
  - destruct (env1_spec (ch w) (ESignalled sig) He T1) as (_ & E2 & E3). apply truth_set_ch; auto. intros Ha. rewrite (E3 Ha). auto.
  - apply truth_set_ch; auto; unfold env1; destruct (alive (ch w)) eqn:Ea; cbn; auto; try discriminate; try congruence.
Qed.

(** the one place where a status is decoded *)
Lemma truth_pty_isalive w : Truth w -> Truth (snd (pty_isalive w)) /\
  (forall w', pty_isalive w = (RBool false, w') -> t_terminated (pt w') = true) /\
  (forall w', pty_isalive w = (RBool true, w') -> w' = w) /\
  (forall b w', pty_isalive w = (RBool b, w') -> sp w' = sp w) /\
  (forall n w', pty_isalive w = (RaisePty n, w') -> w' = w).
Proof.
  intros T. pose proof T as (T1 & T2 & T3). unfold pty_isalive.
  destruct (t_terminated (pt w)) eqn:Et.
  { cbn [snd]. split; [exact T|]. repeat split; intros; congruence. }
  destruct (reaped (ch w)) eqn:Er.
  { cbn [snd]. split; [exact T|]. repeat split; intros; congruence. }
  destruct (alive (ch w)) eqn:Ea.
  { cbn [snd]. split; [exact T|]. repeat split; intros; congruence. }
  assert (S3 : s_terminated (sp w) = true -> False) by (intros H; destruct (T3 H); congruence).
  pose proof (good_status_decodes _ (T1 eq_refl)) as [Hx|[Hx Hs]].
  - rewrite Hx. cbn [snd]. split.
    + unfold Truth, set_pt, set_ch; cbn. unfold fields_of. rewrite Hx. repeat split; auto; try (exfalso; apply S3; assumption); try (intros HH; now elim (S3 HH)).
    + repeat split; intros; try discriminate; match goal with HH : (_, _) = (_, _) |- _ => injection HH; intros; subst; reflexivity end.
  - rewrite Hx, Hs. cbn [snd]. split.
    + unfold Truth, set_pt, set_ch; cbn. unfold fields_of. rewrite Hx. repeat split; auto; try (exfalso; apply S3; assumption); try (intros HH; now elim (S3 HH)).
    + repeat split; intros; try discriminate; match goal with HH : (_, _) = (_, _) |- _ => injection HH; intros; subst; reflexivity end.
Qed.

Lemma truth_copy w : Truth w -> t_terminated (pt w) = true -> Truth (copy_fields w).
Proof. intros (T1 & T2 & T3) Ht. unfold Truth, copy_fields, set_sp; cbn. repeat split; auto; apply T2; exact Ht. Qed.

(** a liveness check that keeps the truth *)
Definition keeps (check : world -> outc * world) : Prop := forall w, Truth w -> Truth (snd (check w)).

Lemma keeps_pty : keeps pty_isalive.
Proof. intros w T. apply (truth_pty_isalive w T). Qed.

Lemma keeps_isalive : keeps isalive.
Proof.
  intros w T. unfold isalive. destruct (truth_pty_isalive w T) as (A & B & _). destruct (pty_isalive w) as [[[|]| | | |] w'] eqn:E; cbn [snd] in *; auto.
  apply truth_copy; [exact A | now apply B].
Qed.

Lemma truth_kills w l : Truth w -> Truth {| ch := ch w; pt := pt w; sp := sp w; kills := l; fd_closes := fd_closes w |}.
Proof. apply truth_same. repeat split. Qed.

Lemma keeps_kill check sig : keeps check -> 1 <= sig < 127 -> keeps (fun w => send_kill check w sig).
Proof.
  intros K Hs w T. unfold send_kill. pose proof (K w T) as T'. destruct (check w) as [[[|]| | | |] w']; cbn [snd] in *; auto.
  pose proof (truth_deliver w' sig Hs T') as D.
  revert D. apply truth_same. unfold set_ch; cbn. repeat split.
Qed.

Lemma keeps_terminate check force : keeps check -> keeps (fun w => terminate_with check w force).
Proof.
  intros K w T. unfold terminate_with.
  assert (STEP : forall sig (k : world -> outc * world), 1 <= sig < 127 -> keeps k ->
            keeps (fun v => match send_kill check v sig with
                            | (RNone, w1) => match check w1 with
                                             | (RBool false, w2) => (RBool true, w2)
                                             | (RBool true, w2) => k w2
                                             | r => r
                                             end
                            | r => r
                            end)).
  { intros sig k Hs Hk v Tv. pose proof (keeps_kill check sig K Hs v Tv) as Tk. cbv beta in Tk.
    destruct (send_kill check v sig) as [[[|]| | | |] w1]; cbn [snd] in *; auto.
    pose proof (K w1 Tk) as Tc. destruct (check w1) as [[[|]| | | |] w2]; cbn [snd] in *; auto. }
  pose proof (K w T) as T0. destruct (check w) as [[[|]| | | |] w0]; cbn [snd] in *; auto.
  revert w0 T0. apply STEP; [unfold SIGHUP; lia|]. apply STEP; [unfold SIGCONT; lia|]. apply STEP; [unfold SIGINT; lia|].
  intros v Tv. destruct force; [|exact Tv]. revert v Tv. apply STEP; [unfold SIGKILL; lia|]. intros v Tv; exact Tv.
Qed.

Lemma keeps_pty_close force : keeps (fun w => pty_close w force).
Proof.
  intros w T. unfold pty_close. destruct (t_closed (pt w)); [exact T|]. cbv zeta.
  match goal with |- context[pty_isalive ?W] => set (w2 := W) end.
  assert (T2 : Truth w2).
  { unfold w2. assert (S1 : 1 <= SIGHUP < 127) by (unfold SIGHUP; lia).
    match goal with |- Truth (set_ch ?W _) => assert (TW : Truth W) by (revert T; apply truth_same; repeat split) end.
    exact (truth_deliver _ SIGHUP S1 TW). }
  pose proof (keeps_pty w2 T2) as T3. destruct (pty_isalive w2) as [[[|]| | | |] w3]; cbn [snd] in *; auto.
  pose proof (keeps_terminate pty_isalive force keeps_pty w3 T3) as T4. cbv beta in T4. unfold pty_terminate.
  destruct (terminate_with pty_isalive w3 force) as [[[|]| | | |] w4]; cbn [snd] in *; auto;
    try (revert T4; apply truth_same; unfold set_pt; cbn; repeat split).
Qed.

Lemma truth_sp_flags w c v : Truth w ->
  Truth (set_sp w {| s_terminated := s_terminated (sp w); s_status := s_status (sp w); s_exit := s_exit (sp w); s_sig := s_sig (sp w);
                     s_closed := c; s_fd_valid := v |}).
Proof. apply truth_same. unfold set_sp; cbn. repeat split. Qed.

Lemma keeps_close force : keeps (fun w => close w force).
Proof.
  intros w T. unfold close. pose proof (keeps_pty_close force w T) as T1. cbv beta in T1.
  destruct (pty_close w force) as [r w1]. cbn [snd] in T1.
  destruct r as [b|z| |n|]; cbn [snd]; try (apply truth_sp_flags; exact T1).
  match goal with |- context[isalive ?W] => set (w2 := W) end.
  assert (T2 : Truth w2) by (unfold w2; apply truth_sp_flags; exact T1).
  pose proof (keeps_isalive w2 T2) as T3. destruct (isalive w2) as [r3 w3]. cbn [snd] in T3.
  destruct r3 as [b|z| |n|]; cbn [snd]; first [exact T3 | apply truth_sp_flags; exact T3].
Qed.

(** every operation, in a world with a foreign reaper, keeps the truth *)
Theorem truth_step w o : Truth w -> wf_op' o -> Truth (snd (lstep w o)).
Proof.
  intros T Hwf. destruct o as [| |sig|force|force|e| |]; cbn [lstep].
  - apply keeps_isalive, T.
  - unfold wait. destruct (truth_pty_isalive w T) as (A & B & _). destruct (pty_isalive w) as [[[|]| | | |] w'] eqn:E; cbn [snd] in *; auto.
    apply truth_copy; [exact A | now apply B].
  - apply (keeps_kill isalive sig keeps_isalive Hwf w T).
  - apply (keeps_terminate isalive force keeps_isalive w T).
  - apply (keeps_close force w T).
  - cbn [snd]. apply truth_env; [|exact T]. destruct e; exact Hwf.
  - unfold io. destruct (_ || _); exact T.
  - unfold drop. cbn [snd]. apply (keeps_pty_close true w T).
Qed.

Theorem truth_all ops : forall w, Truth w -> Forall wf_op' ops -> Truth (fold_left (fun w o => snd (lstep w o)) ops w).
Proof.
  induction ops as [|o ops IH]; intros w T Hwf; cbn [fold_left]; [exact T|].
  inversion Hwf as [|? ? H1 H2]; subst. apply IH; [now apply truth_step | exact H2].
Qed.

(** C09: whatever happened - somebody else reaping the child included - a status that pexpect reports is the child's real fate *)
Theorem no_invented_status ops ih ii st : Forall wf_op' ops ->
  let w := fold_left (fun w o => snd (lstep w o)) ops (world0 ih ii st) in
  s_terminated (sp w) = true ->
  alive (ch w) = false /\ s_status (sp w) = Some (fate (ch w)) /\ (s_exit (sp w), s_sig (sp w)) = fields_of (fate (ch w)) /\
  ((exists c, s_exit (sp w) = Some c /\ s_sig (sp w) = None) \/ (exists g, s_exit (sp w) = None /\ s_sig (sp w) = Some g)).
Proof.
  intros Hwf w Hs. pose proof (truth_all ops (world0 ih ii st) (truth0 ih ii st) Hwf) as (T1 & T2 & T3). fold w in T1, T2, T3.
  destruct (T3 Hs) as (A & B & C & D). destruct (T2 A) as (E & F & G). rewrite B, C, D. repeat split; auto.
  unfold fields_of in G. destruct (WIFEXITED (fate (ch w))); injection G as -> ->; eauto.
Qed.

(** ... and the liveness check of such a child raises instead of answering (non-vacuity of the foreign-reaper world) *)
Example foreign_reaper_raises :
  fst (lstep (fold_left (fun w o => snd (lstep w o)) [OEnv (EExit 3); OEnv EReapedElsewhere] (world0 false false false)) OIsalive) = RaisePty 1%nat.
Proof. vm_compute. reflexivity. Qed.
