(** C10 for the descriptor-based transports: fdpexpect.fdspawn.{close,isalive} and socket_pexpect.SocketSpawn.{close,isalive}
    (fdpexpect.py:76-99, socket_pexpect.py:68-85) over a one-bit model of the OS descriptor. *)
From Coq Require Import List Bool Arith Lia.
Import ListNotations.

Record fdw := { f_valid : bool;        (* child_fd <> -1 *)
                f_closed : bool;       (* the closed attribute *)
                os_open : bool;        (* the OS descriptor / socket is open *)
                f_releases : nat }.    (* how often the object released it (os.close / socket.close that succeeded) *)

Inductive fres := FOk | FBool (b : bool) | FErr.
Inductive fop := FClose | FIsalive | FSend | FExternalClose.      (* the last one: somebody else closes the descriptor *)

(** is_socket: SocketSpawn.isalive asks the socket object (fileno() >= 0: it is -1 once the socket OBJECT is closed, and that
    object is private to the spawn: an external close here means the peer's end, which does not change fileno()) *)
Definition fstep (is_socket : bool) (w : fdw) (o : fop) : fres * fdw :=
  match o with
  | FClose =>
      if negb (f_valid w) then (FOk, w)
      else if os_open w then (FOk, {| f_valid := false; f_closed := true; os_open := false; f_releases := S (f_releases w) |})
      else (FErr, w)                                        (* closed elsewhere: OSError, documented *)
  | FIsalive => (FBool (if is_socket then os_open w else f_valid w && os_open w), w)
  | FSend => if f_valid w && os_open w then (FOk, w) else (FErr, w)
  | FExternalClose => if is_socket then (FOk, w) else (FOk, {| f_valid := f_valid w; f_closed := f_closed w; os_open := false; f_releases := f_releases w |})
  end.

Definition fd0 : fdw := {| f_valid := true; f_closed := false; os_open := true; f_releases := 0 |}.
Definition frun (is_socket : bool) (ops : list fop) (w : fdw) : fdw := fold_left (fun w o => snd (fstep is_socket w o)) ops w.

Definition FInv (w : fdw) : Prop :=
  (f_closed w = true <-> f_valid w = false) /\ (f_closed w = true -> os_open w = false) /\
  f_releases w = (if f_closed w then 1 else 0).

Lemma fd0_inv : FInv fd0.
Proof. unfold FInv, fd0; cbn. repeat split; intros; try discriminate; auto. Qed.

Lemma fstep_inv s w o : FInv w -> FInv (snd (fstep s w o)).
Proof.
  intros HI. pose proof HI as (I1 & I2 & I3). destruct o; cbn [fstep].
  - destruct (f_valid w) eqn:Ev; cbn [negb snd]; [|exact HI].
    destruct (os_open w) eqn:Eo; cbn [snd]; [|exact HI].
    assert (Hc : f_closed w = false) by (destruct (f_closed w) eqn:E; [pose proof (proj1 I1 eq_refl); congruence | reflexivity]).
    unfold FInv; cbn. rewrite Hc in I3. rewrite I3. repeat split; auto.
  - exact HI.
  - destruct (f_valid w && os_open w); exact HI.
  - destruct s; cbn [snd]; [exact HI|]. unfold FInv; cbn. repeat split; try apply I1; auto.
Qed.

Theorem frun_inv s ops : forall w, FInv w -> FInv (frun s ops w).
Proof. unfold frun. induction ops as [|o ops IH]; intros w HI; cbn [fold_left]; [exact HI | apply IH, fstep_inv, HI]. Qed.

(** the descriptor is released at most once whatever is called; a successful close is final: closing again does nothing,
    the object reports not alive, sending fails *)
Theorem fd_released_once s ops w : FInv w -> f_releases (frun s ops w) <= 1.
Proof. intros HI. destruct (frun_inv s ops w HI) as (_ & _ & I3). rewrite I3. destruct (f_closed _); lia. Qed.

Theorem fd_closed_is_final s w : FInv w -> f_closed w = true ->
  fstep s w FClose = (FOk, w) /\ fst (fstep s w FIsalive) = FBool false /\ fstep s w FSend = (FErr, w).
Proof.
  intros (I1 & I2 & _) Hc. pose proof (proj1 I1 Hc) as Hv. pose proof (I2 Hc) as Ho. cbn [fstep]. rewrite Hv, Ho. cbn.
  destruct s; auto.
Qed.

Theorem fd_close_closes s w : FInv w -> f_valid w = true -> os_open w = true ->
  let '(r, w') := fstep s w FClose in r = FOk /\ f_closed w' = true /\ f_valid w' = false /\ os_open w' = false.
Proof. intros _ Hv Ho. cbn [fstep]. rewrite Hv, Ho. cbn. auto. Qed.
