(** C16: model of pexpect.replwrap.REPLWrapper (replwrap.py:33-109) and of repl_run_command_async
    (_async_w_await.py:45-60), on top of the Expecter model.

    The REPL child is a state machine: a line goes in, an output and one of the two prompts come out; an interrupt
    makes it drop what it was reading and print the primary prompt.  How the output is cut into reads is arbitrary. *)
From Coq Require Import ZArith NArith List Bool Arith.
Import ListNotations.
From PV Require Import Base.PySeq Expect.Model Async.Model.

(** -- command.splitlines() (+ [''] when the command ends with a newline), replwrap.py:84-88 ---------------- *)
Definition is_sep (c : N) : bool :=
  (N.eqb c 10 || N.eqb c 11 || N.eqb c 12 || N.eqb c 13 || N.eqb c 28 || N.eqb c 29 || N.eqb c 30 || N.eqb c 133
   || N.eqb c 8232 || N.eqb c 8233)%bool.

(** str.splitlines(): \r\n counts once; a final piece is listed only if it is not empty *)
Fixpoint splitlines_aux (t cur : text) : list text :=
  match t with
  | [] => match cur with [] => [] | _ => [cur] end
  | c :: r =>
      if N.eqb c 13 then
        match r with
        | c2 :: r' => if N.eqb c2 10 then cur :: splitlines_aux r' [] else cur :: splitlines_aux r []
        | [] => cur :: splitlines_aux r []
        end
      else if is_sep c then cur :: splitlines_aux r []
      else splitlines_aux r (cur ++ [c])
  end.
Definition splitlines (t : text) : list text := splitlines_aux t [].

Fixpoint ends_nl (t : text) : bool :=
  match t with
  | [] => false
  | c :: r => match r with [] => N.eqb c 10 | _ => ends_nl r end
  end.

Definition cmdlines (command : text) : list text :=
  splitlines command ++ (if ends_nl command then [[]] else []).

(** replwrap.py:40-42: a child that echoes is told not to, and the wrapper waits until the terminal agrees, before anything
    is read: the calls made on the child (0 = setecho(False), 1 = waitnoecho()) *)
Definition ctor_echo_calls (echo : bool) : list nat := if echo then [0; 1] else [].

(** -- the wrapper ---------------------------------------------------------------------------------------- *)
Section Repl.
  Variable rstate : Type.
  (** one line in: new state, output, and whether the REPL is ready for a new command (primary prompt) *)
  Variable rstep : rstate -> text -> rstate * text * bool.
  (** SIGINT: new state and what is printed before the primary prompt *)
  Variable rint : rstate -> rstate * text.
  Variables prompt cont : text.

  Definition nosearch (_ : unit) (_ : text) (_ : nat) : option (nat * nat) := None.
  Definition pcfg : cfg unit := {| ckind := KExact; pats := [@PStr unit prompt; @PStr unit cont]; W := None |}.

  (** how one response is cut into reads: sizes (minus one) of the successive pieces; no piece is empty *)
  Fixpoint chunks (cs : list nat) (t : text) : list text :=
    match t with
    | [] => []
    | _ => match cs with
           | [] => [t]
           | n :: r => firstn (S n) t :: chunks r (skipn (S n) t)
           end
    end.

  (** the world: the REPL, the Expecter state of the spawn object, output written by the child and not read yet,
      and (for the theorems) everything the child was sent *)
  Record world := { rq : rstate; es : st; pipe : list text; got : list text; ints : nat }.

  Definition pipe_of (evs : list ev) : list text :=
    flat_map (fun e => match e with Data d => [d] | _ => [] end) evs.

  Definition P (ok : bool) : text := if ok then prompt else cont.

  (** child.sendline(line): the REPL answers; the answer is queued behind what is still unread *)
  Definition send (w : world) (line : text) (cut : list nat) : world :=
    match rstep (rq w) line with
    | (q', out, ok) => {| rq := q'; es := es w; pipe := pipe w ++ chunks cut (out ++ P ok); got := got w ++ [line]; ints := ints w |}
    end.

  (** child.kill(SIGINT) *)
  Definition interrupt (w : world) (cut : list nat) : world :=
    match rint (rq w) with
    | (q', out) => {| rq := q'; es := es w; pipe := pipe w ++ chunks cut (out ++ prompt); got := got w; ints := S (ints w) |}
    end.

  (** _expect_prompt(): expect_exact([prompt, continuation_prompt]); once the pipe is empty nothing more comes
      until the next line is sent, so the call times out.  [async] selects the awaited form. *)
  Definition expect_prompt (async : bool) (w : world) : option (nat * text) * world :=
    let evs := map Data (pipe w) ++ [Timeout] in
    let r := if async then await_call unit nosearch pcfg (es w) evs else expect_loop unit nosearch pcfg false (es w) evs in
    match r with
    | (x, s', evs') =>
        let w' := {| rq := rq w; es := s'; pipe := pipe_of evs'; got := got w; ints := ints w |} in
        match x with
        | Matched i b _ _ => (Some (i, b), w')
        | _ => (None, w')
        end
    end.

  Inductive outcome := Returned (t : text) | Incomplete | Failed | NoCommand.

  (** replwrap.py:96-109: send the lines one by one, wait for a prompt after each, collect [before] *)
  Fixpoint run_lines (async : bool) (w : world) (res : text) (l0 : text) (rest : list text) (cuts : list (list nat))
    : outcome * world :=
    let w1 := send w l0 (hd [] cuts) in
    match expect_prompt async w1 with
    | (None, w2) => (Failed, w2)
    | (Some (i, b), w2) =>
        match rest with
        | l1 :: rest' => run_lines async w2 (res ++ b) l1 rest' (tl cuts)
        | [] =>
            if Nat.eqb i 1 then
              let w3 := interrupt w2 (hd [] (tl cuts)) in
              match expect_prompt async w3 with
              | (None, w4) => (Failed, w4)
              | (Some _, w4) => (Incomplete, w4)
              end
            else (Returned (res ++ b), w2)
        end
    end.

  Definition run_command (async : bool) (w : world) (command : text) (cuts : list (list nat)) : outcome * world :=
    match cmdlines command with
    | [] => (NoCommand, w)
    | l0 :: rest => run_lines async w [] l0 rest cuts
    end.

  (** a session: commands one after the other on the same wrapper *)
  Fixpoint session (w : world) (cmds : list (bool * text * list (list nat))) : list outcome * world :=
    match cmds with
    | [] => ([], w)
    | (async, c, cuts) :: r =>
        match run_command async w c cuts with
        | (o, w') => match session w' r with (os, w'') => (o :: os, w'') end
        end
    end.

  (** -- the constructor (replwrap.py:33-62) with a spawn object, echo already off: expect the original prompt,
      send the prompt-change command, wait for the new prompt, run the extra initialisation command ------------- *)
  Definition ocfg (orig : text) : cfg unit := {| ckind := KExact; pats := [@PStr unit orig]; W := None |}.
  Definition construct (q0 : rstate) (banner orig change : text) (extra : option text) (cuts : list (list nat))
    : option outcome * world :=
    let w0 := {| rq := q0; es := {| pend := []; buf := [] |}; pipe := chunks (hd [] cuts) (banner ++ orig); got := []; ints := 0 |} in
    match expect_loop unit nosearch (ocfg orig) false (es w0) (map Data (pipe w0) ++ [Timeout]) with
    | (Matched _ _ _ _, s', evs') =>
        let w1 := {| rq := q0; es := s'; pipe := pipe_of evs'; got := []; ints := 0 |} in
        let w2 := send w1 change (hd [] (tl cuts)) in
        match expect_prompt false w2 with
        | (Some _, w3) =>
            match extra with
            | Some c => match run_command false w3 c (tl (tl cuts)) with (o, w4) => (Some o, w4) end
            | None => (None, w3)
            end
        | (None, w3) => (Some Failed, w3)
        end
    | (_, s', evs') => (Some Failed, {| rq := q0; es := s'; pipe := pipe_of evs'; got := []; ints := 0 |})
    end.
End Repl.
Arguments rq {_} _.
Arguments es {_} _.
Arguments pipe {_} _.
Arguments got {_} _.
Arguments ints {_} _.
