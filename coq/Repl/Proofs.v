(** C16: what run_command returns, for every REPL whose responses contain a prompt string only as their very end,
    for every way the responses are cut into reads, for every sequence of commands. *)
From Coq Require Import ZArith NArith List Bool Arith Lia.
Import ListNotations.
From PV Require Import Base.PySeq Base.PySeqFacts Expect.Model Expect.Spec Expect.Refine Expect.SpecFacts Async.Model Repl.Model.

(** -- cmdlines: the child is sent the command, line by line ------------------------------------------------ *)
Definition nl_only (t : text) : Prop := forall c, In c t -> is_sep c = true -> c = 10%N.

Lemma ends_nl_cons c t : t <> [] -> ends_nl (c :: t) = ends_nl t.
Proof. destruct t; [congruence | reflexivity]. Qed.

Lemma ends_nl_app_nl t : ends_nl (t ++ [10%N]) = true.
Proof. induction t as [|c t IH]; [reflexivity|]. cbn [app]. rewrite ends_nl_cons; [exact IH | now destruct t]. Qed.

Lemma is_sep_13 : is_sep 13 = true. Proof. reflexivity. Qed.

Definition with_nl (ls : list text) : text := flat_map (fun l => l ++ [10%N]) ls.

Lemma splitlines_aux_nl : forall t cur, nl_only t ->
  with_nl (splitlines_aux t cur) =
    if ends_nl t then cur ++ t else match cur ++ t with [] => [] | x => x ++ [10%N] end.
Proof.
  induction t as [|c t IH]; intros cur Hnl.
  - cbn [splitlines_aux ends_nl]. rewrite app_nil_r. destruct cur; [reflexivity|]. cbn [with_nl flat_map]. now rewrite app_nil_r.
  - assert (Hnl' : nl_only t) by (intros x Hx; apply Hnl; now right).
    assert (Hc : is_sep c = true -> c = 10%N) by (apply Hnl; now left).
    cbn [splitlines_aux]. destruct (N.eqb c 13) eqn:E13.
    { apply N.eqb_eq in E13. subst c. specialize (Hc is_sep_13). discriminate. }
    destruct (is_sep c) eqn:Es.
    + specialize (Hc eq_refl). subst c. cbn [with_nl flat_map]. fold (with_nl (splitlines_aux t [])).
      rewrite (IH [] Hnl'). cbn [app]. destruct t as [|c2 t'].
      * cbn. now rewrite !app_nil_r.
      * rewrite (ends_nl_cons 10%N (c2 :: t')) by discriminate. destruct (ends_nl (c2 :: t')).
        -- now rewrite <- app_assoc.
        -- cbn [app]. rewrite <- app_assoc. cbn [app].
           destruct cur; cbn [app]; [reflexivity|]. now rewrite <- app_assoc.
    + rewrite (IH (cur ++ [c]) Hnl'). rewrite <- !app_assoc. cbn [app].
      destruct t as [|c2 t'].
      * cbn [ends_nl]. destruct (N.eqb c 10) eqn:E10.
        -- apply N.eqb_eq in E10. subst c. discriminate.
        -- reflexivity.
      * rewrite (ends_nl_cons c (c2 :: t')) by discriminate. reflexivity.
Qed.

Theorem cmdlines_sends_the_command (command : text) : command <> [] -> nl_only command ->
  with_nl (cmdlines command) = command ++ [10%N].
Proof.
  intros Hne Hnl. unfold cmdlines, splitlines.
  assert (A : forall a b, with_nl (a ++ b) = with_nl a ++ with_nl b) by (intros; apply flat_map_app). rewrite A.
  rewrite (splitlines_aux_nl command [] Hnl). cbn [app]. destruct (ends_nl command).
  - cbn. reflexivity.
  - destruct command; [congruence|]. cbn. now rewrite app_nil_r.
Qed.

Theorem cmdlines_empty : cmdlines [] = [].
Proof. reflexivity. Qed.

Section Proofs.
  Variable rstate : Type.
  Variable rstep : rstate -> text -> rstate * text * bool.
  Variable rint : rstate -> rstate * text.
  Variables prompt cont : text.
  Hypothesis prompt_ne : prompt <> [].
  Hypothesis cont_ne : cont <> [].

  Notation P := (P prompt cont).
  Notation pcfg := (pcfg prompt cont).
  Notation world := (world rstate).
  Notation nsearch := (nsearch unit nosearch).
  Notation run_lines := (run_lines rstate rstep rint prompt cont).
  Notation run_command := (run_command rstate rstep rint prompt cont).
  Notation expect_prompt := (expect_prompt rstate prompt cont).
  Notation send := (send rstate rstep prompt cont).
  Notation interrupt := (interrupt rstate rint prompt).
  Notation session := (session rstate rstep rint prompt cont).

  (** a response is well-formed when the only place a prompt string occurs in it is the prompt that ends it *)
  Definition only_end (out : text) (ok : bool) : Prop :=
    forall (j : bool) k, occb (P j) (out ++ P ok) k = true -> k = length out /\ j = ok.

  Definition idx (ok : bool) : nat := if ok then 0 else 1.

  Lemma P_ne ok : P ok <> [].
  Proof. destruct ok; assumption. Qed.

  Lemma occ_self out ok : occb (P ok) (out ++ P ok) (length out) = true.
  Proof.
    unfold occb. rewrite app_length. replace (length out <=? length out + length (P ok)) with true
      by (symmetry; apply Nat.leb_le; lia).
    rewrite skipn_app, skipn_all, Nat.sub_diag. cbn [skipn app andb].
    rewrite <- (app_nil_r (P ok)) at 2. apply prefixb_app.
  Qed.

  Lemma nsearch_two (w : text) :
    nsearch pcfg w = best [(0, occ_full unit nosearch pcfg w (@PStr unit prompt)); (1, occ_full unit nosearch pcfg w (@PStr unit cont))] None.
  Proof. reflexivity. Qed.

  Lemma occ_none (w s : text) : (forall k, occb s w k = false) -> occ_full unit nosearch pcfg w (@PStr unit s) = None.
  Proof.
    intros H. unfold occ_full. cbn [ckind pcfg Model.pcfg]. destruct (find_from s w 0 0) as [n|] eqn:E; [|reflexivity].
    apply find0_some in E as (_ & E & _). now rewrite H in E.
  Qed.

  Lemma occ_at (w s : text) n : occb s w n = true -> (forall k, occb s w k = true -> k = n) ->
    occ_full unit nosearch pcfg w (@PStr unit s) = Some (n, n + length s).
  Proof.
    intros H1 H2. unfold occ_full. cbn [ckind pcfg Model.pcfg]. destruct (find_from s w 0 0) as [m|] eqn:E.
    - apply find0_some in E as (_ & E & _). now rewrite (H2 m E).
    - pose proof (find0_none _ _ _ E n (Nat.le_0_l n)) as F. now rewrite F in H1.
  Qed.

  (** a sufficient condition that is easy to check on a REPL: both prompts start with a character [f] that occurs nowhere
      else in them and never in the output, they have the same length and are different *)
  Lemma skipn_hits_f (f : N) : forall (a b : text) k r, ~ In f a -> ~ In f b -> skipn k (a ++ f :: b) = f :: r -> k = length a.
  Proof.
    induction a as [|x a IH]; intros b k r Ha Hb Hs.
    - cbn [app length] in *. destruct k as [|k]; [reflexivity|]. cbn [skipn] in Hs. exfalso. apply Hb.
      rewrite <- (firstn_skipn k b), Hs. apply in_or_app. right. now left.
    - destruct k as [|k].
      + cbn in Hs. injection Hs as -> _. exfalso. apply Ha. now left.
      + cbn [app skipn length] in *. f_equal. apply (IH b k r); auto. intros H. apply Ha. now right.
  Qed.

  Lemma only_end_first_char (f : N) (p' c' : text) : prompt = f :: p' -> cont = f :: c' -> ~ In f p' -> ~ In f c' ->
    length p' = length c' -> prompt <> cont -> forall out ok, ~ In f out -> only_end out ok.
  Proof.
    intros Ep Ec Hp' Hc' Hl Hd out ok Ho j k Hk.
    assert (Pj : exists tj, P j = f :: tj /\ length tj = length p') by (destruct j; cbn [Model.P]; [exists p' | exists c']; auto).
    assert (Pok : exists tk, P ok = f :: tk /\ ~ In f tk /\ length tk = length p') by (destruct ok; cbn [Model.P]; [exists p' | exists c']; auto).
    destruct Pj as (tj & Ej & Lj). destruct Pok as (tk & Ek & Hk' & Lk).
    unfold occb in Hk. apply andb_prop in Hk as [_ Hk]. apply prefixb_spec in Hk as [r Hr].
    rewrite Ej, Ek in Hr. cbn [app] in Hr.
    pose proof (skipn_hits_f f out tk k _ Ho Hk' Hr) as ->. split; [reflexivity|].
    rewrite skipn_app, skipn_all, Nat.sub_diag in Hr. cbn [skipn app] in Hr. injection Hr as Hr.
    assert (r = []).
    { assert (L : length tk = length (tj ++ r)) by now rewrite Hr. rewrite app_length in L. destruct r; [reflexivity|]. cbn [length] in L. lia. }
    subst r. rewrite app_nil_r in Hr. subst tk.
    destruct j, ok; try reflexivity; cbn [Model.P] in Ej, Ek; exfalso; apply Hd; congruence.
  Qed.

  (** nothing is found in a proper prefix of a well-formed response *)
  Lemma prefix_none out ok w d : only_end out ok -> out ++ P ok = w ++ d -> d <> [] -> nsearch pcfg w = None.
  Proof.
    intros H Hw Hd. rewrite nsearch_two.
    assert (G : forall j k, occb (P j) w k = false).
    { intros j k. destruct (occb (P j) w k) eqn:E; [|reflexivity]. exfalso.
      pose proof (occb_bound _ _ _ E) as B.
      assert (E' : occb (P j) (out ++ P ok) k = true) by (rewrite Hw, occb_inside; assumption).
      destruct (H j k E') as [-> ->].
      assert (L : length (out ++ P ok) = length (w ++ d)) by now rewrite Hw.
      rewrite !app_length in L. destruct d; [congruence|]. cbn [length] in L. lia. }
    rewrite (occ_none w prompt (G true)), (occ_none w cont (G false)). reflexivity.
  Qed.

  Lemma full_some out ok : only_end out ok ->
    nsearch pcfg (out ++ P ok) = Some (idx ok, length out, length out + length (P ok)).
  Proof.
    intros H. rewrite nsearch_two. destruct ok.
    - rewrite (occ_at _ prompt (length out) (occ_self out true)) by (intros k Hk; now destruct (H true k Hk)).
      rewrite (occ_none _ cont) by (intros k; destruct (occb cont (out ++ P true) k) eqn:E; [destruct (H false k E); discriminate | reflexivity]).
      reflexivity.
    - rewrite (occ_none _ prompt) by (intros k; destruct (occb prompt (out ++ P false) k) eqn:E; [destruct (H true k E); discriminate | reflexivity]).
      rewrite (occ_at _ cont (length out) (occ_self out false)) by (intros k Hk; now destruct (H false k Hk)).
      reflexivity.
  Qed.

  Lemma hit_full out ok : hit (out ++ P ok) (out ++ P ok) (idx ok, length out, length out + length (P ok))
    = (Matched (idx ok) out (P ok) (length out, length out + length (P ok)), []).
  Proof.
    unfold hit. rewrite Nat.sub_diag. cbn [Nat.add]. rewrite firstn_app, firstn_all, Nat.sub_diag. cbn [firstn]. rewrite app_nil_r.
    rewrite skipn_app, skipn_all, Nat.sub_diag. cbn [skipn app].
    replace (length out + length (P ok) - length out) with (length (P ok)) by lia. rewrite firstn_all.
    rewrite <- app_length. rewrite skipn_all. reflexivity.
  Qed.

  (** the reference procedure reads a well-formed response to its end, however it is cut *)
  Lemma nloop_chunks out ok : only_end out ok -> forall cs p t, t <> [] -> p ++ t = out ++ P ok ->
    nloop unit nosearch pcfg false p (map Data (chunks cs t) ++ [Timeout]) =
      (Matched (idx ok) out (P ok) (length out, length out + length (P ok)), [], [Timeout]).
  Proof.
    intros H. induction cs as [|n cs IH]; intros p t Ht Hp.
    - destruct t as [|c t]; [congruence|]. cbn [chunks map app nloop]. cbn [W pcfg Model.pcfg lastW]. rewrite Hp.
      rewrite (full_some out ok H), hit_full. reflexivity.
    - destruct t as [|c t]; [congruence|]. cbn [chunks]. destruct (skipn (S n) (c :: t)) as [|c2 t2] eqn:Es.
      + assert (F : firstn (S n) (c :: t) = c :: t).
        { rewrite <- (firstn_skipn (S n) (c :: t)) at 2. rewrite Es. now rewrite app_nil_r. }
        rewrite F. replace (chunks cs []) with (@nil text) by (now destruct cs). cbn [chunks map app nloop]. cbn [W pcfg Model.pcfg lastW]. rewrite Hp.
        rewrite (full_some out ok H), hit_full. reflexivity.
      + cbn [map app nloop]. cbn [W pcfg Model.pcfg lastW].
        assert (Hsplit : out ++ P ok = (p ++ firstn (S n) (c :: t)) ++ (c2 :: t2)).
        { rewrite <- Hp, <- app_assoc. f_equal. rewrite <- Es. symmetry. apply firstn_skipn. }
        rewrite (prefix_none out ok _ _ H Hsplit) by discriminate.
        apply IH; [discriminate | now rewrite Hsplit].
  Qed.

  Lemma ncall_chunks out ok cut : only_end out ok ->
    ncall unit nosearch pcfg false [] (map Data (chunks cut (out ++ P ok)) ++ [Timeout]) =
      (Matched (idx ok) out (P ok) (length out, length out + length (P ok)), [], [Timeout]).
  Proof.
    intros H. unfold ncall. cbn [W pcfg Model.pcfg lastW].
    assert (Hne : out ++ P ok <> []) by (intros E; apply app_eq_nil in E as [_ E]; now apply (P_ne ok)).
    rewrite (prefix_none out ok [] (out ++ P ok) H eq_refl Hne).
    now apply nloop_chunks.
  Qed.

  (** -- the wrapper is "synchronised": nothing pending in the spawn object, nothing unread in the pipe ---------- *)
  Definition sync (w : world) : Prop := pend (es w) = [] /\ Inv (es w) /\ pipe w = [].

  Lemma wf_pcfg : wfW unit pcfg.
  Proof. exact I. Qed.

  Lemma expect_prompt_sync async (w : world) out ok cut :
    pend (es w) = [] -> Inv (es w) -> pipe w = chunks cut (out ++ P ok) -> only_end out ok ->
    exists w', expect_prompt async w = (Some (idx ok, out), w') /\ sync w' /\ rq w' = rq w /\ got w' = got w /\ ints w' = ints w.
  Proof.
    intros Hp HI Hpipe H. unfold Model.expect_prompt.
    assert (Ha : (if async then await_call unit nosearch pcfg (es w) (map Data (pipe w) ++ [Timeout])
                  else expect_loop unit nosearch pcfg false (es w) (map Data (pipe w) ++ [Timeout]))
                 = expect_loop unit nosearch pcfg false (es w) (map Data (pipe w) ++ [Timeout])) by (destruct async; reflexivity).
    rewrite Ha. clear Ha.
    pose proof (expect_refines unit nosearch pcfg false (es w) (map Data (pipe w) ++ [Timeout]) wf_pcfg HI) as R.
    rewrite Hp, Hpipe, (ncall_chunks out ok cut H) in R. rewrite Hpipe.
    destruct (expect_loop unit nosearch pcfg false (es w) (map Data (chunks cut (out ++ P ok)) ++ [Timeout])) as [[r s'] e'].
    destruct R as (R1 & _ & R3 & R4 & R5). subst e'.
    destruct r as [i b a sp|? ?|? ?|?]; try discriminate. cbn [strip] in R1. injection R1 as -> -> ->.
    eexists. split; [reflexivity|]. cbn [rq es pipe got ints pipe_of flat_map]. repeat split; auto.
  Qed.

  (** -- what a command is expected to do, computed on the REPL alone --------------------------------------- *)
  Fixpoint spec_lines (q : rstate) (l0 : text) (rest : list text) : rstate * text * bool :=
    match rstep q l0 with
    | (q', out, ok) =>
        match rest with
        | [] => (q', out, ok)
        | l1 :: r => match spec_lines q' l1 r with (q'', outs, ok') => (q'', out ++ outs, ok') end
        end
    end.

  Definition spec_command (q : rstate) (command : text) : outcome * rstate :=
    match cmdlines command with
    | [] => (NoCommand, q)
    | l0 :: rest => match spec_lines q l0 rest with
                    | (q', outs, true) => (Returned outs, q')
                    | (q', _, false) => (Incomplete, fst (rint q'))
                    end
    end.

  Fixpoint spec_session (q : rstate) (cmds : list (bool * text * list (list nat))) : list outcome * rstate :=
    match cmds with
    | [] => ([], q)
    | (_, c, _) :: r => match spec_command q c with (o, q') => match spec_session q' r with (os, q'') => (o :: os, q'') end end
    end.

  (** the REPL is well-behaved: every response, and what it prints when interrupted, is well-formed *)
  Hypothesis step_ok : forall q l, match rstep q l with (_, out, ok) => only_end out ok end.
  Hypothesis int_ok : forall q, only_end (snd (rint q)) true.

  Lemma run_lines_exact async : forall rest (w : world) res l0 cuts, sync w ->
    exists w', run_lines async w res l0 rest cuts =
                 (match spec_lines (rq w) l0 rest with (_, outs, true) => Returned (res ++ outs) | (_, _, false) => Incomplete end, w')
               /\ sync w'
               /\ rq w' = (match spec_lines (rq w) l0 rest with (q', _, true) => q' | (q', _, false) => fst (rint q') end)
               /\ got w' = got w ++ l0 :: rest
               /\ ints w' = ints w + (match spec_lines (rq w) l0 rest with (_, _, true) => 0 | _ => 1 end).
  Proof.
    induction rest as [|l1 rest IH]; intros w res l0 cuts (Hp & HI & Hpipe).
    - cbn [Model.run_lines spec_lines]. pose proof (step_ok (rq w) l0) as Hok.
      unfold Model.send. destruct (rstep (rq w) l0) as [[q' out] ok] eqn:Er.
      match goal with |- context [expect_prompt async ?W1] => set (w1 := W1) end.
      destruct (expect_prompt_sync async w1 out ok (hd [] cuts)) as (w2 & E2 & S2 & Q2 & G2 & I2); auto.
      { unfold w1. cbn [pipe]. now rewrite Hpipe. }
      rewrite E2. destruct ok; cbn [idx Nat.eqb].
      + exists w2. repeat split; try apply S2; auto. rewrite I2. unfold w1. cbn [ints]. lia.
      + pose proof (int_ok (rq w2)) as Hio. unfold Model.interrupt.
        destruct (rint (rq w2)) as [q3 out3] eqn:Ei. cbn [snd] in Hio.
        match goal with |- context [expect_prompt async ?W3] => set (w3 := W3) end.
        destruct S2 as (S2a & S2b & S2c).
        destruct (expect_prompt_sync async w3 out3 true (hd [] (tl cuts))) as (w4 & E4 & S4 & Q4 & G4 & I4); auto.
        { unfold w3. cbn [pipe]. now rewrite S2c. }
        rewrite E4. exists w4. split; [reflexivity|]. split; [exact S4|].
        split; [rewrite Q4; unfold w3; cbn [rq]; rewrite Q2 in Ei; unfold w1 in Ei; cbn [rq] in Ei; now rewrite Ei|].
        split; [rewrite G4; unfold w3; cbn [got]; rewrite G2; reflexivity|].
        rewrite I4. unfold w3. cbn [ints]. rewrite I2. unfold w1. cbn [ints]. lia.
    - cbn [Model.run_lines spec_lines]. pose proof (step_ok (rq w) l0) as Hok.
      unfold Model.send. destruct (rstep (rq w) l0) as [[q' out] ok] eqn:Er.
      match goal with |- context [expect_prompt async ?W1] => set (w1 := W1) end.
      destruct (expect_prompt_sync async w1 out ok (hd [] cuts)) as (w2 & E2 & S2 & Q2 & G2 & I2); auto.
      { unfold w1. cbn [pipe]. now rewrite Hpipe. }
      rewrite E2. destruct (IH w2 (res ++ out) l1 (tl cuts) S2) as (w' & E' & S' & Q' & G' & I').
      assert (Hq : rq w2 = q') by (rewrite Q2; reflexivity). rewrite Hq in *.
      exists w'. rewrite E'. destruct (spec_lines q' l1 rest) as [[q'' outs] ok'].
      split; [destruct ok'; [now rewrite <- app_assoc | reflexivity]|].
      split; [exact S'|]. split; [exact Q'|].
      split; [rewrite G', G2; unfold w1; cbn [got]; now rewrite <- app_assoc|].
      rewrite I', I2. reflexivity.
  Qed.

  (** one command: the value returned is exactly the output of its lines; the wrapper is synchronised again *)
  Theorem run_command_exact async (w : world) command cuts : sync w ->
    exists w', run_command async w command cuts = (fst (spec_command (rq w) command), w')
               /\ sync w' /\ rq w' = snd (spec_command (rq w) command)
               /\ got w' = got w ++ cmdlines command.
  Proof.
    intros S. unfold Model.run_command, spec_command. destruct (cmdlines command) as [|l0 rest].
    - exists w. rewrite app_nil_r. repeat split; auto; apply S.
    - destruct (run_lines_exact async rest w [] l0 cuts S) as (w' & E & S' & Q & G & _).
      exists w'. rewrite E. destruct (spec_lines (rq w) l0 rest) as [[q' outs] [|]]; cbn [fst snd app]; repeat split; auto; apply S'.
  Qed.

  (** every command of every session returns its own output, whatever came before *)
  Theorem session_exact : forall cmds (w : world), sync w ->
    exists w', session w cmds = (fst (spec_session (rq w) cmds), w') /\ sync w' /\ rq w' = snd (spec_session (rq w) cmds).
  Proof.
    induction cmds as [|[[async c] cuts] cmds IH]; intros w S.
    - exists w. cbn. auto.
    - cbn [Model.session spec_session].
      destruct (run_command_exact async w c cuts S) as (w1 & E1 & S1 & Q1 & _). rewrite E1.
      destruct (spec_command (rq w) c) as [o q1]. cbn [fst snd] in *.
      destruct (IH w1 S1) as (w2 & E2 & S2 & Q2). rewrite E2. rewrite Q1 in *.
      destruct (spec_session q1 cmds) as [os q2]. cbn [fst snd] in *. exists w2. auto.
  Qed.

  (** the awaited form is the same function of the same events *)
  Theorem awaited_same : forall rest (w : world) res l0 cuts,
    run_lines true w res l0 rest cuts = run_lines false w res l0 rest cuts.
  Proof.
    assert (E : forall w, expect_prompt true w = expect_prompt false w) by reflexivity.
    induction rest as [|l1 rest IH]; intros w res l0 cuts; cbn [Model.run_lines]; rewrite !E.
    - reflexivity.
    - destruct (expect_prompt false (send w l0 (hd [] cuts))) as [[[i b]|] w2]; [apply IH | reflexivity].
  Qed.
End Proofs.
