(** C16 correspondence: a concrete family of REPLs with known output (mirrored in harness/props/C16.py and in the real
    child harness/fake_repl.py), and the observation of a whole wrapper session. *)
From Coq Require Import ZArith NArith List Bool Arith.
Import ListNotations.
From PV Require Import Base.V Base.PySeq Expect.Model Repl.Model.

Definition crlf : text := [13; 10]%N.
(** REPL state: open blocks and the output held back until the block is closed *)
Definition mstate := (nat * text)%type.

Definition line_output (prompt cont : text) (l : text) : text :=
  match l with
  | [] => []
  | c :: payload =>
      if N.eqb c 101 then payload ++ crlf                              (* e<text>: echo with newline *)
      else if N.eqb c 110 then payload                                 (* n<text>: no final newline *)
      else if N.eqb c 98 then flat_map (fun x => repeat x 40) payload ++ crlf   (* b<text>: large output *)
      else if N.eqb c 112 then [115; 101; 101; 32]%N ++ prompt ++ [33]%N ++ crlf     (* p: prints the prompt string itself *)
      else if N.eqb c 113 then [115; 101; 101; 32]%N ++ cont ++ [33]%N ++ crlf       (* q: prints the continuation prompt *)
      else if N.eqb c 115 then l ++ crlf                               (* s<text>: prints the command line itself *)
      else [63]%N ++ l ++ crlf
  end.

Definition mstep (prompt cont : text) (q : mstate) (l : text) : mstate * text * bool :=
  match q with (depth, acc) =>
    match l with
    | [40%N] => ((S depth, acc), [], false)
    | [41%N] => match depth with
                | 0 => ((0, []), [63; 41]%N ++ crlf, true)
                | 1 => ((0, []), acc, true)
                | S d => ((d, acc), [], false)
                end
    | _ => match depth with
           | 0 => ((0, []), line_output prompt cont l, true)
           | _ => ((depth, acc ++ line_output prompt cont l), [], false)
           end
    end
  end.
Definition mint (q : mstate) : mstate * text := ((0, []), [94; 67; 13; 10]%N).

Definition voutcome (o : outcome) : V :=
  match o with
  | Returned t => VL [VI 0; vtext t]
  | Incomplete => VL [VI 1]
  | Failed => VL [VI 2]
  | NoCommand => VL [VI 3]
  end.

Definition vworld (w : world mstate) : V :=
  VL [vtext (pend (es w)); vtext (buf (es w)); vnat (length (pipe w)); vnat (length (got w)); vnat (ints w)].

Fixpoint run_cmds (prompt cont : text) (w : world mstate) (cmds : list (bool * text * list (list nat))) : list V :=
  match cmds with
  | [] => [vlist vtext (got w)]
  | (async, c, cuts) :: r =>
      match run_command mstate (mstep prompt cont) mint prompt cont async w c cuts with
      | (o, w') => VL [voutcome o; vworld w'] :: run_cmds prompt cont w' r
      end
  end.

(** a case: prompts, banner, original prompt, prompt-change line, optional extra initialisation command, the cuts
    of the constructor's exchanges, and the commands *)
Definition run_repl (c : text * text * text * text * text * option text * list (list nat) * list (bool * text * list (list nat))) : V :=
  match c with (prompt, cont, banner, orig, change, extra, ccuts, cmds) =>
    match construct mstate (mstep prompt cont) mint prompt cont (0, []) banner orig change extra ccuts with
    | (o, w) => VL (VL [vopt voutcome o; vworld w] ::
                    match o with
                    | None | Some (Returned _) => run_cmds prompt cont w cmds
                    | _ => []
                    end)
    end
  end.

Definition run_cmdlines (c : text) : V := vlist vtext (cmdlines c).

(** the observation the harness makes: the constructor's result is visible only as success or the exception *)
Definition run_repl_obs (c : bool * text * text * text * text * text * option text * list (list nat) * list (bool * text * list (list nat))) : V :=
  match c with (echo, prompt, cont, banner, orig, change, extra, ccuts, cmds) =>
    match construct mstate (mstep prompt cont) mint prompt cont (0, []) banner orig change extra ccuts with
    | (o, w) => match o with
                | None | Some (Returned _) => VL (VL [VI 0; vworld w; vlist vnat (ctor_echo_calls echo)] :: run_cmds prompt cont w cmds)
                | Some o' => VL [VL [VI 1; voutcome o'; vworld w; vlist vnat (ctor_echo_calls echo)]]
                end
    end
  end.
