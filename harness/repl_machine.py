"""The REPL family of coq/Repl/Run.v (mstep / mint), in Python: used by the simulated child of harness/props/C16.py and by the
real child process harness/fake_repl.py.  Text is str; newlines in output are '\\r\\n' (what a pty delivers)."""

CRLF = '\r\n'


def line_output(prompt, cont, l):
    if l == '':
        return ''
    c, payload = l[0], l[1:]
    if c == 'e':
        return payload + CRLF
    if c == 'n':
        return payload
    if c == 'b':
        return ''.join(x * 40 for x in payload) + CRLF
    if c == 'p':
        return 'see ' + prompt + '!' + CRLF
    if c == 'q':
        return 'see ' + cont + '!' + CRLF
    if c == 's':
        return l + CRLF                             # s<text>: the output is the command line itself (what an echo would look like)
    if c == 'w':
        return ''                                   # w: a slow line without output (the real child sleeps before answering)
    if c == 'r' and ',' in payload and payload.split(',', 1)[0].isdigit():      # r<count>,<text>: only in the real child (not in the Coq family)
        n, t = payload.split(',', 1)
        return t * int(n) + CRLF
    return '?' + l + CRLF


class Machine:
    def __init__(self, prompt, cont):
        self.prompt, self.cont = prompt, cont
        self.depth, self.acc = 0, ''

    def step(self, l):
        """-> (output, ready for a new command?)"""
        if l == '(':
            self.depth += 1
            return '', False
        if l == ')':
            if self.depth == 0:
                self.acc = ''
                return '?)' + CRLF, True
            if self.depth == 1:
                out, self.depth, self.acc = self.acc, 0, ''
                return out, True
            self.depth -= 1
            return '', False
        if self.depth == 0:
            self.acc = ''
            return line_output(self.prompt, self.cont, l), True
        self.acc += line_output(self.prompt, self.cont, l)
        return '', False

    def interrupt(self):
        self.depth, self.acc = 0, ''
        return '^C' + CRLF


def py_cmdlines(command):
    """replwrap.py:84-88, as the property reads it: the lines of the command"""
    lines = command.splitlines()
    if command.endswith('\n'):
        lines.append('')
    return lines


def spec_command(m, command):
    """what run_command must return for [command] on machine m (which is advanced): ('ret', text) | ('incomplete',) | ('nocommand',)"""
    lines = py_cmdlines(command)
    if not lines:
        return ('nocommand',)
    outs, ok = [], True
    for l in lines:
        o, ok = m.step(l)
        outs.append(o)
    if ok:
        return ('ret', ''.join(outs))
    m.interrupt()
    return ('incomplete',)
