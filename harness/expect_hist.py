"""Scripted-transport harness for the Expecter (properties C01-C04, also used by C14/C20).

A case = (mode, initial script of transport events, list of operations).  The REAL expect /
expect_exact / expect_list / buffer setter run on a SpawnBase subclass whose read_nonblocking
pops the next scripted event.  Everything observable is recorded after every operation and
(1) compared with the Coq model's output (correspondence), (2) judged by direct property oracles.
"""
import itertools
import re

from .common import ctext, clist, cnat, copt, cbool, opt

# ---------------------------------------------------------------------------------------------
# regex ASTs (python tuples)  ->  re source / Coq term
# ---------------------------------------------------------------------------------------------
def rx_src(r, enc):
    """render the AST as Python regex source (str); enc() converts to the mode's string type"""
    k = r[0]
    if k == 'eps':
        return ''
    if k == 'chr':
        return re.escape(r[1])
    if k == 'any':
        return '.'
    if k == 'cls':
        body = ''.join(re.escape(c) for c in r[2])
        return '[' + ('^' if r[1] else '') + body + ']'
    if k == 'seq':
        return rx_src(r[1], enc) + rx_src(r[2], enc)
    if k == 'alt':
        return '(?:' + rx_src(r[1], enc) + '|' + rx_src(r[2], enc) + ')'
    if k == 'star':
        return '(?:' + rx_src(r[1], enc) + ')*'
    if k == 'bol':
        return '^'
    if k == 'eol':
        return '$'
    if k == 'eos':
        return r'\Z'
    raise ValueError(k)


def rx_coq(r):
    k = r[0]
    if k == 'eps':
        return 'Eps'
    if k == 'chr':
        return '(Chr %d%%N)' % ord(r[1])
    if k == 'any':
        return 'Any'
    if k == 'cls':
        return '(Cls %s %s)' % (cbool(r[1]), ctext(r[2]))
    if k in ('seq', 'alt'):
        return '(%s %s %s)' % ('Seq' if k == 'seq' else 'Alt', rx_coq(r[1]), rx_coq(r[2]))
    if k == 'star':
        return '(Star %s)' % rx_coq(r[1])
    return {'bol': 'Bol', 'eol': 'Eol', 'eos': 'Eos'}[k]


def lit(s):
    r = ('eps',)
    for c in reversed(s):
        r = ('seq', ('chr', c), r)
    return r


def gen_rx(rng, stream, alpha, depth=0):
    """structured regexes: mostly built around substrings of the stream so that they occur"""
    x = rng.random()
    if depth > 2 or x < 0.35:
        if stream and rng.random() < 0.8:
            i = rng.randrange(len(stream))
            j = min(len(stream), i + rng.randint(1, 3))
            return lit(stream[i:j])
        return lit(''.join(rng.choice(alpha) for _ in range(rng.randint(1, 3))))
    if x < 0.45:
        return ('cls', rng.random() < 0.3, ''.join(sorted(set(rng.choice(alpha) for _ in range(rng.randint(1, 2))))))
    if x < 0.52:
        return ('any',)
    if x < 0.62:
        a = rng.choice([('chr', rng.choice(alpha)), ('any',), ('cls', False, rng.choice(alpha))])
        return ('star', a)
    if x < 0.72:
        return ('alt', gen_rx(rng, stream, alpha, depth + 1), gen_rx(rng, stream, alpha, depth + 1))
    if x < 0.80:
        return ('seq', gen_rx(rng, stream, alpha, depth + 1), rng.choice([('eol',), ('eos',)]))
    if x < 0.84:
        return rng.choice([('eol',), ('eos',), ('bol',), ('eps',)])
    if x < 0.88:
        return ('seq', ('bol',), gen_rx(rng, stream, alpha, depth + 1))
    return ('seq', gen_rx(rng, stream, alpha, depth + 1), gen_rx(rng, stream, alpha, depth + 1))


# ---------------------------------------------------------------------------------------------
# cases
# ---------------------------------------------------------------------------------------------
def chunkings(s):
    """all ways to cut s into non-empty consecutive pieces"""
    n = len(s)
    if n == 0:
        yield []
        return
    for mask in range(1 << (n - 1)):
        out, cur = [], s[0]
        for i in range(1, n):
            if mask >> (i - 1) & 1:
                out.append(cur)
                cur = s[i]
            else:
                cur += s[i]
        out.append(cur)
        yield out


def gen_case(rng, unicode_mode=None, maxlen=10):
    alpha = rng.choice(['ab', 'ab', 'ab\n', 'abc'])
    if unicode_mode is None:
        unicode_mode = rng.random() < 0.3
    if unicode_mode and rng.random() < 0.5:
        alpha += 'é'
    n = rng.randint(0, maxlen)
    stream = ''.join(rng.choice(alpha) for _ in range(n))
    # chunking
    script = []
    i = 0
    while i < n:
        k = rng.choice([1, 1, 2, 2, 3, 4, 6])
        script.append(stream[i:i + k])
        i += k
    # sprinkle other events
    out = []
    for ch in script:
        r = rng.random()
        if r < 0.12:
            out.append('T')
        elif r < 0.16:
            out.append('')
        elif r < 0.19:
            out.append('E')
        elif r < 0.20:
            out.append('X')
        out.append(ch)
    r = rng.random()
    if r < 0.35:
        out.append('T')
    elif r < 0.5:
        out += ['T', 'T']
    if rng.random() < 0.25:
        # late reads: the read returns its data only after the deadline of the call has passed (slow log file, descheduling)
        out = [LATE + e if e not in ('T', 'E', 'X') and rng.random() < 0.4 else e for e in out]
    script = out
    ops = []
    for _ in range(rng.randint(1, 4)):
        if rng.random() < 0.08:
            ops.append(('setbuf', ''.join(rng.choice(alpha) for _ in range(rng.randint(0, 4)))))
            continue
        kind = 'exact' if rng.random() < 0.55 else 're'
        pats = []
        if len(stream) >= 3 and rng.random() < 0.2:
            # nested occurrences: a pattern listed first whose match lies strictly inside the match of one listed later
            # (the later one starts earlier and ends later, and must win)
            i0 = rng.randrange(len(stream) - 2)
            l0 = rng.randint(i0 + 3, min(len(stream), i0 + 6))
            j0 = rng.randint(i0 + 1, l0 - 2)
            k0 = rng.randint(j0 + 1, l0 - 1)
            inner, outer = stream[j0:k0], stream[i0:l0]
            pats = [('s', inner), ('s', outer)] if kind == 'exact' else [('r', lit(inner)), ('r', lit(outer))]
        for _ in range(rng.choice([1, 1, 2, 2, 3]) if not pats else rng.choice([0, 0, 1])):
            if kind == 'exact':
                x = rng.random()
                if stream and x < 0.7:
                    i = rng.randrange(len(stream))
                    j = min(len(stream), i + rng.randint(1, 4))
                    pats.append(('s', stream[i:j]))
                elif x < 0.95:
                    pats.append(('s', ''.join(rng.choice(alpha) for _ in range(rng.randint(1, 4)))))
                else:
                    pats.append(('s', ''))
            else:
                pats.append(('r', gen_rx(rng, stream, alpha)))
        for marker in ('EOF', 'TIMEOUT'):
            x = rng.random()
            if x < 0.4:
                pats.insert(rng.randint(0, len(pats)), marker)
            if x < 0.04:
                pats.insert(rng.randint(0, len(pats)), marker)
        # the window of a call: an explicit size, an explicit None (= search everything, whatever the object's own setting),
        # or -1 = not given (the searchwindowsize attribute of the spawn object decides)
        w = rng.choice([None, None, None, 1, 2, 3, 5, 20, -1, -1, -1])
        ops.append(('call', kind, pats, w, rng.random() < 0.15))
    return {'unicode': unicode_mode, 'script': script, 'ops': ops, 'init': None,
            'sw': rng.choice([None, None, 1, 2, 3, 5]),          # the spawn object's own searchwindowsize
            # regex calls made through expect() with the pattern SOURCES (compiled by pexpect: DOTALL, plus IGNORECASE when the
            # object's ignorecase is set - which changes nothing on this lower-case alphabet, and must change nothing else)
            'via_expect': rng.random() < 0.3, 'ignorecase': rng.random() < 0.5,
            'reuse_list': rng.random() < 0.4}                    # the caller reuses ONE list object, edited in place between calls


def small_cases(maxlen, windows=(None, 1, 2, 3, 7)):
    """exhaustive small scope: every stream over {a,b} up to maxlen x every chunking x a fixed
    family of pattern lists x windows x (call, call-after-timeout) histories"""
    exact_sets = [[('s', 'a')], [('s', 'ab')], [('s', 'ab'), ('s', 'b')], [('s', 'ba'), ('s', 'bab'), 'EOF'],
                  ['TIMEOUT', ('s', 'aa')], [('s', 'abb'), 'TIMEOUT', 'EOF'], [('s', 'bb'), ('s', 'b')], [('s', 'aab')]]
    re_sets = [[('r', lit('ab'))], [('r', ('seq', ('chr', 'a'), ('star', ('chr', 'b'))))],
               [('r', ('seq', ('chr', 'b'), ('eol',)))], [('r', ('alt', lit('ba'), lit('ab'))), 'EOF'],
               [('r', ('eol',))], ['TIMEOUT', ('r', ('seq', ('any',), lit('b')))], [('r', ('star', ('chr', 'a')))],
               [('r', lit('aa')), ('r', lit('a')), 'EOF', 'TIMEOUT'], [('r', ('seq', lit('b'), ('eos',)))],
               [('r', ('seq', ('cls', True, 'a'), ('chr', 'a')))]]
    for n in range(0, maxlen + 1):
        for tup in itertools.product('ab', repeat=n):
            s = ''.join(tup)
            for ch in chunkings(s):
                for w in windows:
                    for kind, sets in (('exact', exact_sets), ('re', re_sets)):
                        for ps in sets:
                            # two-call history: second call sees what the first left (after TIMEOUT / match)
                            yield {'unicode': False, 'script': list(ch[:1]) + ['T'] + list(ch[1:]) + ['T'], 'init': None,
                                   'ops': [('call', kind, ps, w, False), ('call', kind, ps, w, False),
                                           ('call', kind, ps, None if w else 2, False)]}


LAST_SEARCHER = [None]
LATE = '\x00L'            # prefix of a scripted read that returns its data after the call's deadline has passed


def is_late(e):
    return isinstance(e, (str, bytes)) and e[:2] in (LATE, LATE.encode())


class Clock:
    """the clock Expecter.expect_loop reads (pexpect.expect.time): real time plus what the late reads of the script took"""
    import time as _t
    offset = 0.0

    @staticmethod
    def time():
        return Clock._t.time() + Clock.offset

    @staticmethod
    def sleep(x):
        Clock._t.sleep(x)


def eff_w(case, w):
    """the search window in force for a call (documented rule: -1/not given = the attribute of the spawn object)"""
    return case.get('sw') if w == -1 else w


def install_recorder(pexpect):
    """expect_exact builds its searcher from the module global; record the instance so that the
    span of an exact match (kept on the searcher, not on the spawn object) can be observed"""
    import pexpect.spawnbase as sb
    import pexpect.expect as ex
    ex.time = Clock
    if getattr(sb.searcher_string, '_verif_recorder', False):
        return

    class Rec(ex.searcher_string):
        _verif_recorder = True

        def search(self, *a, **k):
            LAST_SEARCHER[0] = self
            return ex.searcher_string.search(self, *a, **k)
    sb.searcher_string = Rec


def make_spawn(pexpect, unicode_mode, script):
    from pexpect.spawnbase import SpawnBase

    class Scripted(SpawnBase):
        def __init__(self, script, **kw):
            SpawnBase.__init__(self, **kw)
            self.script = list(script)
            self.consumed = []
            self.delayafterread = None

        def read_nonblocking(self, size=1, timeout=None):
            if not self.script:
                raise pexpect.EOF('script exhausted')
            ev = self.script.pop(0)
            if ev == 'T':
                raise pexpect.TIMEOUT('scripted')
            if ev == 'E':
                raise pexpect.EOF('scripted')
            if ev == 'X':
                raise OSError(5, 'scripted error')
            if is_late(ev):
                ev = ev[2:]
                Clock.offset += 1000.0
            self.consumed.append(ev)
            return ev

        def __str__(self):
            return '<scripted>'

    enc = (lambda s: s) if unicode_mode else (lambda s: s.encode('latin-1'))
    sp = Scripted([e if e in ('T', 'E', 'X') else enc(e) for e in script],
                  encoding='latin-1' if unicode_mode else None, timeout=30)
    return sp, enc


def run_real(pexpect, case):
    """run the case on the real code; returns list of per-op observations (dicts)"""
    install_recorder(pexpect)
    sp, enc = make_spawn(pexpect, case['unicode'], case['script'])
    if case.get('init'):
        pend, buf = case['init']
        sp._before = sp.buffer_type()
        sp._before.write(enc(pend))
        sp._buffer = sp.buffer_type()
        sp._buffer.write(enc(buf))
    if case.get('sw') is not None:
        sp.searchwindowsize = case['sw']
    if case.get('via_expect') and case.get('ignorecase'):
        sp.ignorecase = True
    shared = {'exact': [], 're': []}
    obs = []
    for op in case['ops']:
        if op[0] == 'setbuf':
            sp.buffer = enc(op[1])
            obs.append({'op': 'setbuf', 'res': None, 'pend': sp._before.getvalue(), 'buf': sp._buffer.getvalue(),
                        'left': len(sp.script), 'buffer_attr': sp.buffer})
            continue
        _, kind, pats, w, t0 = op
        plist = []
        for p in pats:
            if p == 'EOF':
                plist.append(pexpect.EOF)
            elif p == 'TIMEOUT':
                plist.append(pexpect.TIMEOUT)
            elif p[0] == 's':
                plist.append(enc(p[1]))
            elif case.get('via_expect'):
                plist.append(enc(rx_src(p[1], enc)))
            else:
                plist.append(re.compile(enc(rx_src(p[1], enc)), re.DOTALL))
        timeout = 0 if t0 else 30
        if case.get('reuse_list'):
            shared[kind][:] = plist
            plist = shared[kind]
        o = {'op': 'call'}
        kw = {} if w == -1 else {'searchwindowsize': w}
        try:
            if kind == 'exact':
                idx = sp.expect_exact(plist, timeout=timeout, **kw)
            elif case.get('via_expect'):
                idx = sp.expect(plist, timeout=timeout, **kw)
            else:
                idx = sp.expect_list(plist, timeout=timeout, **kw)
            o['ret'] = idx
        except pexpect.EOF:
            o['exc'] = 'EOF'
        except pexpect.TIMEOUT:
            o['exc'] = 'TIMEOUT'
        except OSError as e:
            o['exc'] = 'OSError'
        except Exception as e:                      # anything else: recorded, never hidden
            o['exc'] = 'Other:' + type(e).__name__
        o.update(before=sp.before, after=sp.after, match=sp.match, match_index=sp.match_index,
                 pend=sp._before.getvalue(), buf=sp._buffer.getvalue(), left=len(sp.script), buffer_attr=sp.buffer)
        # canonical result, shaped like Expect/Run.v enc_res
        after = sp.after
        if 'ret' in o and after is pexpect.EOF:
            o['res'] = [1, opt(o['ret']), sp.before]
        elif 'ret' in o and after is pexpect.TIMEOUT:
            o['res'] = [2, opt(o['ret']), sp.before]
        elif 'ret' in o:
            if kind == 're':
                span = list(sp.match.span())
            else:
                # searcher_string keeps start/end on the searcher object (recorded by make_spawn's subclass)
                span = [LAST_SEARCHER[0].start, LAST_SEARCHER[0].end]
            o['res'] = [0, o['ret'], sp.before, sp.after, span[0], span[1]]
        elif o['exc'] == 'EOF':
            o['res'] = [1, [], sp.before]
        elif o['exc'] == 'TIMEOUT':
            o['res'] = [2, [], sp.before]
        elif o['exc'] == 'OSError':
            o['res'] = [3, sp.before]
        else:
            o['res'] = [9, o['exc']]
        obs.append(o)
    return obs, sp


def coq_entry(p):
    if p == 'EOF':
        return 'PEof'
    if p == 'TIMEOUT':
        return 'PTimeout'
    if p[0] == 's':
        return '(PStr %s)' % ctext(p[1])
    return '(PRe %s)' % rx_coq(p[1])


def coq_case(case, exp=None):
    """exp: the reference history of the case (needed only when the script has late reads: a late read after which the call goes
    on is, for the model, the data followed by the expiry of the time)"""
    fates = [f for e in (exp or []) for f in e.get('late', [])]
    ops = []
    for op in case['ops']:
        if op[0] == 'setbuf':
            ops.append('(SetBuffer %s, false)' % ctext(op[1]))
        else:
            _, kind, pats, w, t0 = op
            ops.append('(Call {| ckind := %s; pats := %s; W := %s |} %s)' % (
                'KExact' if kind == 'exact' else 'KRe', clist([coq_entry(p) for p in pats]), copt(None if w == -1 else w, cnat), cbool(t0)))
            ops[-1] = '(%s, %s)' % (ops[-1], cbool(w == -1))
    evs = []
    for e in case['script']:
        if is_late(e):
            evs.append('(Data %s)' % ctext(e[2:]))
            if fates and fates.pop(0):
                evs.append('Timeout')
            continue
        evs.append({'T': 'Timeout', 'E': 'Eof', 'X': 'Err'}.get(e) if e in ('T', 'E', 'X') else '(Data %s)' % ctext(e))
    init = case.get('init') or ('', '')
    return '(%s, %s, %s, {| pend := %s; buf := %s |})' % (copt(case.get('sw'), cnat), clist(ops), clist(evs), ctext(init[0]), ctext(init[1]))


def expected_V(case, obs, exp=None):
    """observations in the shape of Expect/Run.v run_hist.  The exact searcher does not expose its span
    on the spawn object; it is reconstructed as (len(window)-len(after)-len(rest), ...) is not observable,
    so for exact matches the model's span is compared through before/after/pend only (span slot = model's)."""
    out = []
    # the model counts what is left of ITS event list, in which a late read after which the call went on is two events
    fates = [f for e in (exp or []) for f in e.get('late', [])]
    extra = []
    for e in case['script']:
        extra.append(1 if is_late(e) and fates and fates.pop(0) else 0) if is_late(e) else extra.append(0)

    def left(n):
        return n + sum(extra[len(extra) - n:]) if n else 0
    for o in obs:
        if o['op'] == 'setbuf':
            out.append([[], o['pend'], o['buf'], left(o['left'])])
        else:
            out.append([[o['res']], o['pend'], o['buf'], left(o['left'])])
    return out


# ---------------------------------------------------------------------------------------------
# direct property oracles on the real code (reference semantics written from the property text)
# ---------------------------------------------------------------------------------------------
def py_occurrences(pexpect, kind, p, enc, window):
    """(start, end) of the leftmost occurrence of pattern p in window, by the definition: scan all starts"""
    if kind == 'exact':
        s = enc(p[1])
        i = window.find(s)
        return None if i < 0 else (i, i + len(s))
    r = re.compile(enc(rx_src(p[1], enc)), re.DOTALL)
    for i in range(len(window) + 1):
        m = r.match(window, i)
        if m:
            return (i, m.end())
    return None


def reference_history(pexpect, case):
    """the naive procedure of C03 + the outcome rules of C04 + conservation bookkeeping of C01,
    evaluated independently of the implementation.  Returns per-op expectations."""
    enc = (lambda s: s) if case['unicode'] else (lambda s: s.encode('latin-1'))
    empty = enc('')
    script = [e if e in ('T', 'E', 'X') else enc(e) for e in case['script']]
    pending = enc(case['init'][0]) if case.get('init') else empty
    exp = []
    for op in case['ops']:
        if op[0] == 'setbuf':
            pending = enc(op[1])
            exp.append({'op': 'setbuf', 'pending': pending, 'left': len(script)})
            continue
        _, kind, pats, w, t0 = op
        w = eff_w(case, w)
        eof_i = max([i for i, p in enumerate(pats) if p == 'EOF'], default=None)
        to_i = max([i for i, p in enumerate(pats) if p == 'TIMEOUT'], default=None)
        reads = 0
        late = []              # per late read of this call: does the call go on after it (and so run out of time)?
        expired = False
        while True:
            window = pending if not w else pending[-w:]
            best = None
            for i, p in enumerate(pats):
                if p in ('EOF', 'TIMEOUT'):
                    continue
                oc = py_occurrences(pexpect, kind, p, enc, window)
                if oc is not None and (best is None or oc[0] < best[1]):
                    best = (i, oc[0], oc[1])
            if best is not None:
                i, a, b = best
                off = len(pending) - len(window)
                e = {'op': 'call', 'out': 'match', 'idx': i, 'before': pending[:off + a], 'after': pending[off + a:off + b],
                     'pending': pending[off + b:], 'window': window, 'span': (a, b)}
                pending = pending[off + b:]
                if expired:
                    late[-1] = False
                break
            if expired and not t0:
                e = {'op': 'call', 'out': 'TIMEOUT', 'idx': to_i, 'before': pending, 'pending': pending}
                break
            if t0 and reads >= 1:
                e = {'op': 'call', 'out': 'TIMEOUT', 'idx': to_i, 'before': pending, 'pending': pending}
                break
            ev = script.pop(0) if script else 'E'
            if ev == 'T':
                e = {'op': 'call', 'out': 'TIMEOUT', 'idx': to_i, 'before': pending, 'pending': pending}
                break
            if ev == 'E':
                e = {'op': 'call', 'out': 'EOF', 'idx': eof_i, 'before': pending, 'pending': empty}
                pending = empty
                break
            if ev == 'X':
                e = {'op': 'call', 'out': 'ERR', 'before': pending, 'pending': pending}
                break
            if is_late(ev):
                ev = ev[2:]
                expired = True
                late.append(not t0)
            pending = pending + ev
            reads += 1
        e['left'] = len(script)
        e['late'] = late
        exp.append(e)
    return exp


def judge(pexpect, case, obs, exp, which):
    """compare real observations with the reference, per property. Returns None or (key, message)."""
    EOF, TIMEOUT = pexpect.EOF, pexpect.TIMEOUT
    for k, (o, e) in enumerate(zip(obs, exp)):
        if o['op'] == 'setbuf':
            if which == 'C01' and o['buffer_attr'] != e['pending']:
                return ('C01/setbuf', 'op %d: buffer attribute after assignment is %r, expected %r' % (k, o['buffer_attr'], e['pending']))
            continue
        out = e['out']
        # what the real call reported
        if 'ret' in o and o['after'] is EOF:
            got = 'EOF'
        elif 'ret' in o and o['after'] is TIMEOUT:
            got = 'TIMEOUT'
        elif 'ret' in o:
            got = 'match'
        else:
            got = {'EOF': 'EOF', 'TIMEOUT': 'TIMEOUT', 'OSError': 'ERR'}.get(o['exc'], o['exc'])
        if which == 'C01':
            # conservation: handed-back text followed by pending text == everything received.
            # Evaluated against the reference bookkeeping only when the outcome kind agrees (C03/C04 judge the rest)
            if got == 'match' and out == 'match' and o['ret'] == e['idx'] and o['left'] == e['left']:
                if o['before'] + o['after'] + o['buffer_attr'] != e['before'] + e['after'] + e['pending']:
                    return ('C01/conservation', 'op %d: before+after+buffer = %r but the text pending before the call (plus reads) was %r'
                            % (k, o['before'] + o['after'] + o['buffer_attr'], e['before'] + e['after'] + e['pending']))
            if got == 'TIMEOUT' and out == 'TIMEOUT' and o['left'] == e['left']:
                if o['before'] != e['before']:
                    return ('C01/timeout-consumes-nothing', 'op %d: before after TIMEOUT = %r, pending text was %r' % (k, o['before'], e['before']))
            if got == 'EOF' and out == 'EOF' and o['left'] == e['left']:
                if o['before'] != e['before'] or o['buffer_attr'] != e['pending']:
                    return ('C01/eof-before', 'op %d: before at EOF = %r, pending text was %r' % (k, o['before'], e['before']))
        elif which == 'C02':
            if got == 'match':
                # genuine: pattern idx really matches `after` where before ends, within the text that was searched
                kind, pats, w = case['ops'][k][1], case['ops'][k][2], eff_w(case, case['ops'][k][3])
                enc = (lambda s: s) if case['unicode'] else (lambda s: s.encode('latin-1'))
                full = o['before'] + o['after'] + o['buffer_attr']
                if o['match_index'] != o['ret']:
                    return ('C02/match_index', 'op %d: match_index %r != returned index %r' % (k, o['match_index'], o['ret']))
                if o['ret'] >= len(pats) or pats[o['ret']] in ('EOF', 'TIMEOUT'):
                    return ('C02/index', 'op %d: returned index %r is not a text pattern' % (k, o['ret']))
                window = full if not w else None
                if out == 'match' and o['left'] == e['left'] and full == e['before'] + e['after'] + e['pending']:
                    window = e['window']
                    off = len(full) - len(e['pending']) - e['span'][1]
                    a = len(o['before']) - off
                    oc = py_occurrences(pexpect, kind, pats[o['ret']], enc, window[a:]) if a >= 0 else None
                    # pattern idx matches at position a of the searched window with the reported text
                    if kind == 'exact':
                        ok = a >= 0 and window[a:a + len(o['after'])] == o['after'] == enc(pats[o['ret']][1])
                        if ok and o['match'] != o['after']:
                            return ('C02/match-attr', 'op %d: match attribute %r is not the matched literal %r' % (k, o['match'], o['after']))
                    else:
                        r = re.compile(enc(rx_src(pats[o['ret']][1], enc)), re.DOTALL)
                        mm = r.match(window, a) if a >= 0 else None
                        ok = mm is not None and mm.group(0) == o['after']
                        if ok and (o['match'].span() != (a, a + len(o['after'])) or o['match'].group(0) != o['after']
                                   or o['match'].groups() != mm.groups()):
                            return ('C02/match-attr', 'op %d: match attribute span %r/groups do not describe the reported occurrence at %d' % (k, o['match'].span(), a))
                    if not ok:
                        return ('C02/genuine', 'op %d: pattern %d does not match %r at the position where before ends' % (k, o['ret'], o['after']))
                    # leftmost over all listed patterns; lowest index on ties
                    for i, p in enumerate(pats):
                        if p in ('EOF', 'TIMEOUT'):
                            continue
                        oc = py_occurrences(pexpect, kind, p, enc, window)
                        if oc and (oc[0] < a or (oc[0] == a and i < o['ret'])):
                            return ('C02/leftmost', 'op %d: reported pattern %d at %d but pattern %d occurs at %d in the searched text %r'
                                    % (k, o['ret'], a, i, oc[0], window))
        elif which == 'C03':
            if got != out and 'ERR' not in (got, out) and not got.startswith('Other'):
                if got == 'match' or out == 'match':
                    return ('C03/outcome', 'op %d: implementation reported %s, naive re-search reports %s (pending+reads=%r)'
                            % (k, got, out, e.get('before')))
            if got == 'match' and out == 'match':
                if o['left'] != e['left']:
                    return ('C03/late', 'op %d: match reported after %d more reads than the naive procedure needs' % (k, e['left'] - o['left']))
                if (o['ret'], o['before'], o['after']) != (e['idx'], e['before'], e['after']):
                    return ('C03/differs', 'op %d: (index, before, after) = %r, naive procedure gives %r'
                            % (k, (o['ret'], o['before'], o['after']), (e['idx'], e['before'], e['after'])))
        elif which == 'C04':
            if out in ('EOF', 'TIMEOUT'):
                cls = EOF if out == 'EOF' else TIMEOUT
                if got == 'match':
                    continue                                     # C03's business
                if got != out:
                    return ('C04/class', 'op %d: expected %s outcome, implementation gave %s' % (k, out, got))
                if e['idx'] is not None:
                    if o.get('ret') != e['idx']:
                        return ('C04/index', 'op %d: %s is listed at %r but the call %s' % (k, out, e['idx'], 'returned %r' % o['ret'] if 'ret' in o else 'raised ' + o['exc']))
                    if o['match'] is not cls or o['match_index'] != e['idx']:
                        return ('C04/attrs', 'op %d: match/match_index not the %s marker' % (k, out))
                else:
                    if o.get('exc') != out:
                        return ('C04/raise', 'op %d: %s not listed: expected that exception, got %r' % (k, out, o.get('exc', 'return %r' % o.get('ret'))))
                    if o['match'] is not None or o['match_index'] is not None:
                        return ('C04/attrs', 'op %d: match/match_index not None after raised %s' % (k, out))
                if o['before'] != e['before'] or o['after'] is not cls:
                    return ('C04/before-after', 'op %d: before=%r after=%r, expected all pending text %r and the %s class' % (k, o['before'], o['after'], e['before'], out))
                if out == 'EOF' and o['buffer_attr'] != e['pending']:
                    return ('C04/eof-clears', 'op %d: pending text after EOF is %r' % (k, o['buffer_attr']))
            elif out == 'match' and got in ('EOF', 'TIMEOUT') and o['left'] >= e['left']:
                return ('C04/match-wins', 'op %d: an occurrence was present in the searchable pending text but the call reported %s' % (k, got))
            elif out == 'ERR':
                if got != 'ERR' or o['before'] != e['before'] or o['after'] is not None or o['match'] is not None:
                    return ('C04/errored', 'op %d: transport error must be re-raised unchanged with before=pending, after=match=None' % k)
        # once implementation and reference diverge in state, later ops are not comparable
        if got != out or o['left'] != e['left'] or (got == 'match' and o['buffer_attr'] != e['pending']):
            return None
    return None
