"""setup: regenerate every K-gen file from /repo (best effort: a failing translator is reported by the check itself) and refresh the Makefile"""
import os
import sys
import traceback
from . import common

sys.path.insert(0, os.path.join(common.VERIF, 'gen'))
GENS = []


def register():
    import split_translate
    GENS.append(('Gen/SplitCmd.v', lambda: split_translate.generate(common.REPO)))
    import ansi_table
    GENS.append(('Gen/AnsiTable.v', lambda: ansi_table.generate(common.REPO)))


def main():
    common.preflight()
    register()
    for rel, prod in GENS:
        path = os.path.join(common.COQ, rel)
        try:
            text = prod()
        except Exception:
            traceback.print_exc()
            continue
        if not os.path.exists(path) or open(path).read() != text:
            os.makedirs(os.path.dirname(path), exist_ok=True)
            open(path, 'w').write(text)
            print('regenerated', rel)
    common.refresh_makefile()


if __name__ == '__main__':
    main()
