"""expect() end to end over the simulated kernel endpoint (harness/transport_sim.py): the REAL expect-family calls on the REAL
read_nonblocking of the pty / fd / socket transports, the system calls answered by the scripted endpoint, the peer's writes,
exit and hang-up placed between any two system calls by a schedule.  Direct oracles written from the property texts:
  C04  an EOF outcome is reported only when the stream has ended (nothing left in the kernel, peer gone), as the index of the
       listed EOF marker or else as the EOF exception, with before = ALL pending text and after = EOF; a TIMEOUT outcome
       likewise with before = all pending text, nothing consumed; EOF is final (later calls: EOF again, nothing more)
  C01  everything handed back (before+after of the successful calls, before at EOF) followed by what is pending and what the
       kernel still holds is exactly what the peer wrote."""
import os

from . import common
from .common import clist, cnat, cbool, ctext
from . import transport_sim as T


def run(ctx, pexpect, which_prop, n, max_model=2000):
    rng = ctx.rng
    tried = 0
    outcomes = {'match': 0, 'EOF': 0, 'TIMEOUT': 0}
    nhit = 0
    cases = []
    for it in range(n):
        which = rng.choice([0, 0, 1, 2])
        buf0 = bytes(rng.choice(b'ab') for _ in range(rng.choice([0, 0, 1, 3, 6])))
        open0 = rng.random() < 0.9
        alive0 = open0 or rng.random() < 0.3
        ncalls = rng.randint(1, 5)
        sched = T.gen_sched(rng, rng.randint(0, 8 * ncalls))
        if rng.random() < 0.5:
            sched.append(([('w', b'ab')], 5))
            sched.append(([('exit',)], 0))
        sim = T.Sim(buf0, open0, alive0, sched)
        use_poll = rng.random() < 0.4
        c, ctxm = T.make_reader(pexpect, which, sim, use_poll)
        c.maxread = rng.choice([1, 2, 5, 2000])
        calls = []
        model_calls, obs = [], []
        handed = b''
        eof_seen = False
        bad = None
        with ctxm:
            for k in range(ncalls):
                pats = [rng.choice([b'ab', b'ba', b'bb', b'zz', b'a'])]
                markers = rng.choice([[], [], ['EOF'], ['TIMEOUT'], ['EOF', 'TIMEOUT']])
                for m_ in markers:
                    pats.insert(rng.randint(0, len(pats)), pexpect.EOF if m_ == 'EOF' else pexpect.TIMEOUT)
                t0 = rng.random() < 0.4
                calls.append(([p if isinstance(p, bytes) else p.__name__ for p in pats], t0))
                exc = idx = None
                try:
                    idx = c.expect_exact(list(pats), timeout=0 if t0 else 5)
                except pexpect.EOF:
                    exc = 'EOF'
                except pexpect.TIMEOUT:
                    exc = 'TIMEOUT'
                except Exception as e:
                    bad = 'call %d raised %r' % (k, e)
                    break
                # for the model (Compose/Run.v): the call and everything observable after it
                model_calls.append('({| ckind := KExact; pats := %s; W := None |}, %s)' % (
                    clist(['(PStr %s)' % ctext(p_) if isinstance(p_, bytes) else ('PEof' if p_ is pexpect.EOF else 'PTimeout') for p_ in pats]), cbool(t0)))
                if exc is None and c.after not in (pexpect.EOF, pexpect.TIMEOUT):
                    enc_r = [0, idx, c.before, c.after]
                elif exc == 'EOF' or c.after is pexpect.EOF:
                    enc_r = [1, [] if idx is None else [idx], c.before]
                else:
                    enc_r = [2, [] if idx is None else [idx], c.before]
                obs.append([enc_r, c._before.getvalue(), c._buffer.getvalue(), sim.state(), len(sim.sched)])
                # what the peer has written so far (replay of the consumed part of the schedule on a fresh endpoint)
                written = b''
                ksim = T.Sim(buf0, open0, alive0, [])
                for acts, _ in sched[:len(sched) - len(sim.sched)]:
                    for a in acts:
                        if a[0] == 'w' and ksim.open and ksim.alive:
                            written += a[1]
                        ksim._peer([a])
                total = buf0 + written
                after = c.after
                if exc == 'EOF' or (idx is not None and after is pexpect.EOF):
                    outcomes['EOF'] += 1
                    want_idx = pats.index(pexpect.EOF) if pexpect.EOF in pats else None
                    if sim.buf or (sim.open and sim.alive):
                        bad = 'call %d reported EOF while the kernel still held %r / the peer was still there (open=%r alive=%r)' % (k, sim.buf, sim.open, sim.alive)
                    elif (exc == 'EOF') != (want_idx is None) or (idx is not None and idx != want_idx):
                        bad = 'call %d: EOF with patterns %r gave index %r / exception %r' % (k, calls[-1][0], idx, exc)
                    elif after is not pexpect.EOF:
                        bad = 'call %d: after is %r at EOF' % (k, after)
                    elif handed + c.before != total:
                        bad = 'call %d: at EOF before = %r, but the text pending was %r' % (k, c.before, total[len(handed):])
                    elif eof_seen and c.before != b'':
                        bad = 'call %d: EOF was already reported, yet this call delivered %r' % (k, c.before)
                    handed += c.before
                    eof_seen = True
                elif exc == 'TIMEOUT' or (idx is not None and after is pexpect.TIMEOUT):
                    outcomes['TIMEOUT'] += 1
                    want_idx = pats.index(pexpect.TIMEOUT) if pexpect.TIMEOUT in pats else None
                    if (exc == 'TIMEOUT') != (want_idx is None) or (idx is not None and idx != want_idx):
                        bad = 'call %d: TIMEOUT with patterns %r gave index %r / exception %r' % (k, calls[-1][0], idx, exc)
                    elif after is not pexpect.TIMEOUT:
                        bad = 'call %d: after is %r at TIMEOUT' % (k, after)
                    elif handed + c.before + sim.buf != total:
                        bad = 'call %d: at TIMEOUT before = %r + in the kernel %r, but the text not yet handed back was %r' % (k, c.before, sim.buf, total[len(handed):])
                    elif eof_seen:
                        bad = 'call %d: TIMEOUT after EOF had been reported' % k
                else:
                    outcomes['match'] += 1
                    if eof_seen:
                        bad = 'call %d: a match (%r) after EOF had been reported' % (k, after)
                    handed += c.before + c.after
                    if not bad and handed + c.buffer + sim.buf != total:
                        bad = 'call %d: handed back %r + pending %r + in the kernel %r != written %r' % (k, handed, c.buffer, sim.buf, total)
                if bad:
                    break
        if which == 1:
            import os
            for f in c._verif_fds:
                try:
                    os.close(f)
                except OSError:
                    pass
        tried += 1
        if not (bad and 'raised' in bad) and len(cases) < max_model:
            cases.append(('(%s, %s, %s, %s, %s)' % (cnat(which), cnat(c.maxread), T.coq_kern(buf0, open0, alive0), T.coq_sched(sched), clist(model_calls)),
                          obs, {'transport': which, 'buf0': list(buf0), 'open': open0, 'alive': alive0, 'sched': repr(sched), 'calls': calls,
                                'use_poll': use_poll, 'maxread': c.maxread}))
        if bad:
            key = ('C01/sim-expect' if ('handed back' in bad or 'text pending' in bad or 'not yet handed' in bad) else 'C04/sim-expect')
            if which_prop == 'C01' and not key.startswith('C01'):
                continue
            if which_prop == 'C04':
                key = 'C04/sim-expect'
            ctx.hit(key, '%s transport: %s' % (['pty', 'fd', 'socket'][which], bad),
                    {'transport': which, 'buf0': list(buf0), 'open': open0, 'alive': alive0, 'sched': repr(sched), 'calls': calls,
                     'use_poll': use_poll, 'maxread': c.maxread})
            nhit += 1
            if nhit >= 2:
                break
    ctx.oracle_stats['sim_expect'] = {'histories': tried, 'outcomes': outcomes}
    if os.path.exists(os.path.join(common.COQ, 'Compose/Run.vo')):
        ctx.run_cases('expect-over-kernel', ['Transport.Model', 'Base.Rx', 'Expect.Model', 'Compose.Run'], 'run_compose', 'compose_case', cases, shard=300)
    else:
        ctx.corr_broken.append(('expect-over-kernel', {'error': 'model did not build'}))
