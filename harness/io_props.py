"""Driver of C07 (decode), C08 (send), C11 (log): correspondence io-paths + per-property direct oracles."""
import codecs
import io
import json
import os
import sys
import time

from . import common
from . import io_paths as IO
from .common import clist, cbool, cnat, ctext

RULE = ('sequences of operations (reads of raw byte chunks cut at arbitrary offsets incl. inside multi-byte characters, send / write / sendline with bytes and text payloads over all byte '
        'values and non-ASCII text, sendcontrol / sendeof / sendintr) x {pty, fd, popen, socket} x bytes / utf-8 mode x every combination of the three log files; the REAL read paths and '
        'send families run on fake OS endpoints; delivered texts, bytes on the wire, log events (writes and flushes, in order) and return values compared with the model; distinct = distinct model inputs')


def flat_ops(ops):
    """writelines(seq) is the write of each item: the oracles and the return-value bookkeeping see it that way"""
    out = []
    for o in ops:
        if o[0] == 'writelines':
            out += [('write', is_str, t) for is_str, t in o[2]]
        else:
            out.append(o)
    return out


def corr_cases(ctx, pexpect, n, setlogs=False):
    rng = ctx.rng
    cases = []
    stats = {'transport': {0: 0, 1: 0, 2: 0, 3: 0}, 'unicode': 0, 'ops': 0}
    results = []
    for it in range(n):
        which = rng.choice([0, 0, 1, 2, 3])
        uni = rng.random() < 0.5
        logs = (rng.random() < 0.6, rng.random() < 0.6, rng.random() < 0.6)
        plan, control_bytes, raw = IO.gen_ops(rng, which, uni, setlogs=setlogs)
        ops = [p if p[0] != 'ctl' else ('control', p[1], p[2]) for p in plan]
        try:
            delivered, wire, sink, rets, c = IO.run_ops(pexpect, which, uni, logs, ops)
        except Exception as e:
            results.append({'error': repr(e), 'which': which, 'unicode': uni, 'ops': ops, 'logs': logs})
            continue
        stats['transport'][which] += 1
        stats['unicode'] += uni
        stats['ops'] += len(ops)
        # the model's Read ops: one per read CALL (popen may have pulled several queue items into one call)
        model_ops = list(ops)
        # write() returns None: the model returns the count, compare only where the API returns one
        exp_rets = []
        for o, r in zip([o for o in flat_ops(ops) if o[0] not in ('read', 'setlogs')], rets):
            exp_rets.append(r)
        inp = '(%s, (%s, %s, %s), %s, %s)' % (cbool(uni), cbool(logs[0]), cbool(logs[1]), cbool(logs[2]), cnat(which),
                                             IO.coq_ops(model_ops, control_bytes))
        results.append({'which': which, 'unicode': uni, 'logs': logs, 'ops': flat_ops(ops), 'delivered': delivered, 'wire': wire,
                        'sink': sink, 'rets': rets, 'raw': raw, 'control_bytes': control_bytes})
        # returns: replace None (write) by the byte count the model computes -> compare as model value by re-deriving
        fixed_rets = []
        for o, r in zip([o for o in flat_ops(ops) if o[0] not in ('read', 'setlogs')], rets):
            if r is None and o[0] == 'control':
                fixed_rets.append(1)              # sendeof / sendintr return nothing: one control byte
            elif r is None:
                # write() returns nothing: the count the model reports for it is the length of the encoded argument
                fixed_rets.append(len(o[2].encode('utf-8') if o[1] else o[2].encode('latin-1')))
            else:
                fixed_rets.append(r)
        # what the peer receives is the concatenation of the writes (how many write calls it took is not part of the property)
        cases.append((inp, [delivered, b''.join(wire), IO.encode_events(sink), fixed_rets],
                      {'transport': which, 'unicode': uni, 'logs': logs, 'ops': [repr(o) for o in ops]}))
    if not setlogs:
        ctx.oracle_stats['io_runs'] = stats
    return cases, results


def oracle_C07(ctx, pexpect, results, n_extra):
    """the text delivered (and logged) = the decoding of the whole byte stream, wherever the reads cut it"""
    for r in results:
        if 'error' in r:
            ctx.hit('C07/raises', 'read path raised %s' % r['error'], {k: repr(v) for k, v in r.items()})
            return
        want = r['raw'].decode('utf-8') if r['unicode'] else r['raw']
        got = ('' if r['unicode'] else b'').join(r['delivered'])
        if got != want:
            ctx.hit('C07/split-decode', 'transport %d, unicode=%s: reads delivered %r, the whole stream decodes to %r (chunks %r)'
                    % (r['which'], r['unicode'], got, want, [o[1] for o in r['ops'] if o[0] == 'read']), {k: repr(v) for k, v in r.items()})
            return
    # other encodings and error policies (no Coq codec instance: CPython's incremental decoders are trusted to be Mealy machines)
    rng = ctx.rng
    tried = 0
    for it in range(n_extra):
        enc = rng.choice(['utf-8', 'utf-16', 'utf-16-le', 'latin-1', 'cp1252', 'shift_jis', 'utf-32'])
        errors = rng.choice(['strict', 'replace', 'ignore'])
        text = ''.join(rng.choice(['a', 'b', 'é', 'ソ', '☃', '\n', '1', '\ufeff', '\x00', '\r', '\ufffd', '\u2028']) for _ in range(rng.randint(1, 10)))
        try:
            raw = text.encode(enc)
        except UnicodeEncodeError:
            raw = text.encode(enc, 'replace')
        if errors != 'strict' and rng.random() < 0.4:
            pos = rng.randrange(len(raw) + 1)
            raw = raw[:pos] + bytes([rng.choice([0xff, 0x80, 0xc3, 0xe2])]) + raw[pos:]
        try:
            want = codecs.getincrementaldecoder(enc)(errors).decode(raw, final=False)
        except UnicodeError:
            continue
        cuts = sorted(set(rng.randrange(len(raw) + 1) for _ in range(rng.randint(1, 3))))
        pieces, prev = [], 0
        for c_ in cuts + [len(raw)]:
            if c_ > prev:
                pieces.append(raw[prev:c_])
                prev = c_
        for which in (0, 1, 2, 3, 'async'):
            tried += 1
            try:
                got, logged = read_pieces(pexpect, which, enc, errors, pieces, rng)
            except Exception as e:
                ctx.hit('C07/raises', '%s transport, %s/%s, pieces %r: raised %r' % (which, enc, errors, pieces, e),
                        {'transport': which, 'encoding': enc, 'errors': errors, 'pieces': [list(p) for p in pieces]})
                return
            if got != want or logged != want:
                ctx.hit('C07/split-decode', 'transport %s, encoding %s/%s: pieces %r delivered %r (logged %r), the whole stream decodes to %r'
                        % (which, enc, errors, pieces, got, logged, want),
                        {'transport': which, 'encoding': enc, 'errors': errors, 'pieces': [list(p) for p in pieces]})
                return
    ctx.oracle_stats['other_encodings_runs'] = tried


def read_pieces(pexpect, which, enc, errors, pieces, rng=None):
    """feed the pieces through one transport's real read path; returns (delivered text, text written to logfile_read)"""
    log = io.StringIO()
    if which == 'async':
        from pexpect._async import PatternWaiter
        from pexpect.expect import Expecter, searcher_string
        from pexpect import fdpexpect
        r, w = os.pipe()
        c = fdpexpect.fdspawn(r, encoding=enc, codec_errors=errors, timeout=5)
        c.logfile_read = log
        pw = PatternWaiter()

        class Tr:
            def pause_reading(self):
                pass
        import asyncio
        loop = asyncio.new_event_loop()
        try:
            asyncio.set_event_loop(loop)
            pw.transport = Tr()
            pw.fut = loop.create_future()
            pw.expecter = Expecter(c, searcher_string(['\x00never\x00']), None)
            for k, p in enumerate(pieces):
                if k % 2 == 1:
                    # a new awaited expect call starts between two chunks
                    pw.set_expecter(Expecter(c, searcher_string(['\x00never\x00']), None))
                    pw.fut = loop.create_future()
                if rng is not None and rng.random() < 0.35 and not pw.fut.done():
                    # the call has ended (found its pattern / timed out) and the event loop delivers more output before the next
                    # call starts: it is kept for that call - and it is text delivered from the child like any other
                    pw.fut.set_result(None)
                pw.data_received(p)
            got = c._before.getvalue()
        finally:
            loop.close()
            asyncio.set_event_loop(None)
            os.close(r)
            os.close(w)
        return got, log.getvalue()
    import contextlib
    enc_kw = dict(encoding=enc)
    c, ctxs, wire, sink = IO.build(pexpect, which, True, (False, False, False), pieces)
    # rebuild the coder pair for the requested encoding / error policy
    c.encoding = enc
    c.codec_errors = errors
    c._decoder = codecs.getincrementaldecoder(enc)(errors)
    c._encoder = codecs.getincrementalencoder(enc)(errors)
    c.logfile_read = log
    out = ''
    with contextlib.ExitStack() as st:
        for cm in ctxs:
            st.enter_context(cm)
        for p in pieces:
            if rng is not None and rng.random() < 0.5:
                # between two reads the application does other things with the object (and with other objects): none of them
                # may disturb the decoding of the stream
                x = rng.random()
                if x < 0.35:
                    c.buffer = rng.choice(['', 'X']) + c.buffer           # assigning the pending text
                elif x < 0.5:
                    str(c)
                    c.before, c.after, c.buffer
                elif x < 0.75:
                    from pexpect.spawnbase import SpawnBase
                    other = SpawnBase(encoding=enc, codec_errors=errors)     # another object with the same encoding, mid-character
                    try:
                        other._decoder.decode('é☃'.encode(enc)[:-1], False)
                    except UnicodeError:
                        pass
                else:
                    try:
                        c.expect_exact(['\x00never\x00'], timeout=0) if which != 2 else None
                    except (pexpect.TIMEOUT, pexpect.EOF):
                        pass
            if which == 2:
                c._read_queue.put(p)
                out += c.read_nonblocking(10 ** 6, timeout=1)
            else:
                c._verif_sim.release()
                out += c.read_nonblocking(len(p) + 1999, timeout=1)
    if which == 1:
        for f in c._verif_fds:
            try:
                os.close(f)
            except OSError:
                pass
    return out, log.getvalue()


def oracle_C08(ctx, pexpect, results, real_peers):
    """what reaches the wire = concatenation of the encoded arguments (+ line separator) and one control byte per control call"""
    for r in results:
        if 'error' in r:
            ctx.hit('C08/raises', 'send path raised %s' % r['error'], {k: repr(v) for k, v in r.items()})
            return
        want = b''
        rets_want = []
        k = 0
        for o in r['ops']:
            if o[0] == 'read':
                continue
            if o[0] == 'control':
                b = bytes([r['control_bytes'][k]])
                k += 1
                want += b
                rets_want.append(1)
                continue
            arg = o[2]
            if o[1]:
                b = arg.encode('utf-8')
            else:
                b = arg.encode('latin-1')
            if o[0] == 'sendline':
                b += b'\n'
            want += b
            rets_want.append(None if o[0] == 'write' else len(b))
        got = b''.join(r['wire'])
        if got != want:
            ctx.hit('C08/wire', 'transport %d, unicode=%s, calls %r: the peer received %r, expected %r' % (r['which'], r['unicode'], [o for o in r['ops'] if o[0] != 'read'], got, want),
                    {k2: repr(v) for k2, v in r.items()})
            return
        for o, a, b in zip([o for o in r['ops'] if o[0] != 'read'], r['rets'], rets_want):
            if o[0] in ('send', 'sendline') and a != b:
                ctx.hit('C08/return', 'transport %d: %s(%r) returned %r, it wrote %r bytes' % (r['which'], o[0], o[2], a, b), {k2: repr(v) for k2, v in r.items()})
                return
    if real_peers:
        real_peer_send(ctx, pexpect)
        send_after_await(ctx, pexpect)
        send_after_reads(ctx, pexpect)
        send_with_other_ops(ctx, pexpect)
        encoders_are_per_object(ctx, pexpect)


def write_all_cases(ctx, pexpect, n):
    """job write-all: the REAL SpawnBase._write_all with os.write answered from a schedule (accept k bytes, or refuse for the
    moment) and the wait for writability a no-op; pieces written and return value against IO/Model.v write_all"""
    import pexpect.spawnbase as sb
    rng = ctx.rng
    cases = []
    FD = 987
    for it in range(n):
        b = bytes(rng.randrange(256) for _ in range(rng.randint(0, 12)))
        accepts = [rng.choice([None, None, 0, 1, 2, 3, 5, 100]) for _ in range(rng.randint(0, 4))] + [100] * 3 + [1] * 14
        sched = list(accepts)
        pieces = []
        real_write, real_sel = os.write, sb.select_ignore_interrupts

        def w(fd, data):
            if fd != FD:
                return real_write(fd, data)
            a = sched.pop(0)
            if a is None:
                raise BlockingIOError(11, 'would block')
            k = min(a, len(data))
            pieces.append(bytes(data[:k]))
            return k
        os.write = w
        sb.select_ignore_interrupts = lambda r, wl, x, timeout=None: ([], list(wl), [])
        try:
            c = pexpect.spawn(None)
            c.closed = True
            try:
                ret = c._write_all(FD, b)
            except Exception as e:
                ctx.hit('C08/write-all-raises', '_write_all raised %r' % (e,), {'payload': list(b), 'accepts': accepts})
                return
        finally:
            os.write, sb.select_ignore_interrupts = real_write, real_sel
        used = len(accepts) - len(sched)
        if ret != len(b):
            ctx.hit('C08/write-all-return', '_write_all returned %r for %d bytes' % (ret, len(b)), {'payload': list(b), 'accepts': accepts})
            return
        cases.append(('(%s, %s)' % (clist(['None' if a is None else '(Some %s)' % cnat(a) for a in accepts[:used]]), ctext(b)), [pieces, b''], {'payload': list(b), 'accepts': accepts[:used]}))
    ctx.run_cases('write-all', ['IO.Model', 'IO.Run'], 'run_write_all', 'list (option nat) * list N', cases, shard=500)


def send_after_await(ctx, pexpect):
    """history: an awaited expect() on the object (asyncio makes the descriptor non-blocking and keeps it so), then a payload
    larger than the kernel buffers to a reading peer: the peer must still receive all of it"""
    import asyncio
    import socket
    import threading
    from pexpect import fdpexpect
    size = 300000
    payload = (b'0123456789abcdef' * (size // 16 + 1))[:size]
    # pty transport: a raw-mode child counts what it reads up to the sentinel
    prog = ("import os,tty\ntty.setraw(0)\nos.write(1,b'READY')\nn=0\nwhile True:\n    d=os.read(0,65536)\n    if not d: break\n    n+=len(d)\n"
            "    if d.endswith(b'\\x04'): break\nos.write(1,('GOT %d.' % n).encode())\n")
    c = pexpect.spawn(sys.executable, ['-c', prog], timeout=20)
    try:
        async def first():
            return await c.expect('READY', async_=True)
        loop = asyncio.new_event_loop()
        try:
            loop.run_until_complete(first())
        finally:
            loop.close()
        try:
            n = c.send(payload + b'\x04')
            c.expect(r'GOT (\d+)\.', timeout=20)
            got = int(c.match.group(1))
        except Exception as e:
            ctx.hit('C08/after-await-pty', 'pty transport: after one awaited expect(), send() of %d bytes to a reading child: %r' % (size + 1, e), {'size': size})
            return
        if got != size + 1:
            ctx.hit('C08/after-await-pty', 'pty transport: after one awaited expect(), send() of %d bytes returned %r and the reading child received %d' % (size + 1, n, got), {'size': size})
            return
    finally:
        c.close(force=True)
    # fd transport and socket transport on a socket pair, the peer reads in a thread
    from pexpect import socket_pexpect
    for kind in ('fd', 'socket'):
        a, b = socket.socketpair()
        f = fdpexpect.fdspawn(a.fileno(), timeout=20) if kind == 'fd' else socket_pexpect.SocketSpawn(a, timeout=20)
        received = []

        def reader():
            total = 0
            while total < size:
                d = b.recv(65536)
                if not d:
                    break
                total += len(d)
            received.append(total)
        try:
            b.sendall(b'READY')

            async def first2():
                return await f.expect('READY', async_=True)
            loop = asyncio.new_event_loop()
            try:
                loop.run_until_complete(first2())
            finally:
                loop.close()
            th = threading.Thread(target=reader)
            th.start()
            try:
                n = f.send(payload)
            except Exception as e:
                n = repr(e)
            th.join(10)
            if not received or received[0] != size:
                try:
                    b.shutdown(socket.SHUT_RDWR)
                except OSError:
                    pass
                th.join(2)
                ctx.hit('C08/after-await-%s' % kind, '%s transport: after one awaited expect(), send() of %d bytes gave %r and the reading peer received %r' % (kind, size, n, received[:1]), {'size': size})
                return
        finally:
            f.child_fd = -1           # the asyncio transport closes its pipe object (the spawn) when it is collected: nothing left to close
            f.closed = True
            for s_ in (a, b):
                try:
                    s_.close()
                except OSError:
                    pass
    ctx.oracle_stats['send_after_await'] = 3


def send_after_reads(ctx, pexpect):
    """histories: reads that end in TIMEOUT (with a small positive timeout, with timeout 0) or succeed, THEN a payload larger than
    the kernel buffers to a peer that starts reading only later: what the reads did to the descriptor / socket (timeouts,
    blocking mode) must not leak into the send - the peer receives all of it, send() raises nothing"""
    import socket
    import threading
    import time
    from pexpect import fdpexpect, socket_pexpect
    size = 1500000
    payload = (b'0123456789abcdef' * (size // 16 + 1))[:size]
    tried = 0
    for kind in ('socket', 'fd'):
        for history in (['t-small'], ['t-zero'], ['ok', 't-small'], ['t-small', 'ok', 't-zero']):
            a, b = socket.socketpair()
            f = fdpexpect.fdspawn(a.fileno(), timeout=20) if kind == 'fd' else socket_pexpect.SocketSpawn(a, timeout=20)
            received = []

            def reader():
                time.sleep(0.4)           # slower than any timeout the reads used
                total = 0
                while total < size:
                    d = b.recv(65536)
                    if not d:
                        break
                    total += len(d)
                received.append(total)
            try:
                for h_ in history:
                    if h_ == 'ok':
                        b.sendall(b'READY')
                        f.expect_exact(b'READY', timeout=5)
                    else:
                        try:
                            f.expect_exact(b'never', timeout=0.05 if h_ == 't-small' else 0)
                        except pexpect.TIMEOUT:
                            pass
                th = threading.Thread(target=reader)
                th.start()
                try:
                    n = f.send(payload)
                except Exception as e:
                    n = repr(e)
                th.join(15)
                tried += 1
                if not received or received[0] != size or n != size:
                    try:
                        b.shutdown(socket.SHUT_RDWR)
                    except OSError:
                        pass
                    th.join(2)
                    ctx.hit('C08/after-reads-%s' % kind, '%s transport: after the reads %r, send() of %d bytes to a peer that starts reading 0.4 s later gave %r and the peer received %r'
                            % (kind, history, size, n, received[:1]), {'size': size, 'history': history, 'transport': kind})
                    return
            finally:
                for s_ in (a, b):
                    try:
                        s_.close()
                    except OSError:
                        pass
    ctx.oracle_stats['send_after_reads'] = tried


def encoders_are_per_object(ctx, pexpect):
    """codecs with state (a byte order mark at the start of the stream: utf-16, utf-32, utf-8-sig): every object encodes ITS stream from
    the start - what the peer of the second and third object receives is what the peer of the first receives"""
    from pexpect import fdpexpect
    tried = 0
    for codec in ('utf-16', 'utf-8-sig', 'utf-32'):
        for k in range(3):
            r, w = os.pipe()
            try:
                c = fdpexpect.fdspawn(w, encoding=codec, timeout=5)
                n1 = c.send('ab')
                n2 = c.sendline('c')
                got = os.read(r, 1000)
            finally:
                os.close(r)
                os.close(w)
            tried += 1
            want = codecs.getincrementalencoder(codec)().encode('ab') if False else None
            enc = codecs.getincrementalencoder(codec)()
            want = enc.encode('ab') + enc.encode('c\n')
            if got != want:
                ctx.hit('C08/encoder-state', 'object number %d with encoding %s: send(\'ab\') + sendline(\'c\') delivered %r, the stream encodes to %r (returned counts %r, %r)'
                        % (k + 1, codec, got, want, n1, n2), {'codec': codec, 'object': k + 1})
                return
    ctx.oracle_stats['encoder_state_objects'] = tried


def send_with_other_ops(ctx, pexpect):
    """pty transport, a child that is slow to read: between two sends the application does other things with the object that are
    not sends (echo on/off, window size, liveness, attribute reads): none of them may take away what was sent and not yet read"""
    prog = ("import os,sys,time,tty\ntty.setraw(0)\nos.write(1,b'READY')\ntime.sleep(1.2)\nd=b''\n"
            "while not d.endswith(b'\\x04'):\n    x=os.read(0,65536)\n    if not x: break\n    d+=x\nos.write(1,('GOT %s.' % d[:-1].hex()).encode())\n")
    tried = 0
    for ops in (['setecho-off'], ['setecho-on'], ['setwinsize', 'getecho'], ['isalive', 'getwinsize', 'setecho-off', 'setecho-on']):
        c = pexpect.spawn(sys.executable, ['-c', prog], timeout=20)
        try:
            c.expect('READY')
            c.send(b'first answer;')
            time.sleep(0.4)                    # the terminal has queued it; the child is not reading yet
            for op in ops:
                if op.startswith('setecho'):
                    c.setecho(op.endswith('on'))
                elif op == 'setwinsize':
                    c.setwinsize(30, 100)
                elif op == 'getwinsize':
                    c.getwinsize()
                elif op == 'getecho':
                    c.getecho()
                else:
                    c.isalive()
            c.send(b'second answer\x04')
            c.expect(r'GOT ([0-9a-f]*)\.', timeout=20)
            got = bytes.fromhex(c.match.group(1).decode())
        except Exception as e:
            ctx.hit('C08/other-ops', 'pty transport, slow reader, send / %r / send: %r' % (ops, e), {'ops': ops})
            return
        finally:
            c.close(force=True)
        tried += 1
        if got != b'first answer;second answer':
            ctx.hit('C08/other-ops', 'pty transport: send(first), then %r while the child was not reading yet, then send(second): the child received %r' % (ops, got), {'ops': ops})
            return
    ctx.oracle_stats['send_with_other_ops'] = tried


def real_peer_send(ctx, pexpect):
    """real endpoints: a raw-mode pty child / cat through a pipe / a socket peer report what they received, incl. a
    payload larger than the pipe and socket buffers with a reading peer, and every control character name"""
    import socket
    import threading
    from pexpect import fdpexpect, popen_spawn, socket_pexpect
    payload = bytes(range(256)) * 4
    big = (b'0123456789abcdef' * 4096) * 3          # 192 KB
    # pty: raw-mode child hex-dumps what it reads until it sees the sentinel
    child = ("import os,sys,tty\ntty.setraw(0)\nos.write(1,b'<R>')\nbuf=b''\n"
             "while not buf.endswith(b'<END>'):\n    d=os.read(0,4096)\n    if not d: break\n    buf+=d\n"
             "os.write(1,b'<'+buf.hex().encode()+b'>')\n")
    c = pexpect.spawn(sys.executable, ['-c', child], timeout=20, echo=False)
    c.expect('<R>')
    c.delaybeforesend = None
    sent = b''
    body = bytes(b for b in range(256) if b not in (3, 4, 17, 19, 26, 28))       # raw mode: every byte is data
    c.send(body)
    sent += body
    c.sendline(b'line')
    sent += b'line\n'
    c.write(b'w1')
    c.writelines([b'x', b'yz'])
    sent += b'w1xyz'
    for ch, code in sorted(IO.CONTROL.items()):
        c.sendcontrol(ch)
        sent += bytes([code])
    c.sendeof()
    c.sendintr()
    sent += b'\x04\x03'
    c.send(b'<END>')
    sent += b'<END>'
    c.expect(r'<([0-9a-f]*)>')
    got = bytes.fromhex(c.match.group(1).decode())
    c.close()
    if got != sent:
        i = next((j for j in range(min(len(got), len(sent))) if got[j] != sent[j]), min(len(got), len(sent)))
        ctx.hit('C08/real-pty', 'raw-mode pty child received %d bytes, %d were sent; first difference at offset %d (%r vs %r)'
                % (len(got), len(sent), i, got[i:i + 8], sent[i:i + 8]), {})
        return
    # popen: cat, large payload with a reading peer
    p = popen_spawn.PopenSpawn(['cat'], timeout=30)
    n = p.send(big)
    p.sendline(b'tail')
    p.sendeof()
    p.expect(pexpect.EOF)
    p.wait()
    if p.before != big + b'tail\n' or n != len(big):
        ctx.hit('C08/real-popen', 'cat echoed %d bytes for %d sent; send() returned %r' % (len(p.before), len(big) + 5, n), {})
        return
    # socket with its own timeout set, small send buffer, late reader
    a, b = socket.socketpair()
    a.setsockopt(socket.SOL_SOCKET, socket.SO_SNDBUF, 16384)
    a.settimeout(30)
    recv = []

    def reader():
        time.sleep(0.3)
        while True:
            d = b.recv(65536)
            if not d:
                break
            recv.append(d)
    th = threading.Thread(target=reader)
    th.start()
    s = socket_pexpect.SocketSpawn(a, timeout=30)
    n = s.send(big)
    s.send(payload)
    a.shutdown(socket.SHUT_WR)
    th.join(20)
    a.close()
    b.close()
    got = b''.join(recv)
    if got != big + payload or n != len(big):
        ctx.hit('C08/real-socket', 'socket peer received %d bytes for %d sent; send() returned %r for %d bytes' % (len(got), len(big) + len(payload), n, len(big)), {})
        return
    # fd: pipe with a reading thread
    r, w = os.pipe()
    out = []
    th = threading.Thread(target=lambda: out.append(_read_fd(r)))
    th.start()
    f = fdpexpect.fdspawn(w, timeout=30)
    total = 0
    data = big[:60000]
    total += f.send(data)
    f.sendline(b'end')
    os.close(w)
    th.join(20)
    os.close(r)
    if out[0] != data + b'end\n' or total != len(data):
        ctx.hit('C08/real-fd', 'pipe reader received %d bytes for %d sent; send() returned %d' % (len(out[0]), len(data) + 4, total), {})
    # stateful encoders: one persistent incremental encoder (utf-16 BOM exactly once)
    for enc in ('utf-8', 'utf-8-sig', 'utf-16'):
        p = popen_spawn.PopenSpawn(['cat'], timeout=10, encoding=enc)
        ref = codecs.getincrementalencoder(enc)()
        want = b''
        for call, arg in (('send', 'a'), ('sendline', 'é'), ('write', ''), ('sendline', ''), ('send', 'z☃')):
            getattr(p, call)(arg)
            want += ref.encode(arg)
            if call == 'sendline':
                want += ref.encode('\n')
        p.sendeof()
        p.expect(pexpect.EOF)
        p.wait()
        gotb = p.before.encode(enc) if False else None
        raw = p.before
        if raw != want.decode(enc):
            ctx.hit('C08/stateful-encoder', 'PopenSpawn(encoding=%s): the peer received text %r, one incremental encoder gives %r' % (enc, raw, want.decode(enc)), {'encoding': enc})
            return


def _read_fd(fd):
    out = b''
    while True:
        d = os.read(fd, 65536)
        if not d:
            return out
        out += d


def oracle_C11(ctx, pexpect, results):
    """logfile_read = delivered texts, logfile_send = what the send family was asked to send, logfile = both interleaved in
    operation order, every write flushed, same string type as the API"""
    for r in results:
        if 'error' in r:
            # an operation raised: whatever it was asked to read or send is missing from the logs
            ctx.hit('C11/raises', 'a read or send with log files attached raised %s' % r['error'], {k: repr(v) for k, v in r.items()})
            return
        a, rd, sd = r['logs']
        typ = str if r['unicode'] else bytes
        writes = {0: [], 1: [], 2: []}
        prev = None
        for e in r['sink']:
            if e[0] == 'w':
                if not isinstance(e[2], typ):
                    ctx.hit('C11/type', 'transport %d, unicode=%s: log %d received a %s' % (r['which'], r['unicode'], e[1], type(e[2]).__name__), {k: repr(v) for k, v in r.items()})
                    return
                writes[e[1]].append(e[2])
                if prev is not None and prev[0] == 'w':
                    ctx.hit('C11/flush', 'a write to log %d was not followed by a flush' % prev[1], {k: repr(v) for k, v in r.items()})
                    return
            else:
                if prev is None or prev[0] != 'w' or prev[1] != e[1]:
                    pass
            prev = e
        if prev is not None and prev[0] == 'w':
            ctx.hit('C11/flush', 'the last write to log %d was not flushed' % prev[1], {k: repr(v) for k, v in r.items()})
            return
        empty = typ()
        sent = []
        k = 0
        for o in r['ops']:
            if o[0] == 'read':
                continue
            if o[0] == 'control':
                b = bytes([r['control_bytes'][k]])
                k += 1
                sent.append(b.decode('latin-1') if r['unicode'] else b)
                continue
            arg = o[2]
            v = arg if r['unicode'] else (arg.encode('utf-8') if o[1] else arg.encode('latin-1'))
            if o[0] == 'sendline':
                v += '\n' if r['unicode'] else b'\n'
            sent.append(v)
        want_read = empty.join(r['delivered'])
        want_send = empty.join(sent)
        if rd and empty.join(writes[1]) != want_read:
            ctx.hit('C11/logfile_read', 'transport %d: logfile_read got %r, the texts delivered were %r' % (r['which'], empty.join(writes[1]), want_read), {k2: repr(v) for k2, v in r.items()})
            return
        if sd and empty.join(writes[2]) != want_send:
            ctx.hit('C11/logfile_send', 'transport %d: logfile_send got %r, the calls were asked to send %r' % (r['which'], empty.join(writes[2]), want_send), {k2: repr(v) for k2, v in r.items()})
            return
        if a:
            inter = []
            di = iter(r['delivered'])
            si = iter(sent)
            for o in r['ops']:
                inter.append(next(di) if o[0] == 'read' else next(si))
            if empty.join(writes[0]) != empty.join(inter):
                ctx.hit('C11/logfile', 'transport %d: logfile got %r, operations in order were %r' % (r['which'], empty.join(writes[0]), empty.join(inter)), {k2: repr(v) for k2, v in r.items()})
                return


def async_logs(ctx, pexpect, n):
    """the awaited read path (PatternWaiter.data_received), with output arriving during a call and between calls, characters
    cut anywhere: logfile_read gets exactly the text that reaches the buffers, once, in order"""
    rng = ctx.rng
    tried = 0
    for it in range(n):
        enc = rng.choice(['utf-8', 'utf-8', 'latin-1', 'utf-16-le'])
        text = ''.join(rng.choice(['a', 'b', 'é', '☃', '\n', '1']) for _ in range(rng.randint(1, 10)))
        raw = text.encode(enc, 'replace')
        want = codecs.getincrementaldecoder(enc)('strict').decode(raw, final=False)
        cuts = sorted(set(rng.randrange(len(raw) + 1) for _ in range(rng.randint(1, 4))))
        pieces, prev = [], 0
        for c_ in cuts + [len(raw)]:
            if c_ > prev:
                pieces.append(raw[prev:c_])
                prev = c_
        try:
            got, logged = read_pieces(pexpect, 'async', enc, 'strict', pieces, rng)
        except Exception as e:
            ctx.hit('C11/async-log', 'awaited read path, %s, pieces %r: raised %r' % (enc, pieces, e), {'encoding': enc, 'pieces': [list(p) for p in pieces]})
            return
        tried += 1
        if logged != got or got != want:
            ctx.hit('C11/async-log', 'awaited read path, %s, pieces %r (some arriving between two calls): the buffers received %r, logfile_read received %r'
                    % (enc, pieces, got, logged), {'encoding': enc, 'pieces': [list(p) for p in pieces]})
            return
    ctx.oracle_stats['async_log_runs'] = tried


def failed_send_is_logged(ctx, pexpect):
    """the send log records what the send family was ASKED to send: also when the write then fails (the peer has gone away)"""
    import socket
    from pexpect import fdpexpect, socket_pexpect
    tried = 0
    for transport in ('fd', 'socket'):
        for enc in (None, 'utf-8'):
            sd = io.StringIO() if enc else io.BytesIO()
            if transport == 'fd':
                r, w = os.pipe()
                c = fdpexpect.fdspawn(w, encoding=enc, timeout=5)
                os.close(r)
                closers = [lambda: os.close(w)]
            else:
                a, b = socket.socketpair()
                c = socket_pexpect.SocketSpawn(a, encoding=enc, timeout=5)
                b.close()
                closers = [a.close]
            c.logfile_send = sd
            payload = 'hello' if enc else b'hello'
            raised = None
            try:
                c.send(payload)
            except OSError as e:
                raised = e
            finally:
                for f_ in closers:
                    try:
                        f_()
                    except OSError:
                        pass
            tried += 1
            if sd.getvalue() != payload:
                ctx.hit('C11/failed-send', '%s transport (%s): send(%r) to a peer that has gone away %s; logfile_send holds %r'
                        % (transport, enc or 'bytes', payload, 'raised %r' % (raised,) if raised else 'returned', sd.getvalue()), {'transport': transport, 'encoding': enc})
                return
    ctx.oracle_stats['failed_sends_logged'] = tried


def popen_small_reads(ctx, pexpect):
    """PopenSpawn with reads smaller than what the reader thread has queued: the log must never run ahead of what was
    delivered, and logfile must keep the order of the operations"""
    from pexpect import popen_spawn
    child = 'import sys\nsys.stdout.write("0123456789ABCDEFGHIJ"); sys.stdout.flush()\nl = sys.stdin.readline()\nsys.stdout.write("got:" + l); sys.stdout.flush()\n'
    for enc in (None, 'utf-8'):
        a, rd = (io.StringIO(), io.StringIO()) if enc else (io.BytesIO(), io.BytesIO())
        p = popen_spawn.PopenSpawn([sys.executable, '-c', child], timeout=10, encoding=enc)
        p.logfile = a
        p.logfile_read = rd
        time.sleep(0.7)
        E = (lambda x: x) if enc else (lambda x: x.encode())
        got = E('')
        t0 = time.time()
        while len(got) < 5 and time.time() - t0 < 5:
            got += p.read_nonblocking(5 - len(got), timeout=1)
        if rd.getvalue() != got:
            ctx.hit('C11/popen-log-ahead', 'PopenSpawn: after reading %r the read log holds %r' % (got, rd.getvalue()), {'encoding': enc})
            return
        p.sendline(E('go'))
        p.expect(pexpect.EOF)
        rest = p.before
        p.wait()
        want = got + E('go\n') + rest
        if a.getvalue() != want or rd.getvalue() != got + rest:
            ctx.hit('C11/popen-order', 'PopenSpawn: logfile is %r, the operations in order were %r' % (a.getvalue(), want), {'encoding': enc})
            return


def interact_logs(ctx, pexpect):
    """interact(): both directions are logged, with the string type of the API"""
    from .interact_rig import Rig, child_received
    for enc, variant in ((None, 0), ('utf-8', 0), (None, 1), ('utf-8', 1), (None, 2), ('utf-8', 2)):
        a, rd, sd = (io.StringIO(), io.StringIO(), io.StringIO()) if enc else (io.BytesIO(), io.BytesIO(), io.BytesIO())
        # variant 2: text is pending on the object when interact() starts (an earlier expect() matched before the end of what it
        # had read: that text was logged when it was read): it is shown, and it is not logged a second time
        pend = (b'PENDING ' if not enc else 'PENDING ') if variant == 2 else None
        rig = Rig(pexpect, encoding=enc, logfile=a, logfile_read=rd, logfile_send=sd, pending=pend)
        rig.start()
        typed = 'hé'.encode('utf-8') + b'xy'
        rig.type(typed[:2])
        time.sleep(0.3)
        if variant == 0:
            rig.type(typed[2:])
            time.sleep(0.5)
            rig.type(b'\x1d')
        else:
            # the escape character arrives in the same read as other keystrokes (fast typing, a paste): what precedes it is
            # forwarded AND logged, what follows it is neither
            rig.type(typed[2:] + b'\x1d' + b'zz')
        ok = rig.wait_return(5)
        screen, mode = rig.finish()
        if rig.error is not None or not ok:
            ctx.hit('C11/interact', 'interact() with log files (encoding=%r) ended with %r' % (enc, rig.error), {'encoding': enc})
            return
        want_send = typed.decode('utf-8') if enc else typed
        if sd.getvalue() != want_send:
            ctx.hit('C11/interact', 'interact(): logfile_send got %r, the user typed %r%s' % (sd.getvalue(), want_send, ' and then, in the same read, the escape character' if variant else ''), {'encoding': enc, 'variant': variant})
            return
        got_read = rd.getvalue()
        shown = screen.decode('utf-8', 'replace') if enc else screen
        if pend is not None and shown.startswith(pend):
            shown = shown[len(pend):]
        if got_read != shown:
            ctx.hit('C11/interact', 'interact(): logfile_read got %r, the child output shown was %r' % (got_read, shown), {'encoding': enc})
            return


def run_property(ctx, which, props_file):
    pexpect = common.preflight()
    thorough = ctx.tier == 'thorough'
    ctx.trusted += ['Coq 8.16.1 kernel (coqc); vm_compute evaluates model cases; no native_compute',
                    'hand-written model IO/Model.v of the read path (decode + log + deliver), the send family (coerce + log + encode + write) and the log fan-out, tied to the code by job io-paths: the REAL methods of the four transports run on fake OS endpoints',
                    'CPython incremental decoders/encoders are Mealy machines over their input units (law D); the UTF-8 decoder instance of the model covers well-formed input; other encodings / error policies are judged against CPython itself by the direct oracle',
                    'control-character table and the pty write primitive belong to ptyprocess (exercised on a real raw-mode pty)']
    ctx.assumptions += ['the write primitives write everything on a blocking descriptor (true for the transports as pexpect opens them; the model records the returned count)']
    ok = ctx.build(props_file, extra=['IO/Run.v'])
    cases, results = corr_cases(ctx, pexpect, 20000 if thorough else 3000)
    if os.path.exists(os.path.join(common.COQ, 'IO/Run.vo')):
        ctx.run_cases('io-paths', ['IO.Model', 'IO.Run'], 'run_io', 'bool * (bool * bool * bool) * nat * list op', cases, shard=400)
        if which == 'C08':
            write_all_cases(ctx, pexpect, 4000 if thorough else 800)
        if which == 'C11':
            # the log attributes are reassigned in the middle of the session: they must be looked up at every call
            lcases, _ = corr_cases(ctx, pexpect, 5000 if thorough else 800, setlogs=True)
            ctx.run_cases('io-paths-logs', ['IO.Model', 'IO.Run'], 'run_iox', 'bool * (bool * bool * bool) * nat * list xop', lcases, shard=400)
    else:
        ctx.corr_broken.append(('io-paths', {'error': 'model did not build'}))
    if which == 'C07':
        oracle_C07(ctx, pexpect, results, 3000 if thorough else 400)
    elif which == 'C08':
        oracle_C08(ctx, pexpect, results, True)
    else:
        oracle_C11(ctx, pexpect, results)
        async_logs(ctx, pexpect, 3000 if thorough else 300)
        failed_send_is_logged(ctx, pexpect)
        popen_small_reads(ctx, pexpect)
        interact_logs(ctx, pexpect)


def replay(ctx, path):
    print(json.dumps(json.load(open(path)), indent=1)[:4000])
    return 1
