"""C15 interact(): model + theorems; correspondence interact-sim (the real copy loop with select / os.read / os.write / tty
calls scripted) and a real nested-pty rig as direct oracle."""
import json
import os
import time

from .. import common
from ..common import ctext, clist, cnat, copt, cN

FINISH = dict(level='proof', rule='event sequences (child output chunks, typed chunks incl. the escape character absent / first / middle / last / repeated, child EOF) x escape '
              'character {^], none, other} x filters on/off x pending output x select/poll: the REAL interact() runs with its system calls scripted (interact-sim) and is '
              'compared with the model; plus real sessions on a private pty pair with a raw-mode child that reports what it received; distinct = distinct model inputs')

CHILD_FD, STDIN_FD, STDOUT_FD = 987, 988, 989


def upper(b):
    return bytes((c - 32) if 97 <= c <= 122 else c for c in b)


def swallow(b):
    return b'' if b'x' in b else b


FILTERS = {0: None, 1: upper, 2: swallow}


def apply_filter(k, b):
    return b if not k else FILTERS[k](b)


def sim_run(pexpect, case):
    """run the real interact() with select/poll, os.read, os.write, tty.* answered from the event script"""
    import pexpect.pty_spawn as ps
    events = list(case['events'])
    stdout, child = [], []
    modes = []
    c = pexpect.spawn(None, timeout=5, use_poll=case['use_poll'], encoding='utf-8' if case.get('unicode') else None)

    state = {'dead': False}

    class FP:
        flag_eof = False
        status = exitstatus = signalstatus = None

        def isalive(self_):
            # the child's death becomes visible at the first liveness check after it
            while events and events[0][0] == 'exit':
                events.pop(0)
                state['dead'] = True
            return not state['dead']
    c.ptyproc = FP()
    c.child_fd, c.closed, c.pid = CHILD_FD, False, 4242
    c.STDIN_FILENO, c.STDOUT_FILENO = STDIN_FD, STDOUT_FD
    c.buffer = case['pending'].decode('ascii') if case.get('unicode') else case['pending']
    # sys.stdout is a buffered stream on top of descriptor 1, the copy loop writes to the descriptor directly: what the
    # user sees is what has reached the descriptor, in that order
    pybuf = []
    c.write_to_stdout = lambda b: pybuf.append(b.encode('utf-8') if isinstance(b, str) else bytes(b))

    class Out:
        def flush(self_):
            stdout.extend(pybuf)
            del pybuf[:]
    c.stdout = Out()
    saved = (ps.select_ignore_interrupts, ps.poll_ignore_interrupts, os.read, os.write, ps.tty.tcgetattr, ps.tty.setraw, ps.tty.tcsetattr)

    def ready(fds, timeout):
        if not events:
            got = [CHILD_FD]           # the script is over: the child's output ends
        else:
            e = events[0]
            got = [STDIN_FD] if e[0] == 'typed' else [CHILD_FD]
        got = [f for f in got if f in fds]
        if not got and timeout is None:
            raise RuntimeError('interact() would block for ever: it waits on %r but the next event is %r' % (fds, events[:1]))
        return got

    def sel(r, w, x, timeout=None):
        return (ready(r, timeout), [], [])

    def pol(fds, timeout=None):
        return ready(fds, timeout)

    def rd(fd, n):
        if fd in (CHILD_FD, STDIN_FD):
            if not events:
                raise OSError(5, 'EIO')
            e = events.pop(0)
            if e[0] == 'eof':
                raise OSError(5, 'EIO')
            return e[1]
        return saved[2](fd, n)

    def wr(fd, b):
        if fd == STDOUT_FD:
            stdout.append(bytes(b))
            return len(b)
        if fd == CHILD_FD:
            k = max(1, len(b) - (1 if len(b) > 2 else 0))      # short writes: the write loop must finish the job
            child.append(bytes(b[:k]))
            return k
        return saved[3](fd, b)
    ps.select_ignore_interrupts, ps.poll_ignore_interrupts = sel, pol
    os.read, os.write = rd, wr
    ps.tty.tcgetattr = lambda fd: ['MODE']
    ps.tty.setraw = lambda fd: modes.append('raw')
    ps.tty.tcsetattr = lambda fd, when, mode: modes.append(('restore', mode))
    fin = FILTERS[case['fin']]
    fout = FILTERS[case['fout']]
    # the escape character as the API takes it: a one-character string (code points up to 255 stand for that byte)
    esc = None if case['esc'] is None else chr(case['esc'])
    try:
        c.interact(escape_character=esc, input_filter=fin, output_filter=fout)
        err = None
    except Exception as e:
        err = repr(e)
    finally:
        (ps.select_ignore_interrupts, ps.poll_ignore_interrupts, os.read, os.write, ps.tty.tcgetattr, ps.tty.setraw, ps.tty.tcsetattr) = saved
        c.closed = True
    restored = modes[-1:] == [('restore', ['MODE'])]
    result = (b''.join(stdout), b''.join(child), restored, err, len(events))
    # a second session on the same object must not show the old pending output again
    if err is None and case.get('again'):
        del stdout[:]
        del events[:]
        events.append(('out', b'second'))
        c.closed = False
        (ps.select_ignore_interrupts, ps.poll_ignore_interrupts) = (sel, pol)
        os.read, os.write = rd, wr
        ps.tty.tcgetattr = lambda fd: ['MODE']
        ps.tty.setraw = lambda fd: None
        ps.tty.tcsetattr = lambda fd, when, mode: None
        try:
            c.interact(escape_character=esc, input_filter=fin, output_filter=fout)
        except Exception as e:
            result = result[:3] + ('second interact(): ' + repr(e),) + result[4:]
        finally:
            (ps.select_ignore_interrupts, ps.poll_ignore_interrupts, os.read, os.write, ps.tty.tcgetattr, ps.tty.setraw, ps.tty.tcsetattr) = saved
            c.closed = True
        second = b''.join(stdout)
        if second != apply_filter(case['fout'], b'second') and result[3] is None:
            result = result[:3] + ('a second interact() on the same object displayed %r instead of only the new output' % second,) + result[4:]
    return result


def gen_case(rng):
    esc = rng.choice([29, 29, 29, None, 120, 0x9d, 0xe9, 0xff])
    exits = rng.random() < 0.45          # sessions in which the child terminates at some point
    events = []
    for _ in range(rng.randint(0, 6)):
        x = rng.random()
        if x < 0.45:
            events.append(('out', bytes(rng.choice(b'abxyz\n\x1d\xff\xc3\xa9') for _ in range(rng.randint(1, 5)))))
        elif x < 0.52 and exits:
            events.append(('exit',))
        elif x < 0.9:
            d = bytes(rng.choice(b'abcxq\r\xfe\xc3\xa9') for _ in range(rng.randint(1, 5)))
            if esc is not None and rng.random() < 0.35:
                k = rng.randint(0, len(d))
                d = d[:k] + bytes([esc]) + d[k:]
                if rng.random() < 0.4:
                    d += bytes([esc]) + b'zz'
            events.append(('typed', d))
        else:
            events.append(('eof',))
    return {'esc': esc, 'fin': rng.choice([0, 0, 0, 1, 2]), 'fout': rng.choice([0, 0, 0, 1, 2]), 'events': events,
            'pending': bytes(rng.choice(b'pq') for _ in range(rng.choice([0, 0, 3]))), 'use_poll': rng.random() < 0.4, 'again': rng.random() < 0.3,
            # a text-mode object (strict decoding, the default): interact() still pipes BYTES, whatever they are
            'unicode': rng.random() < 0.35}


def coq_case(case):
    evs = clist(['(ChildOut %s)' % ctext(e[1]) if e[0] == 'out' else ('(Typed %s)' % ctext(e[1]) if e[0] == 'typed' else ('ChildExit' if e[0] == 'exit' else 'ChildEof')) for e in case['events']])
    return '(%s, %s, %s, %s, %s)' % (copt(case['esc'], cN), cnat(case['fin']), cnat(case['fout']), ctext(case['pending']), evs)


def expected(case):
    """the property, computed directly: stdout = pending + filtered child output up to the end of the session (what the child wrote
    before it exited included: after an 'exit' the output events that follow at once are still due); the child gets the filtered
    keystrokes up to (not including) the first escape character - or, when the child dies during the session, a prefix of that"""
    out = case['pending']
    typed = b''
    esc = case['esc']
    dead = False
    for e in case['events']:
        if e[0] == 'eof':
            break
        if e[0] == 'exit':
            dead = True
        elif e[0] == 'out':
            out += apply_filter(case['fout'], e[1])
        else:
            if dead:
                break                     # nobody to type to: the session is over once the child's output has been shown
            d = apply_filter(case['fin'], e[1])
            if esc is not None and bytes([esc]) in d:
                typed += d[:d.index(bytes([esc]))]
                return out, typed
            typed += d
    return out, typed


def real_sessions(ctx, pexpect, n):
    from ..interact_rig import Rig, child_received
    rng = ctx.rng
    tried = 0
    for it in range(n):
        esc_first = rng.choice([False, True, True])
        keys = [bytes(rng.choice(b'abcq') for _ in range(rng.randint(1, 4))) for _ in range(rng.randint(1, 3))]
        tail = rng.choice([b'\x1d', b'k\x1dm', b'\x1d\x1dzz', b'uv\x1dw\x1dx'])
        rig = Rig(pexpect, use_poll=rng.random() < 0.5, pending=b'PENDING' if rng.random() < 0.5 else None)
        pending = rig.child.buffer
        rig.start()
        for k in keys:
            rig.type(k)
            time.sleep(0.15)
        rig.type(tail)
        ok = rig.wait_return(5)
        screen, mode = rig.finish()
        tried += 1
        got = child_received(screen + rig.tail)
        want = b''.join(keys) + tail[:tail.index(b'\x1d')]
        if not ok or rig.error is not None:
            ctx.hit('C15/real', 'interact() did not return after the escape character (error %r)' % (rig.error,), {'keys': [list(k) for k in keys], 'tail': list(tail)})
            return
        if got != want:
            ctx.hit('C15/real-child', 'typed %r then %r: the child received %r, expected %r' % (keys, tail, got, want), {'keys': [list(k) for k in keys], 'tail': list(tail)})
            return
        if mode != rig.mode_before:
            ctx.hit('C15/real-mode', 'the terminal mode was not restored after interact()', {})
            return
        if pending and not screen.startswith(pending):
            ctx.hit('C15/real-pending', 'pending output %r was not written first (screen starts with %r)' % (pending, screen[:20]), {})
            return
    ctx.oracle_stats['real_sessions'] = tried


def real_last_words(ctx, pexpect, n):
    """a real child that writes a burst larger than one read and exits at once, or has exited before interact() starts: all of its
    output must reach the screen before interact() returns"""
    import pty
    tried = 0
    for it in range(n):
        late = it % 2 == 1
        um, us = pty.openpty()
        sr, sw = os.pipe()
        size = [5000, 1500, 12000, 999][it % 4]
        c = pexpect.spawn('/bin/sh', ['-c', 'sleep 0.2; head -c %d /dev/zero | tr "\\0" x; echo END' % size], timeout=10)
        try:
            c.STDIN_FILENO, c.STDOUT_FILENO = us, sw
            c.write_to_stdout = lambda b: os.write(sw, b)

            class _Out:
                def flush(self_):
                    pass
            c.stdout = _Out()
            if late:
                time.sleep(0.6)             # the child is already gone when interact() starts
            c.interact()
            os.close(sw)
            sw = None
            out = b''
            while True:
                d = os.read(sr, 65536)
                if not d:
                    break
                out += d
            tried += 1
            want = b'x' * size + b'END\r\n'
            if out != want:
                ctx.hit('C15/real-last-words', 'a child wrote %d bytes and exited%s: interact() showed %d of them' % (len(want), ' before interact() was called' if late else '', len(out)),
                        {'size': size, 'late': late})
                return
        finally:
            for f in (sr, sw, um, us):
                if f is not None:
                    try:
                        os.close(f)
                    except OSError:
                        pass
            c.close(force=True)
    ctx.oracle_stats['real_last_words'] = tried


def run(ctx):
    pexpect = common.preflight()
    thorough = ctx.tier == 'thorough'
    ctx.trusted += ['Coq 8.16.1 kernel (coqc); vm_compute evaluates model cases; no native_compute',
                    'hand-written Interact/Model.v of interact / __interact_copy, tied to the code by job interact-sim: the REAL interact() with select/poll, os.read, os.write (incl. short writes), tty.* scripted',
                    'terminal modes, the pty line discipline and real read chunking are the kernel\'s: exercised by real sessions on a private pty pair with a raw-mode child that reports every byte it received']
    ctx.assumptions += ['filters used in the correspondence are per-character maps (the theorems hold for arbitrary filter functions)',
                        'logging during interact() belongs to C11']
    ok = ctx.build('Props/C15.v', extra=['Interact/Run.v'])
    rng = ctx.rng
    cases = []
    nhit = 0
    for it in range(20000 if thorough else 3000):
        case = gen_case(rng)
        out, child, restored, err, left = sim_run(pexpect, case)
        wout, wchild = expected(case)
        bad = None
        if err:
            bad = 'interact() raised %s' % err
        elif out != wout:
            bad = 'stdout received %r, expected %r' % (out, wout)
        elif child != wchild and not (any(e[0] == 'exit' for e in case['events']) and wchild.startswith(child)):
            bad = 'the child received %r, expected %r' % (child, wchild)
        elif not restored:
            bad = 'the terminal mode was not restored'
        if bad and nhit < 3:
            nhit += 1
            ctx.hit('C15/sim', 'events %r, escape %r, filters in=%s out=%s: %s' % (case['events'], case['esc'], case['fin'], case['fout'], bad), {'case': repr(case)})
        if err is None:
            cases.append((coq_case(case), [out, child, restored], {'case': repr(case)}))
    if os.path.exists(os.path.join(common.COQ, 'Interact/Run.vo')):
        ctx.run_cases('interact-sim', ['Interact.Model', 'Interact.Run'], 'run_interact', 'option N * nat * nat * list N * list iev', cases, shard=500)
    else:
        ctx.corr_broken.append(('interact-sim', {'error': 'model did not build'}))
    real_sessions(ctx, pexpect, 40 if thorough else 6)
    real_last_words(ctx, pexpect, 24 if thorough else 6)


def _session(case):
    out = []
    for e in case['events']:
        if e[0] == 'eof':
            break
        out.append(e)
        if e[0] == 'typed' and case['esc'] is not None and bytes([case['esc']]) in apply_filter(case['fin'], e[1]):
            break
    return out


def _ended_by_eof(case):
    for e in case['events']:
        if e[0] == 'eof':
            return True
        if e[0] == 'typed' and case['esc'] is not None and bytes([case['esc']]) in apply_filter(case['fin'], e[1]):
            return False
    return False


def replay(ctx, path):
    print(json.dumps(json.load(open(path)), indent=1)[:4000])
    return 1
