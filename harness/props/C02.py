"""C02 (Expecter): see harness/expect_props.py"""
from .. import expect_props

FINISH = dict(level='proof', rule=expect_props.RULE)


def run(ctx):
    expect_props.run_property(ctx, 'C02', 'Props/C02.v')


def replay(ctx, path):
    return expect_props.replay(ctx, path, 'C02')
