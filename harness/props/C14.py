"""C14 asyncio parity: (A) the real PatternWaiter driven method by method (deterministic) vs the Coq model;
(B) the real expect(..., async_=True) under a real event loop on a pipe vs the blocking call on a twin pipe."""
import asyncio
import json
import os
import re
import time

from .. import common
from ..common import ctext, clist, cnat, copt, cbool
from .. import expect_hist as H

FINISH = dict(level='proof', rule='(A) histories of awaited / blocking calls and of output arriving while no call is outstanding, with chunk lists, EOF and timeouts per call, exact and '
              'regex patterns, search windows, bytes/unicode: the real Expecter + PatternWaiter driven method by method, every observable compared with the model after each step; '
              '(B) the real expect / expect_exact with async_=True under a real event loop on a pipe-backed fdspawn against the blocking call on a twin pipe (same writes); distinct = distinct model inputs')


class FakeTransport:
    def __init__(self):
        self.paused = False
        self.log = []

    def pause_reading(self):
        self.paused = True
        self.log.append('pause')

    def resume_reading(self):
        self.paused = False
        self.log.append('resume')


def drive_case(pexpect, case, loop):
    """case: {'unicode', 'ops': [('await'|'blocking', kind, pats, w, events) | ('idle', text)]}; events: list of chunk | 'T' | 'E'"""
    from pexpect._async import PatternWaiter
    from pexpect.expect import Expecter, searcher_string, searcher_re
    sp, enc = H.make_spawn(pexpect, case['unicode'], [])
    pw = PatternWaiter()
    tr = FakeTransport()
    pw.connection_made(tr)
    pw.fut = loop.create_future()
    pw.fut.set_result(None)           # no call outstanding yet
    pw.expecter = None
    obs = []
    for op in case['ops']:
        if op[0] == 'idle':
            if pw.expecter is None:
                # before the first awaited call there is no waiter: the data simply stays in the OS; model it as pending for both
                sp._before.write(enc(op[1]))
                sp._buffer.write(enc(op[1]))
            else:
                pw.data_received(enc(op[1]).encode('latin-1') if case['unicode'] else enc(op[1]))
            obs.append([[], sp._before.getvalue(), sp._buffer.getvalue(), 0])
            continue
        mode, kind, pats, w, events = op
        plist = []
        for p in pats:
            if p == 'EOF':
                plist.append(pexpect.EOF)
            elif p == 'TIMEOUT':
                plist.append(pexpect.TIMEOUT)
            elif p[0] == 's':
                plist.append(enc(p[1]))
            else:
                plist.append(re.compile(enc(H.rx_src(p[1], enc)), re.DOTALL))
        events = list(events)
        o = {}
        if mode == 'blocking':
            sp.script = [e if e in ('T', 'E') else enc(e) for e in events]
            try:
                idx = (sp.expect_exact if kind == 'exact' else sp.expect_list)(plist, timeout=30, searchwindowsize=w)
                o['ret'] = idx
            except pexpect.EOF:
                o['exc'] = 'EOF'
            except pexpect.TIMEOUT:
                o['exc'] = 'TIMEOUT'
            left = len(sp.script)
            sp.script = []
        else:
            searcher = searcher_string(plist) if kind == 'exact' else searcher_re(plist)
            exp = Expecter(sp, searcher, w)
            # ---- the body of expect_async, with the event loop's deliveries made explicitly -----------------
            try:
                idx = exp.existing_data()
                if idx is None:
                    pw.set_expecter(exp)
                    pw.fut = loop.create_future()
                    tr.resume_reading()
                    while not pw.fut.done():
                        if not events:
                            raise RuntimeError('script exhausted during an awaited call')
                        e = events.pop(0)
                        if e == 'T':
                            tr.pause_reading()
                            pw.fut.cancel()
                            idx = exp.timeout(asyncio.TimeoutError())
                            break
                        if e == 'E':
                            pw.eof_received()
                        else:
                            raw = enc(e)
                            pw.data_received(raw.encode('latin-1') if case['unicode'] else raw)
                    else:
                        pass
                    if pw.fut.done() and not pw.fut.cancelled():
                        idx = pw.fut.result()
                o['ret'] = idx
            except pexpect.EOF:
                o['exc'] = 'EOF'
            except pexpect.TIMEOUT:
                o['exc'] = 'TIMEOUT'
            left = len(events)
        after = sp.after
        if 'ret' in o and after is pexpect.EOF:
            res = [1, [o['ret']], sp.before]
        elif 'ret' in o and after is pexpect.TIMEOUT:
            res = [2, [o['ret']], sp.before]
        elif 'ret' in o:
            span = list(sp.match.span()) if kind == 're' else [H.LAST_SEARCHER[0].start, H.LAST_SEARCHER[0].end] if mode == 'blocking' else [searcher.start, searcher.end]
            res = [0, o['ret'], sp.before, sp.after, span[0], span[1]]
        elif o['exc'] == 'EOF':
            res = [1, [], sp.before]
        else:
            res = [2, [], sp.before]
        obs.append([[res], sp._before.getvalue(), sp._buffer.getvalue(), left])
    return obs


def gen_case(rng):
    uni = rng.random() < 0.3
    alpha = 'ab\n'
    ops = []
    stream_so_far = ''
    for _ in range(rng.randint(1, 4)):
        if rng.random() < 0.25:
            d = ''.join(rng.choice(alpha) for _ in range(rng.randint(1, 4)))
            ops.append(('idle', d))
            stream_so_far += d
            continue
        mode = rng.choice(['await', 'await', 'blocking'])
        kind = 'exact' if rng.random() < 0.5 else 're'
        chunks = [''.join(rng.choice(alpha) for _ in range(rng.randint(1, 4))) for _ in range(rng.randint(0, 3))]
        stream_so_far += ''.join(chunks)
        pats = []
        for _ in range(rng.choice([1, 1, 2])):
            if kind == 'exact':
                src = stream_so_far if stream_so_far and rng.random() < 0.7 else 'ab'
                i = rng.randrange(len(src))
                pats.append(('s', src[i:i + rng.randint(1, 3)]))
            else:
                pats.append(('r', H.gen_rx(rng, stream_so_far, alpha)))
        for marker in ('EOF', 'TIMEOUT'):
            if rng.random() < 0.4:
                pats.insert(rng.randint(0, len(pats)), marker)
        events = chunks + [rng.choice(['T', 'T', 'E'])]
        w = rng.choice([None, None, 1, 2, 5])
        ops.append((mode, kind, pats, w, events))
    return {'unicode': uni, 'ops': ops}


def coq_case(case):
    out = []
    for op in case['ops']:
        if op[0] == 'idle':
            out.append('(AIdle %s, [])' % ctext(op[1]))
            continue
        mode, kind, pats, w, events = op
        cfg = '{| ckind := %s; pats := %s; W := %s |}' % ('KExact' if kind == 'exact' else 'KRe', clist([H.coq_entry(p) for p in pats]), copt(w, cnat))
        evs = clist([{'T': 'Timeout', 'E': 'Eof'}.get(e) if e in ('T', 'E') else '(Data %s)' % ctext(e) for e in events])
        out.append('(%s, %s)' % ('(ABlocking %s false)' % cfg if mode == 'blocking' else '(AAwait %s)' % cfg, evs))
    return clist(out)


def real_loop_parity(ctx, pexpect, n):
    """(B) real event loop: the same writes to two pipes, one read with awaited calls, one with blocking calls"""
    from pexpect import fdpexpect
    rng = ctx.rng
    tried = 0
    for it in range(n):
        uni = rng.random() < 0.4
        errors = rng.choice(['strict', 'replace', 'ignore'])
        E = (lambda s: s) if uni else (lambda s: s.encode())
        nsteps = rng.randint(2, 4)
        text = ''.join(rng.choice(['a', 'b', '\n', '1', 'é'] if uni else ['a', 'b', '\n', '1']) for _ in range(rng.randint(0, 4 * nsteps)))
        raw = text.encode('utf-8')
        truncated = False
        if uni and rng.random() < 0.3:
            raw += 'é'.encode('utf-8')[:1]          # the stream ends in the middle of a character
            truncated = True
        cuts = sorted(rng.randrange(len(raw) + 1) for _ in range(nsteps - 1))
        pieces, prev = [], 0
        for c_ in cuts + [len(raw)]:
            pieces.append(raw[prev:c_])
            prev = c_
        steps = []
        for k in range(nsteps):
            data = pieces[k]
            kind = rng.choice(['exact', 're'])
            if kind == 'exact':
                pat = [E(rng.choice(['a', 'ab', 'b\n', '1', 'zz'])), pexpect.TIMEOUT] if rng.random() < 0.7 else [E(rng.choice(['a', 'b1'])), pexpect.EOF, pexpect.TIMEOUT]
            else:
                pat = [E(rng.choice(['a+', 'b.', r'\d*', '$', 'a|b', '[ab]1', ''])), pexpect.TIMEOUT]
            # (data written before the call, close the writer before the call, let the event loop idle before the call)
            close_after = rng.random() < 0.15 or (truncated and k == nsteps - 1)
            # an abandoned call: the caller gives up on it (awaited: the coroutine is cancelled by an outer wait_for; blocking: it
            # times out); what arrives afterwards must be found by the next call all the same
            abandon = rng.random() < 0.2 and not close_after
            if abandon:
                pat = [p for p in pat if p is not pexpect.TIMEOUT]
            # how the call is made: entry point (expect compiles, expect_list takes compiled patterns), search window given /
            # None / left to the object's attribute, timeout given or left to the object's attribute
            entry = 'exact' if kind == 'exact' else rng.choice(['expect', 'expect', 'list'])
            kw = {}
            x = rng.random()
            if x < 0.2:
                kw['searchwindowsize'] = None
            elif x < 0.4:
                kw['searchwindowsize'] = rng.choice([1, 2, 3])
            if rng.random() < 0.7:
                kw['timeout'] = 0.15
            steps.append((data, kind, pat, close_after, rng.random() < 0.5 or abandon, abandon, entry, kw))
        attr_w = rng.choice([None, None, 1, 2])
        results = {}
        for how in ('blocking', 'await'):
            r, w = os.pipe()
            c = fdpexpect.fdspawn(r, timeout=5, encoding='utf-8' if uni else None, codec_errors=errors, searchwindowsize=attr_w)
            out = []

            def call(entry, pat, kw):
                if entry == 'exact':
                    return c.expect_exact(pat, **kw)
                if entry == 'list':
                    return c.expect_list([p if isinstance(p, type) else re.compile(p, re.DOTALL) for p in pat], **kw)
                return c.expect(pat, **kw)

            async def go():
                nonlocal w
                for data, kind, pat, close_after, idle, abandon, entry, kw in steps:
                    c.timeout = 5
                    if abandon:
                        try:
                            if how == 'await':
                                idx = await asyncio.wait_for(call(entry, pat, dict(kw, timeout=5, async_=True)), 0.1)
                            else:
                                idx = call(entry, pat, dict(kw, timeout=0.1))
                            out.append(('ret', idx, c.before, c.after if not isinstance(c.after, type) else c.after.__name__, c.buffer))
                        except (asyncio.TimeoutError, pexpect.TIMEOUT):
                            out.append(('abandoned',))
                        except pexpect.EOF:
                            out.append(('EOF', None, c.before, None, c.buffer))
                            break
                        if any(o[0] == 'EOF' or (o[0] == 'ret' and o[3] == 'EOF') for o in out):
                            break          # the property compares up to and including the first EOF
                    if data and w is not None:
                        os.write(w, data)
                    if close_after and w is not None:
                        os.close(w)
                        w = None
                    if idle:
                        # output (and possibly EOF) arrives while no call is outstanding
                        if how == 'await':
                            await asyncio.sleep(0.05)
                        else:
                            time.sleep(0.01)
                    c.timeout = 0.15           # what a call without its own timeout falls back on
                    try:
                        if how == 'await':
                            idx = await call(entry, pat, dict(kw, async_=True))
                        else:
                            idx = call(entry, pat, kw)
                        out.append(('ret', idx, c.before, c.after if not isinstance(c.after, type) else c.after.__name__, c.buffer))
                    except pexpect.EOF:
                        out.append(('EOF', None, c.before, None, c.buffer))
                    except pexpect.TIMEOUT:
                        out.append(('TIMEOUT', None, c.before, None, c.buffer))
                    except Exception as e:
                        out.append(('exc', repr(e)))
                        break
                    if any(o[0] == 'EOF' or (o[0] == 'ret' and o[3] == 'EOF') for o in out):
                        break          # the property compares up to and including the first EOF
            loop = asyncio.new_event_loop()
            try:
                asyncio.set_event_loop(loop)
                loop.run_until_complete(go())
            finally:
                try:
                    if c.async_pw_transport:
                        c.async_pw_transport[1].close()
                except Exception:
                    pass
                loop.run_until_complete(asyncio.sleep(0))
                loop.close()
                asyncio.set_event_loop(None)
                for fd in (r, w):
                    try:
                        if fd is not None:
                            os.close(fd)
                    except OSError:
                        pass
            results[how] = out
        tried += 1
        if results['blocking'] != results['await']:
            ctx.hit('C14/parity', 'same writes, same calls: blocking gives %r, awaited gives %r' % (results['blocking'], results['await']),
                    {'steps': [(repr(d), k, [p if isinstance(p, (str, bytes)) else p.__name__ for p in pat], cl, idle, ab, entry, repr(kw)) for d, k, pat, cl, idle, ab, entry, kw in steps],
                     'unicode': uni, 'codec_errors': errors, 'searchwindowsize_attr': attr_w})
            return
    ctx.oracle_stats['real_loop_scenarios'] = tried


def mixed_histories(ctx, pexpect, n):
    """(C) blocking and awaited calls MIXED on one object under a real event loop, the output of each step arriving before the
    call or a moment after it has started, with a timeout or without one (None): every step's outcome is known in advance - the
    marker is found, before is the text in front of it - whichever way each call is made"""
    import socket
    import threading
    from pexpect import fdpexpect, socket_pexpect
    rng = ctx.rng
    tried = 0
    for it in range(n):
        transport = rng.choice(['pipe', 'fdsocket', 'socket'])
        steps = [(rng.choice(['await', 'blocking']), ''.join(rng.choice('abc') for _ in range(rng.randint(0, 5))).encode(), rng.random() < 0.5,
                  rng.choice([None, None, 5])) for _ in range(rng.randint(2, 4))]
        if transport == 'pipe':
            r, w = os.pipe()
            c = fdpexpect.fdspawn(r, timeout=5)
            wr = lambda b: os.write(w, b)
            fds = [r, w]
            socks = []
        else:
            a, b = socket.socketpair()
            c = socket_pexpect.SocketSpawn(a, timeout=5) if transport == 'socket' else fdpexpect.fdspawn(a.fileno(), timeout=5)
            wr = b.sendall
            fds, socks = [], [a, b]
        out = []

        async def go():
            for mode, text, late, tmo in steps:
                data = text + b'#'
                th = None
                if late:
                    th = threading.Timer(0.08, wr, (data,))
                    th.start()
                else:
                    wr(data)
                try:
                    if mode == 'await':
                        idx = await c.expect_exact([b'#', pexpect.EOF], timeout=tmo, async_=True)
                    else:
                        idx = c.expect_exact([b'#', pexpect.EOF], timeout=tmo)
                    out.append((idx, c.before))
                except Exception as e:
                    out.append(('raised', repr(e)))
                    if th:
                        th.join()
                    return
                if th:
                    th.join()
        loop = asyncio.new_event_loop()
        try:
            asyncio.set_event_loop(loop)
            loop.run_until_complete(asyncio.wait_for(go(), 30))
        except Exception as e:
            out.append(('raised', repr(e)))
        finally:
            try:
                if c.async_pw_transport:
                    c.async_pw_transport[1].close()
            except Exception:
                pass
            loop.run_until_complete(asyncio.sleep(0))
            loop.close()
            asyncio.set_event_loop(None)
            for fd in fds:
                try:
                    os.close(fd)
                except OSError:
                    pass
            for s_ in socks:
                try:
                    s_.close()
                except OSError:
                    pass
        tried += 1
        want = [(0, text) for _, text, _, _ in steps]
        if out != want:
            ctx.hit('C14/mixed', '%s: calls %r (mode, text before the marker, output arrives after the call started, timeout): outcomes %r, expected %r'
                    % (transport, [(m, t, l, o) for m, t, l, o in steps], out, want), {'transport': transport, 'steps': [(m, list(t), l, o) for m, t, l, o in steps]})
            return
    ctx.oracle_stats['mixed_real_loop_histories'] = tried


def awaited_bound(ctx, pexpect):
    """last clause of C14: an awaited call with a timeout T is bounded by it - for every T, also 0 and values below 0 other than -1
    (the time is already up: e.g. a deadline minus now), whatever the object's own timeout attribute is.  A silent pipe."""
    from pexpect import fdpexpect
    tried = 0
    for T in (-7, -0.5, 0, 0.05, 0.3):
        for entry in ('expect', 'expect_exact', 'expect_list'):
            r, w = os.pipe()
            c = fdpexpect.fdspawn(r, timeout=6)
            res = {}

            async def go():
                t0 = time.time()
                try:
                    pat = [re.compile(b'zz')] if entry == 'expect_list' else [b'zz']
                    res['out'] = await getattr(c, entry)(pat, timeout=T, async_=True)
                except pexpect.TIMEOUT:
                    res['out'] = 'TIMEOUT'
                except Exception as e:
                    res['out'] = repr(e)
                res['t'] = time.time() - t0
            loop = asyncio.new_event_loop()
            try:
                asyncio.set_event_loop(loop)
                loop.run_until_complete(go())
            finally:
                try:
                    if c.async_pw_transport:
                        c.async_pw_transport[1].close()
                except Exception:
                    pass
                loop.run_until_complete(asyncio.sleep(0))
                loop.close()
                asyncio.set_event_loop(None)
                for fd in (r, w):
                    try:
                        os.close(fd)
                    except OSError:
                        pass
            tried += 1
            if res.get('out') != 'TIMEOUT' or res['t'] > max(T, 0) + 2.0:
                ctx.hit('C14/bound', 'awaited %s(timeout=%r) on a silent pipe (the object\'s own timeout is 6): outcome %r after %.2f s'
                        % (entry, T, res.get('out'), res.get('t', -1)), {'timeout': T, 'entry': entry})
                return
    ctx.oracle_stats['awaited_bound_calls'] = tried


def run(ctx):
    pexpect = common.preflight()
    thorough = ctx.tier == 'thorough'
    H.install_recorder(pexpect)
    ctx.trusted += ['Coq 8.16.1 kernel (coqc); vm_compute evaluates model cases; no native_compute',
                    'hand-written Async/Model.v (an awaited call = the blocking loop on the same events; data arriving while no call is outstanding is appended to both buffers) on top of Expect/Model.v, tied to the code by job pw-driven: the real Expecter + PatternWaiter methods called in the order the event loop would call them',
                    'asyncio itself (scheduling, wait_for cancellation, transports) is NOT modelled: the real expect(..., async_=True) is compared with the blocking call on twin pipes under a real event loop (job B, sampled)']
    ctx.assumptions += ['asyncio delivers data_received / eof_received / the wait_for timeout as modelled; "an awaited call with a timeout is bounded by it" is asyncio.wait_for\'s guarantee',
                        'parity is claimed up to and including the first EOF']
    ok = ctx.build('Props/C14.v', extra=['Async/Run.v'])
    rng = ctx.rng
    cases = []
    nhit = 0
    loop = asyncio.new_event_loop()
    try:
        for it in range(20000 if thorough else 2500):
            case = gen_case(rng)
            try:
                obs = drive_case(pexpect, case, loop)
            except Exception as e:
                if nhit < 3:
                    nhit += 1
                    ctx.hit('C14/raises', 'driving the PatternWaiter raised %r' % (e,), {'case': repr(case)})
                continue
            cases.append((coq_case(case), obs, case))
    finally:
        loop.close()
    if os.path.exists(os.path.join(common.COQ, 'Async/Run.vo')):
        ctx.run_cases('pw-driven', ['Base.Rx', 'Expect.Model', 'Expect.Run', 'Async.Model', 'Async.Run'], 'run_async', 'list (aop rx * list ev)', cases, shard=300)
    else:
        ctx.corr_broken.append(('pw-driven', {'error': 'model did not build'}))
    real_loop_parity(ctx, pexpect, 200 if thorough else 30)
    mixed_histories(ctx, pexpect, 150 if thorough else 25)
    awaited_bound(ctx, pexpect)


def replay(ctx, path):
    print(json.dumps(json.load(open(path)), indent=1)[:4000])
    return 1
