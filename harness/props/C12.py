"""C12 run(): the real run() loop on a scripted transport vs the Coq model; direct oracle: output = what was read."""
import json
import os
import types

from .. import common
from ..common import ctext, clist, copt, cnat
from .. import expect_hist as H

FINISH = dict(level='proof', rule='event tables (list or dict; regex patterns built around substrings of the stream, EOF/TIMEOUT as event keys; responses string / function / method '
              'returning a string, True or None / an invalid object) x streams with arbitrary chunking, TIMEOUT and EOF events x bytes/unicode; the REAL pexpect.run() loop is executed '
              'with its spawn class replaced by a scripted transport; output, strings sent, pending text, events left and stop kind compared with the model; distinct = distinct model inputs')


class Holder:
    def method_none(self, d):
        return None


EXTRA = {'token': 7}


def state_dict_oracle(log):
    """every callback sees event_count = the number of events handled before it, the spawn object as child and the caller's
    extra_args (the entries of the state dictionary the documentation names)"""
    events_before = 0
    pending_cb_send = False
    for e in log:
        if e[0] == 'send':
            if pending_cb_send:
                pending_cb_send = False          # the string a callback returned: same event
            else:
                events_before += 1               # a string response
        else:
            _, count, returns_str, child_ok, extra_ok = e
            if count != events_before:
                return 'a callback was told event_count=%r, %d events had been handled before it' % (count, events_before)
            if not child_ok:
                return 'the state dictionary\'s child is not the spawn object'
            if not extra_ok:
                return 'the state dictionary\'s extra_args is not what the caller passed'
            events_before += 1
            pending_cb_send = returns_str
    return None


def run_real(pexpect, case):
    import sys
    import pexpect.run
    runmod = sys.modules['pexpect.run']
    from pexpect.spawnbase import SpawnBase
    enc = (lambda s: s) if case['unicode'] else (lambda s: s.encode('latin-1'))
    sent = []
    box = {}

    class Fake(SpawnBase):
        def __init__(self, command, timeout=30, maxread=2000, logfile=None, cwd=None, env=None, **kw):
            SpawnBase.__init__(self, timeout=timeout, maxread=maxread, logfile=logfile,
                               searchwindowsize=kw.get('searchwindowsize'),
                               encoding='latin-1' if case['unicode'] else None)
            self.script = [e if e in ('T', 'E', 'X') else enc(e) for e in case['script']]
            self.consumed = []
            self.delayafterread = None
            self.exitstatus = 7
            box['child'] = self
            box['ctor'] = dict(command=command, timeout=timeout, maxread=maxread, logfile=logfile, cwd=cwd, env=env, kw=sorted(kw))

        def read_nonblocking(self, size=1, timeout=None):
            if not self.script:
                raise pexpect.EOF('script exhausted')
            ev = self.script.pop(0)
            if ev == 'T':
                raise pexpect.TIMEOUT('scripted')
            if ev == 'E':
                raise pexpect.EOF('scripted')
            if ev == 'X':
                raise OSError(5, 'scripted')
            self.consumed.append(ev)
            return ev

        def send(self, s):
            sent.append(s)
            box.setdefault('log', []).append(('send',))
            return len(s)

        def close(self, force=True):
            box['closed'] = True

        def __str__(self):
            return '<fake>'

    h = Holder()
    events = []
    for pat, resp in case['events']:
        if pat == 'EOF':
            p = pexpect.EOF
        elif pat == 'TIMEOUT':
            p = pexpect.TIMEOUT
        else:
            p = enc(H.rx_src(pat[1], enc))
        if resp[0] == 'send':
            r = enc(resp[1])
        elif resp[0] == 'cb':
            v = resp[1]
            val = enc(v[1]) if v[0] == 'str' else (True if v[0] == 'true' else (None if v[0] == 'none' else 0))
            if resp[2] == 'method' and v[0] == 'none':
                r = h.method_none
            else:
                def mk(val_):
                    def cb(d):
                        # what the callback is told: the documented entries of the state dictionary
                        box.setdefault('log', []).append(('cb', d.get('event_count'), isinstance(val_, (str, bytes)), d.get('child') is box.get('child'),
                                                          d.get('extra_args') is EXTRA))
                        return val_
                    return cb
                r = mk(val)
        else:
            r = 12345
        events.append((p, r))
    ev_arg = dict(events) if case['as_dict'] else events
    if not case['events']:
        ev_arg = None
    real_spawn = runmod.spawn
    runmod.spawn = Fake
    out = None
    try:
        try:
            kw = {'encoding': 'latin-1'} if case['unicode'] else {}
            if case.get('window') is not None:
                kw['searchwindowsize'] = case['window']          # handed on to the spawn object
            # the other arguments of run() are the caller's: timeout (a number, None = never, -1 / not given = the default of
            # spawn), logfile, cwd, env must reach the spawn object as given
            pt = case.get('passthru') or {}
            if 'timeout' in pt:
                kw['timeout'] = pt['timeout']
            for k_ in ('logfile', 'cwd', 'env'):
                if k_ in pt:
                    kw[k_] = PASS_OBJECTS[k_]
            res = runmod.run('cmd', events=ev_arg, withexitstatus=case['withexit'], extra_args=EXTRA, **kw)
            if case['withexit']:
                out, status = res
                box['status'] = status
            else:
                out = res
            kind = 'ret'
        except TypeError:
            kind = 'TypeError'
        except OSError:
            kind = 'OSError'
    finally:
        runmod.spawn = real_spawn
    return kind, out, sent, box


class _Log:
    def write(self, s):
        pass

    def flush(self):
        pass


PASS_OBJECTS = {'logfile': _Log(), 'cwd': '/some/where', 'env': {'A': 'b'}}


def passthru_oracle(case, box):
    pt = case.get('passthru') or {}
    ctor = box.get('ctor')
    if ctor is None:
        return None
    want_t = 30 if pt.get('timeout', -1) == -1 else pt['timeout']
    if ctor['timeout'] != want_t or box['child'].timeout != want_t:
        return 'run(timeout=%r): the spawn object was created with timeout %r (its timeout attribute is %r), expected %r' % (
            pt.get('timeout', 'not given'), ctor['timeout'], box['child'].timeout, want_t)
    for k_ in ('logfile', 'cwd', 'env'):
        want = PASS_OBJECTS[k_] if k_ in pt else None
        if ctor[k_] is not want:
            return 'run(%s=%r): the spawn object was created with %s=%r' % (k_, want, k_, ctor[k_])
    if ctor['maxread'] != 2000:
        return 'run(): the spawn object was created with maxread=%r' % (ctor['maxread'],)
    return None


def gen_case(rng):
    uni = rng.random() < 0.3
    alpha = 'ab\n'
    n = rng.randint(0, 12)
    stream = ''.join(rng.choice(alpha) for _ in range(n))
    script, i = [], 0
    while i < n:
        k = rng.choice([1, 2, 3, 5])
        script.append(stream[i:i + k])
        i += k
    out = []
    for ch in script:
        r = rng.random()
        if r < 0.15:
            out.append('T')
        out.append(ch)
    r = rng.random()
    if r < 0.3:
        out += ['T']
    elif r < 0.5:
        out += ['T', 'T', 'T']
    elif r < 0.6:
        out += ['E']
    elif r < 0.63:
        out += ['X']
    events = []
    keys = set()
    as_dict = rng.random() < 0.3
    allow_dup = not as_dict          # a list may name the same pattern twice: the first entry answers
    for _ in range(rng.choice([0, 1, 1, 2, 2, 3, 4])):
        x = rng.random()
        if allow_dup and events and rng.random() < 0.25:
            pat = rng.choice(events)[0]
        elif x < 0.15:
            pat = 'EOF'
        elif x < 0.35:
            pat = 'TIMEOUT'
        else:
            pat = ('r', H.gen_rx(rng, stream, alpha))
        key = pat if isinstance(pat, str) else H.rx_src(pat[1], None)
        if key in keys and not allow_dup:
            continue
        keys.add(key)
        y = rng.random()
        if y < 0.35:
            resp = ('send', ''.join(rng.choice('xyz\n') for _ in range(rng.randint(0, 3))))
        elif y < 0.93:
            v = rng.choice([('str', 'go\n'), ('true',), ('none',), ('none',), ('zero',)])
            if pat in ('EOF',) and v[0] != 'true' and rng.random() < 0.8:
                v = ('true',)               # an EOF event that never stops would loop forever (outside the property)
            resp = ('cb', v, rng.choice(['function', 'method']))
        else:
            resp = ('bad',)
        events.append((pat, resp))
    if len(stream) >= 3 and rng.random() < 0.15:
        # a family of literal events answered by distinct strings, some nested in or overlapping others (an event listed later may
        # start earlier and end later): each occurrence must be answered once, by its own response
        events = []
        i0 = rng.randrange(len(stream) - 2)
        l0 = rng.randint(i0 + 3, min(len(stream), i0 + 6))
        j0 = rng.randint(i0 + 1, l0 - 2)
        k0 = rng.randint(j0 + 1, l0 - 1)
        fam = [stream[j0:k0], stream[i0:l0]]
        if rng.random() < 0.5:
            fam.append(stream[rng.randrange(len(stream)):][:rng.randint(1, 3)])
        if rng.random() < 0.3:
            fam.reverse()
        for t_ in fam:
            if t_ and all(t_ != H.rx_src(e[0][1], None) for e in events):
                events.append((('r', H.lit(t_)), ('send', 'r%d;' % len(events))))
        as_dict = False
    # a regex that can match the empty string together with a non-stopping response loops forever: exclude
    return {'unicode': uni, 'script': out, 'events': events, 'as_dict': as_dict, 'withexit': rng.random() < 0.3,
            'window': rng.choice([None, None, None, 1, 2, 3, 6]),
            'passthru': dict([('timeout', rng.choice([30, -1, None, 7, 300]))] * (rng.random() < 0.7)
                             + [(k_, True) for k_ in ('logfile', 'cwd', 'env') if rng.random() < 0.2])}


def loops_forever(case):
    import re
    for pat, resp in case['events']:
        stops = resp[0] == 'cb' and resp[1][0] == 'true' or resp[0] == 'bad'
        if stops:
            continue
        if pat == 'EOF':
            return True
        if pat != 'TIMEOUT':
            try:
                if re.compile(H.rx_src(pat[1], None), re.DOTALL).search('') is not None or re.compile(H.rx_src(pat[1], None), re.DOTALL).match('') is not None:
                    return True
            except re.error:
                return True
            # patterns that can match empty text anywhere
            if re.compile(H.rx_src(pat[1], None), re.DOTALL).search('zzz') and re.compile(H.rx_src(pat[1], None), re.DOTALL).search('zzz').group(0) == '':
                return True
    return False


def _is_literal(r):
    return r[0] == 'eps' or (r[0] == 'seq' and r[1][0] == 'chr' and _is_literal(r[2]))


def _lit_text(r):
    out = ''
    while r[0] == 'seq':
        out += r[1][1]
        r = r[2]
    return out


def coq_case(case):
    evs = []
    for pat, resp in case['events']:
        p = 'PEof' if pat == 'EOF' else ('PTimeout' if pat == 'TIMEOUT' else '(PRe %s)' % H.rx_coq(pat[1]))
        if resp[0] == 'send':
            r = '(RSend %s)' % ctext(resp[1])
        elif resp[0] == 'cb':
            v = resp[1]
            r = '(RCall %s)' % ('(CbStr %s)' % ctext(v[1]) if v[0] == 'str' else ('CbTrue' if v[0] == 'true' else 'CbFalse'))
        else:
            r = 'RBad'
        evs.append('(%s, %s)' % (p, r))
    tr = [{'T': 'Timeout', 'E': 'Eof', 'X': 'Err'}.get(e) if e in ('T', 'E', 'X') else '(Data %s)' % ctext(e) for e in case['script']]
    return '(%s, %s, %s)' % (copt(case.get('window'), cnat), clist(evs), clist(tr))


def chatty_child_stops(ctx, pexpect):
    """real children that never stop talking, in blocks the size of run()'s reads and in small pieces: run(timeout=T) still stops
    at T, hands back what was written until then (a prefix of the child's output, each piece once), and a TIMEOUT event fires"""
    import sys
    import time
    for block, pause in ((2000, 0.05), (7, 0.01)):
        prog = ("import os,sys,time\nb=(b'0123456789'*200)[:%d]\nt0=time.time()\nwhile time.time()-t0<8:\n    os.write(1,b); time.sleep(%r)\n" % (block, pause))
        fired = []
        t0 = time.time()
        try:
            out = pexpect.run(sys.executable + " -c '" + prog.replace("'", '"') + "'", timeout=1, events={pexpect.TIMEOUT: lambda d: fired.append(1) or True})
        except Exception as e:
            ctx.hit('C12/chatty', 'run() on a child writing %d-byte blocks raised %r' % (block, e), {'block': block})
            return
        took = time.time() - t0
        unit = (b'0123456789' * 200)[:block]
        want = (unit * (len(out) // block + 2))[:len(out)]
        if took > 4 or not fired or out != want:
            ctx.hit('C12/chatty', 'run(timeout=1) on a child that writes a %d-byte block every %.2f s for 8 s: returned after %.1f s, the TIMEOUT event fired %d times, output %s'
                    % (block, pause, took, len(fired), 'is a prefix of what the child wrote' if out == want else 'is NOT a prefix of what the child wrote'), {'block': block})
            return
    ctx.oracle_stats['chatty_children'] = 2


def split_character_children(ctx, pexpect):
    """real children in text mode (encoding given) whose output has a multi-byte character cut by a pause - so that the reads of
    run() are short and end in the middle of the character: the returned text is still the decoding of the whole output, the event
    on the text behind the character is answered once, the exit status is the child's (the clause "complete output" over every
    way the kernel may cut the stream into reads; found missing by seeded change C12-m)"""
    import sys
    fixed = [(b'name: caf\xc3', b'\xa9 ok\n', 'utf-8', 'strict'), (b'\xe2\x98', b'\x83 ok\n', 'utf-8', 'replace'), (b'a\xf0\x9f', b'\x98\x80b ok\n', 'utf-8', 'ignore'),
             (b'x\xe9', b'y ok\n', 'latin-1', 'strict')]
    done = 0
    for first, second, codec, errors in fixed:
        prog = "import os,time\nos.write(1,%r); time.sleep(0.25)\nos.write(1,%r); time.sleep(0.05)\nraise SystemExit(7)\n" % (first, second)
        want = (first + second).decode(codec).replace('\n', '\r\n')
        fired = []
        try:
            out, status = pexpect.run(sys.executable + " -c '" + prog.replace("'", '"') + "'", timeout=10, withexitstatus=True, encoding=codec, codec_errors=errors,
                                      events=[('ok', lambda d: fired.append(d.get('event_count')) or None)])
        except Exception as e:
            ctx.hit('C12/split-character', 'run(encoding=%r, codec_errors=%r) on a child writing %r, pausing, then %r raised %r' % (codec, errors, first, second, e),
                    {'first': repr(first), 'second': repr(second), 'codec': codec, 'errors': errors})
            return
        done += 1
        if out != want or status != 7 or len(fired) != 1:
            ctx.hit('C12/split-character', 'run(encoding=%r, codec_errors=%r) on a child writing %r, pausing, then %r and exiting with 7: returned %r (the output is %r), exit status %r, the event on "ok" fired %d times'
                    % (codec, errors, first, second, out, want, status, len(fired)), {'first': repr(first), 'second': repr(second), 'codec': codec, 'errors': errors})
            return
    ctx.oracle_stats['split_character_children'] = done


def run(ctx):
    pexpect = common.preflight()
    thorough = ctx.tier == 'thorough'
    ctx.trusted += ['Coq 8.16.1 kernel (coqc); vm_compute evaluates model cases; no native_compute',
                    'hand-written model Run/Model.v of the loop of run() on top of Expect/Model.v, tied to the code by job run-loop: the real run() executes with its spawn class replaced by a scripted transport',
                    'theorems rest on C01 (conservation) / C03 (refinement) of the Expecter model; regex engine law: a match does not end before it starts']
    ctx.assumptions += ['the child process, its exit status and close() are outside this model (exit status: C09)',
                        'an EOF event or an empty-matching pattern whose response never stops the run loops forever in the code; the theorem holds for every number of iterations, such event tables are excluded from the generated cases']
    ok = ctx.build('Props/C12.v', extra=['Run/Run.v'])
    rng = ctx.rng
    cases = []
    arg_cases = []
    nhit = 0
    kinds = {}
    n = 30000 if thorough else 4000
    big = []
    for k in (1999, 2000, 2001):
        # an event pattern straddling two reads of the size of maxread, and one whose match spans more than maxread characters
        big.append({'unicode': False, 'script': ['x' * k + 'a', 'b' + 'y' * 1999, 'T'], 'as_dict': False, 'withexit': False,
                    'events': [(('r', H.lit('ab')), ('send', 'ok\n')), ('TIMEOUT', ('cb', ('true',), 'function'))]})
    big.append({'unicode': False, 'script': ['BEGIN' + 'z' * 2500, 'GO:', 'T'], 'as_dict': False, 'withexit': False,
                'events': [(('r', ('seq', H.lit('BEGIN'), ('seq', ('star', ('any',)), H.lit('GO:')))), ('send', 'go\n')),
                           ('TIMEOUT', ('cb', ('true',), 'function'))]})
    for it in range(n):
        case = big.pop() if big else gen_case(rng)
        if loops_forever(case):
            continue
        kind, out, sent, box = run_real(pexpect, case)
        child = box['child']
        enc = (lambda s: s) if case['unicode'] else (lambda s: s.encode('latin-1'))
        consumed = enc('').join(child.consumed)
        # direct oracle: the output is what was read, each piece once
        bad = None
        if kind == 'ret':
            pending = child.buffer
            if not (out == consumed or out + pending == consumed):
                bad = 'run() returned %r but the child wrote %r (still pending: %r)' % (out, consumed, pending)
            if case['withexit'] and (box.get('status') != 7 or not box.get('closed')):
                bad = 'withexitstatus: returned status %r, child closed=%r' % (box.get('status'), box.get('closed'))
        if not bad and kind == 'ret' and case.get('window') is None:      # (a search window may legitimately hide an occurrence)
            # every event a literal pattern answered by a string: the responses, in order, are those of the naive procedure
            # "after each read, answer the leftmost occurrence (first listed on ties) in the pending text, drop the text up to its
            # end, look again" - each occurrence answered once, by ITS response
            evs_ = case['events']
            if evs_ and all(isinstance(p, tuple) and r[0] == 'send' and _is_literal(p[1]) and _lit_text(p[1]) for p, r in evs_):
                lits_ = [(enc(_lit_text(p[1])), enc(r[1])) for p, r in evs_]
                pend, want_sent = enc(''), []
                for chunk in child.consumed:
                    pend += chunk
                    while True:
                        best = None
                        for t, resp in lits_:
                            i = pend.find(t)
                            if i >= 0 and (best is None or i < best[0]):
                                best = (i, t, resp)
                        if best is None:
                            break
                        want_sent.append(best[2])
                        pend = pend[best[0] + len(best[1]):]
                if list(sent) != want_sent:
                    bad = 'events %r on the reads %r: the responses sent were %r, each occurrence answered once in order gives %r' % (
                        [(t, r) for t, r in lits_], child.consumed[:12], list(sent), want_sent)
        if not bad:
            bad = passthru_oracle(case, box)
        if box.get('ctor') is not None and len(arg_cases) < 400:
            pt_ = case.get('passthru') or {}
            g = pt_.get('timeout', -1)
            t_ = box['ctor']['timeout']
            arg_cases.append(('None' if g == -1 else ('(Some None)' if g is None else '(Some (Some (%d)%%Z))' % g),
                              [] if t_ is None else [t_], {'timeout_given': repr(pt_.get('timeout', 'not given'))}))
        if not bad and not any(r[0] == 'cb' and r[2] == 'method' for _, r in case['events']):
            bad = state_dict_oracle(box.get('log', []))
        if bad and nhit < 3:
            nhit += 1
            ctx.hit('C12/output', bad, {'case': case, 'output': repr(out), 'sent': repr(sent)})
        # stop kind as the model names it
        if kind == 'TypeError':
            stop = 3
        elif kind == 'OSError':
            stop = 4
        else:
            if not child.script and child.after is pexpect.EOF or child.after is pexpect.EOF:
                stop = 0
            elif child.after is pexpect.TIMEOUT:
                stop = 1
            else:
                stop = 2
        kinds[stop] = kinds.get(stop, 0) + 1
        if kind == 'ret' and len(cases) < (15000 if thorough else 2500):
            cases.append((coq_case(case), [out, [s for s in sent], child._before.getvalue(), len(child.script), stop], case))
    ctx.oracle_stats.update({'runs': n, 'stop_kinds': kinds})
    if os.path.exists(os.path.join(common.COQ, 'Run/Run.vo')):
        ctx.run_cases('run-loop', ['Base.Rx', 'Expect.Model', 'Run.Model', 'Run.Run'], 'run_case', 'option nat * list (entry rx * resp) * list ev', cases, shard=300)
        ctx.run_cases('run-args', ['Run.Model', 'Run.Run'], 'run_args', 'option (option Z)', arg_cases, shard=400)
    else:
        ctx.corr_broken.append(('run-loop', {'error': 'model did not build'}))
    chatty_child_stops(ctx, pexpect)
    split_character_children(ctx, pexpect)


def replay(ctx, path):
    pexpect = common.preflight()
    d = json.load(open(path))['replay']
    if 'case' not in d:                      # a real-child oracle (chatty / split-character): run those oracles again
        chatty_child_stops(ctx, pexpect)
        split_character_children(ctx, pexpect)
        for h in ctx.hits:
            print(h)
        return 1 if ctx.hits else 0
    case = d['case']
    case['events'] = [(p if isinstance(p, str) else ('r', _t(p[1])), _t(r)) for p, r in case['events']]
    kind, out, sent, box = run_real(pexpect, case)
    print(case)
    print('kind', kind, 'output', out, 'sent', sent, 'consumed', box['child'].consumed, 'pending', box['child'].buffer)
    return 1


def _t(x):
    return tuple(_t(e) for e in x) if isinstance(x, list) else x
