"""C13 Launch fidelity: K-gen of split_command_line + proofs, which() correspondence, launch probe."""
import itertools
import json
import os
import shutil
import stat
import sys
import tempfile

from .. import common
from ..common import V, ctext, clist, copt, cbool, cnat

sys.path.insert(0, os.path.join(common.VERIF, 'gen'))

FINISH = dict(level='proof', rule='split: all strings over the alphabet [space,tab,\',",\\,a,b] up to a length bound + '
              'seeded random longer ones incl. non-ASCII; which: seeded random (filename, env PATH, os PATH, executable set); '
              'distinct = distinct model inputs')

ALPHA = [' ', '\t', "'", '"', '\\', 'a', 'b']
WIDE = ALPHA + ['é', '　', '\n', 'c']


def quote(style, a):
    if style == 'BS':
        return ''.join('\\' + c for c in a)
    if style == 'SQ':
        return "'" + a.replace("'", "'\\''") + "'"
    return '"' + a + '"'


def oracle_roundtrip(ctx, pexpect, n):
    """direct property oracle on the real code: quote + join + split == argv"""
    from pexpect.utils import split_command_line
    rng = ctx.rng
    ws = [' ', '\t', '  ', ' \t ', '\n', '　']
    tried = 0
    cases = []
    # small exhaustive part: 1-2 args of length 1-2 over ALPHA, every style, lead/trail in {'', ' '}
    small_args = [''.join(p) for k in (1, 2) for p in itertools.product(ALPHA, repeat=k)]
    for a in small_args:
        for st in ('BS', 'SQ', 'DQ'):
            if st == 'DQ' and '"' in a:
                continue
            for lead in ('', ' ', '\t '):
                for trail in ('', ' '):
                    cases.append(([a], [st], [], lead, trail))
    for _ in range(n):
        k = rng.randint(1, 4)
        args = [''.join(rng.choice(WIDE) for _ in range(rng.randint(1, 5))) for _ in range(k)]
        styles = []
        for a in args:
            c = ['BS', 'SQ'] + ([] if '"' in a else ['DQ'])
            styles.append(rng.choice(c))
        seps = [rng.choice(ws) for _ in range(k - 1)]
        cases.append((args, styles, seps, rng.choice(['', ' ', '\t', ' \t']), rng.choice(['', ' ', '\n'])))
    for args, styles, seps, lead, trail in cases:
        parts = [quote(s, a) for s, a in zip(styles, args)]
        cmd = lead
        for i, p in enumerate(parts):
            cmd += p
            if i < len(seps):
                cmd += seps[i]
        cmd += trail
        tried += 1
        try:
            got = split_command_line(cmd)
        except Exception as e:
            got = 'raised %r' % (e,)
        if got != args:
            ctx.hit('C13/split-roundtrip', 'split_command_line(%r) = %r, expected argv %r' % (cmd, got, args),
                    {'call': 'pexpect.utils.split_command_line', 'command_line': cmd, 'expected': args, 'got': got})
            break
    ctx.oracle_stats['split_roundtrip_cases'] = tried


def split_corr(ctx, pexpect, maxlen, nrand):
    from pexpect.utils import split_command_line
    cases = []
    strings = [''.join(p) for k in range(0, maxlen + 1) for p in itertools.product(ALPHA, repeat=k)]
    for _ in range(nrand):
        strings.append(''.join(ctx.rng.choice(WIDE) for _ in range(ctx.rng.randint(maxlen + 1, 14))))
    for s in strings:
        try:
            got = split_command_line(s)
        except Exception as e:
            got = [['!' + type(e).__name__]]
        cases.append((ctext(s), got, {'command_line': s}))
    ctx.run_cases('split-corr', ['Gen.SplitCmd'], 'fun c => vlist vtext (split c)', 'list N', cases)


def isspace_corr(ctx):
    pts = [c for c in range(0x110000) if chr(c).isspace()]
    ctx.run_cases('isspace', ['Base.Chars'], 'fun _ : unit => vlist vN space_points', 'unit',
                  [('tt', pts, {'all_code_points_with_isspace': len(pts)})])


def which_corr(ctx, pexpect, n):
    import pexpect.utils as U
    rng = ctx.rng
    names = ['x', 'prog', 'd/x', '/abs/x', './x', 'x/']
    dirs = ['/a', '/b', 'rel', '', '/a/', '.', '/c']
    cases = []
    real_env = os.environ
    real_is = U.is_executable_file
    try:
        for i in range(n):
            f = rng.choice(names)
            def mkpath():
                r = rng.random()
                if r < 0.15:
                    return None
                if r < 0.3:
                    return ''
                return ':'.join(rng.choice(dirs) for _ in range(rng.randint(1, 4)))
            envp = mkpath()
            env = None if rng.random() < 0.4 else ({} if envp is None else {'PATH': envp})
            osp = mkpath()
            cand = set()
            for d in dirs + ['/usr/bin', '/bin'] + os.defpath.split(':'):
                cand.add(os.path.join(d, f))
            cand.add(f)
            execs = sorted(c for c in cand if rng.random() < 0.3)
            U.is_executable_file = lambda p, _e=frozenset(execs): p in _e
            U.os.environ = {} if osp is None else {'PATH': osp}
            try:
                got = U.which(f, env=env)
            finally:
                U.os.environ = real_env
            if os.path.dirname(f) and f in execs and got != f and not ctx.hits:
                ctx.hit('C13/which-explicit', 'which(%r, env=%r): the command names a path that is an executable file, yet the answer is %r (os PATH %r, executables %r)'
                        % (f, env, got, osp, execs), {'filename': f, 'env': env, 'os_PATH': osp, 'executables': execs})
            envc = 'None' if env is None else '(Some %s)' % copt(env.get('PATH'), ctext)
            inp = '(%s, %s, %s, %s, %s)' % (ctext(f), envc, copt(osp, ctext), clist([ctext(e) for e in execs]),
                                           ctext(os.defpath))
            cases.append((inp, common.opt(got), {'filename': f, 'env': env, 'os_PATH': osp, 'executables': execs}))
    finally:
        U.is_executable_file = real_is
        U.os.environ = real_env
    ctx.run_cases('which-corr', ['Split.Which'], 'which_case',
                  'text * option (option text) * option text * list text * text', cases)


def argv_encoding(ctx, pexpect):
    """arguments given as text to an object with an encoding: what is handed to ptyprocess IS the requested argument in that
    encoding - or the launch is refused; a tolerant codec_errors policy (meant for the child's OUTPUT) must not start the child
    with arguments other than the requested ones"""
    import pexpect.pty_spawn as ps
    rec = {}

    class FakeProc:
        pid, fd = 4242, 987
        closed = True

    def fake_spawnpty(self, args, **kw):
        rec['args'] = list(args)
        return FakeProc()
    real = ps.spawn._spawnpty
    ps.spawn._spawnpty = fake_spawnpty
    tried = 0
    try:
        for enc in ('utf-8', 'ascii', 'latin-1', 'utf-16-le'):
            for errors in ('strict', 'replace', 'ignore'):
                for arg in ('plain', 'na\u00efve', '\u03bb x', 'a\u20acb'):
                    rec.clear()
                    try:
                        c = pexpect.spawn(sys.executable, ['-c', 'pass', arg], encoding=enc, codec_errors=errors)
                        c.closed = True
                    except UnicodeError:
                        tried += 1
                        continue
                    got = rec['args'][-1]
                    tried += 1
                    try:
                        back = got.decode(enc) if isinstance(got, bytes) else got
                    except UnicodeError:
                        back = None
                    if back != arg:
                        ctx.hit('C13/argv-encoding', 'spawn(..., [%r], encoding=%r, codec_errors=%r) handed %r to the child: that is not the requested argument'
                                % (arg, enc, errors, got), {'arg': arg, 'encoding': enc, 'codec_errors': errors})
                        return
    finally:
        ps.spawn._spawnpty = real
    ctx.oracle_stats['argv_encoding_cases'] = tried


def launch_prep(ctx, pexpect, n):
    """job spawn-prep: the REAL pexpect.spawn(...) constructor with _spawnpty replaced by a recorder: argv, name and keyword
    arguments handed to ptyprocess against Launch/Model.v (executability and PATH scripted as in which-corr)"""
    import pexpect.utils as U
    import pexpect.pty_spawn as ps
    rng = ctx.rng
    names = ['x', 'prog', 'd/x', '/abs/x', './x']
    dirs = ['/a', '/b', 'rel', '', '/a/', '.', '/c']
    words = ['x', 'prog', 'd/x', '/abs/x', 'a b', 'it\'s', 'q"q', '-l', 'back\\slash', 'é']
    cases = []
    real_env, real_is, real_spawnpty = os.environ, U.is_executable_file, ps.spawn._spawnpty
    rec = {}

    class FakeProc:
        pid, fd = 4242, 987
        closed = True

    def fake_spawnpty(self, args, **kw):
        rec['args'], rec['kw'] = list(args), dict(kw)
        return FakeProc()
    ps.spawn._spawnpty = fake_spawnpty
    try:
        for i in range(n):
            def mkpath():
                r = rng.random()
                if r < 0.15:
                    return None
                if r < 0.25:
                    return ''
                return ':'.join(rng.choice(dirs) for _ in range(rng.randint(1, 3)))
            envp, osp = mkpath(), mkpath()
            env = None if rng.random() < 0.4 else ({} if envp is None else {'PATH': envp})
            argv = [rng.choice(names)] + [rng.choice(words) for _ in range(rng.randint(0, 3))]
            mode = rng.random()
            if mode < 0.5:
                def q(a):
                    style = rng.choice('bsd')
                    if style == 's':
                        return "'" + a.replace("'", "'\\''") + "'"
                    if style == 'd' and '"' not in a:
                        return '"' + a + '"'
                    return ''.join('\\' + c for c in a)
                command, args = rng.choice(['', ' ', '\t']) + rng.choice([' ', '  ', '\t']).join(q(a) for a in argv) + rng.choice(['', ' ']), []
            elif mode < 0.6:
                command, args = rng.choice(['', '   ', '\t\n']), []
            else:
                command, args = argv[0], argv[1:] or [rng.choice(words)]
            cand = set()
            first = argv[0]
            for d in dirs + os.defpath.split(':'):
                cand.add(os.path.join(d, first))
            cand.add(first)
            execs = sorted(c for c in cand if rng.random() < 0.35)
            echo = rng.random() < 0.5
            dims = None if rng.random() < 0.5 else (rng.randint(1, 60), rng.randint(1, 200))
            hup = rng.random() < 0.5
            pre = (lambda: None) if rng.random() < 0.3 else None
            U.is_executable_file = lambda p, _e=frozenset(execs): p in _e
            U.os.environ = {} if osp is None else {'PATH': osp}
            rec.clear()
            cwd = rng.choice([None, '/tmp'])
            args_before = list(args)
            try:
                try:
                    c = pexpect.spawn(command, args, env=env, cwd=cwd, echo=echo, dimensions=dims, ignore_sighup=hup, preexec_fn=pre)
                    if args != args_before:
                        ctx.hit('C13/caller-args-modified', 'spawn(%r, args) changed the caller\'s argument list from %r to %r (the next launch with it gets another argv)' % (command, args_before, args),
                                {'command': command, 'args': args_before})
                    c.closed = True
                    res = [0, [a for a in rec['args']], c.name]
                    kw = rec['kw']
                    pf = kw.get('preexec_fn')
                    wrapper = pf is not None and getattr(pf, '__name__', '') == 'preexec_wrapper'
                    kobs = [kw.get('echo'), None if 'dimensions' not in kw else [list(kw['dimensions'])], wrapper, (pf is pre) if not wrapper else pre is not None]
                    if pre is None and not wrapper:
                        kobs[3] = False
                    if kw.get('env') is not env or kw.get('cwd') is not cwd:
                        ctx.hit('C13/launch-passthrough', 'spawn(env=%r, cwd=%r) handed env=%r cwd=%r to ptyprocess' % (env, cwd, kw.get('env'), kw.get('cwd')), {})
                except IndexError:
                    res, kobs = [1], None
                except pexpect.ExceptionPexpect as e:
                    msg = str(e)
                    res, kobs = [2, msg.split('executable: ', 1)[1][:-1] if 'executable: ' in msg else msg], None
            finally:
                U.os.environ = real_env
            if kobs is None:
                kobs = [echo, None if dims is None else [list(dims)], hup, pre is not None]
            envc = 'None' if env is None else '(Some %s)' % copt(env.get('PATH'), ctext)
            inp = '(%s, %s, %s, %s, %s, %s, %s, %s, %s, %s)' % (
                ctext(command), clist([ctext(a) for a in args]), envc, copt(osp, ctext), clist([ctext(e) for e in execs]), ctext(os.defpath),
                cbool(echo), copt(dims, lambda d: '(%s, %s)' % (cnat(d[0]), cnat(d[1]))), cbool(hup), cbool(pre is not None))
            cases.append((inp, [res, kobs], {'command': command, 'args': args, 'env': env, 'os_PATH': osp, 'executables': execs}))
    finally:
        U.is_executable_file = real_is
        U.os.environ = real_env
        ps.spawn._spawnpty = real_spawnpty
    ctx.run_cases('spawn-prep', ['Split.Which', 'Launch.Model', 'Launch.Run'], 'launch_case',
                  'list N * list (list N) * option (option (list N)) * option (list N) * list (list N) * list N * bool * option (nat * nat) * bool * bool', cases)


def oracle_which_layouts(ctx, pexpect):
    """real file-system layouts: first executable regular file (or symlink to one) on the effective PATH"""
    from pexpect.utils import which, is_executable_file
    base = tempfile.mkdtemp(prefix='c13', dir=ctx.work)
    tried = 0
    try:
        d = {}
        for n in 'abcd':
            d[n] = os.path.join(base, n)
            os.mkdir(d[n])
        def mk(p, mode=0o755):
            open(p, 'w').write('#!/bin/sh\n')
            os.chmod(p, mode)
        os.mkdir(os.path.join(d['a'], 'tool'))                 # a directory shadowing the name
        mk(os.path.join(d['b'], 'tool'), 0o644)                # non-executable file
        os.symlink(os.path.join(d['d'], 'tool'), os.path.join(d['c'], 'tool'))   # symlink to executable
        mk(os.path.join(d['d'], 'tool'))
        os.symlink(os.path.join(base, 'nowhere'), os.path.join(d['b'], 'dangling'))
        exp_c = os.path.join(d['c'], 'tool')
        exp_d = os.path.join(d['d'], 'tool')
        checks = [
            (('tool', {'PATH': ':'.join([d['a'], d['b'], d['c'], d['d']])}), exp_c),
            (('tool', {'PATH': ':'.join([d['d'], d['c']])}), exp_d),
            (('tool', {'PATH': ':'.join([d['a'], d['b']])}), None),
            (('dangling', {'PATH': d['b']}), None),
            ((exp_d, {'PATH': ''}), exp_d),
            ((os.path.join(d['b'], 'tool'), {'PATH': d['d']}), None),
            (('tool', {'PATH': d['a'] + '::' + d['d']}), exp_d),
        ]
        # env PATH must win over os.environ PATH; missing/empty PATH means os.defpath
        old = os.environ.get('PATH')
        os.environ['PATH'] = d['d']
        try:
            checks2 = [(('tool', {'PATH': d['c']}), exp_c), (('tool', None), exp_d),
                       (('tool', {}), None), (('tool', {'PATH': ''}), None),
                       (('sh', {}), 'DEFPATH')]
            for (f, env), want in checks + checks2:
                tried += 1
                got = which(f, env=env)
                if want == 'DEFPATH':
                    want = next((os.path.join(p, f) for p in os.defpath.split(':')
                                 if is_executable_file(os.path.join(p, f))), None)
                if got != want:
                    ctx.hit('C13/which-layout', 'which(%r, env=%r) = %r, expected %r' % (f, env, got, want),
                            {'call': 'pexpect.utils.which', 'filename': f, 'env': env, 'got': got, 'expected': want,
                             'layout': 'a/tool is a directory, b/tool not executable, c/tool -> d/tool (executable), b/dangling broken symlink; os PATH=d'})
                    break
        finally:
            if old is None:
                del os.environ['PATH']
            else:
                os.environ['PATH'] = old
    finally:
        shutil.rmtree(base, ignore_errors=True)
    ctx.oracle_stats['which_layout_checks'] = tried


PROBE = r'''
import sys, os, json, signal, termios, struct, fcntl
r = {"argv": sys.argv[1:], "cwd": os.getcwd(), "env": {k: os.environ.get(k) for k in ("C13_A", "C13_B", "PATH", "HOME", "C13_PARENT_ONLY")}, "nenv": len(os.environ)}
try:
    r["winsize"] = list(struct.unpack("HHHH", fcntl.ioctl(0, termios.TIOCGWINSZ, b"\0" * 8))[:2])
    r["echo"] = bool(termios.tcgetattr(0)[3] & termios.ECHO)
except Exception as e:
    r["winsize"] = None; r["echo"] = None
r["sighup_ignored"] = signal.getsignal(signal.SIGHUP) == signal.SIG_IGN
sys.stdout.write("<<" + json.dumps(r) + ">>\n"); sys.stdout.flush()
'''


def oracle_launch(ctx, pexpect, n):
    """a probe child reports what it sees: argv, cwd, environment, window size, echo, SIGHUP disposition"""
    import re
    rng = ctx.rng
    cwd = tempfile.mkdtemp(prefix='c13cwd', dir=ctx.work)
    tried = 0
    try:
        configs = []
        for i in range(n):
            args = [''.join(rng.choice(WIDE[:7] + ['é', 'c']) for _ in range(rng.randint(1, 4))) for _ in range(rng.randint(0, 3))]
            configs.append(dict(args=args, dims=(rng.randint(1, 60), rng.randint(1, 200)), echo=rng.random() < 0.5,
                                sighup=rng.random() < 0.5, env=rng.random() < 0.6, cwd=rng.random() < 0.6,
                                via_cmdline=rng.random() < 0.5))
        for cf in configs:
            tried += 1
            env = None
            if cf['env']:
                env = {'C13_A': 'v%d' % tried, 'PATH': os.environ.get('PATH', ''), 'HOME': '/nonexistent'}
            kw = dict(cwd=cwd if cf['cwd'] else None, env=env, dimensions=cf['dims'], echo=cf['echo'],
                      ignore_sighup=cf['sighup'], timeout=30, encoding='utf-8')
            if cf['via_cmdline']:
                cmd = ' '.join([sys.executable, '-c', quote('SQ', PROBE)] +
                               [quote(rng.choice(['BS', 'SQ']), a) for a in cf['args']])
                child = pexpect.spawn(cmd, **kw)
            else:
                child = pexpect.spawn(sys.executable, ['-c', PROBE] + cf['args'], **kw)
            try:
                child.expect(pexpect.EOF)
                out = child.before
            finally:
                child.close()
            m = re.search(r'<<(.*)>>', out, re.S)
            rep = json.loads(m.group(1)) if m else None
            want = {'argv': cf['args'], 'cwd': os.path.realpath(cwd) if cf['cwd'] else os.getcwd(),
                    'winsize': list(cf['dims']), 'echo': cf['echo'], 'sighup_ignored': cf['sighup']}
            bad = None
            if rep is None:
                bad = 'no report from probe child: %r' % out[:200]
            else:
                for k, v in want.items():
                    if rep.get(k) != v and not (k == 'cwd' and os.path.realpath(rep.get(k, '')) == v):
                        bad = '%s: child saw %r, requested %r' % (k, rep.get(k), v)
                        break
                if not bad and env is not None and (rep['env'].get('C13_A') != env['C13_A'] or rep['env'].get('HOME') != '/nonexistent'
                                                    or rep['env'].get('C13_B') is not None):
                    bad = 'environment: child saw %r, requested %r' % (rep['env'], env)
            if bad:
                ctx.hit('C13/launch', 'spawn launch fidelity: ' + bad, {'config': cf, 'report': rep})
                break
        # PopenSpawn: cwd / env / argv
        from pexpect.popen_spawn import PopenSpawn
        for k_pop, cf in enumerate(configs[:max(2, n // 3)]):
            cf = dict(cf, env=cf['env'] or k_pop == 0)
            tried += 1
            # the requested environment is the WHOLE environment of the child: a variable only the parent has must not show up
            os.environ['C13_PARENT_ONLY'] = 'leak'
            env = {'C13_A': 'p%d' % tried, 'PATH': os.environ.get('PATH', os.defpath), 'HOME': '/nonexistent'} if cf['env'] else None
            try:
                p = PopenSpawn([sys.executable, '-c', PROBE] + cf['args'], cwd=cwd if cf['cwd'] else None, env=env,
                               timeout=30, encoding='utf-8')
            finally:
                del os.environ['C13_PARENT_ONLY']
            p.expect(pexpect.EOF)
            m = re.search(r'<<(.*)>>', p.before, re.S)
            rep = json.loads(m.group(1)) if m else None
            p.wait()
            bad = None
            if rep is None:
                bad = 'no report'
            elif rep['argv'] != cf['args']:
                bad = 'argv %r != %r' % (rep['argv'], cf['args'])
            elif cf['cwd'] and os.path.realpath(rep['cwd']) != os.path.realpath(cwd):
                bad = 'cwd %r != %r' % (rep['cwd'], cwd)
            elif env is not None and (rep['env'].get('C13_A') != env['C13_A'] or rep['env'].get('C13_PARENT_ONLY') is not None or rep['env'].get('HOME') != '/nonexistent'):
                bad = 'environment: the child saw C13_A=%r HOME=%r C13_PARENT_ONLY=%r, requested exactly %r' % (rep['env'].get('C13_A'), rep['env'].get('HOME'), rep['env'].get('C13_PARENT_ONLY'), env)
            if bad:
                ctx.hit('C13/launch-popen', 'PopenSpawn launch fidelity: ' + bad, {'config': cf, 'report': rep})
                break
        if not any(h[0] == 'C13/launch-popen' for h in ctx.hits):
            popen_string_commands(ctx, pexpect, n)
    finally:
        shutil.rmtree(cwd, ignore_errors=True)
    ctx.oracle_stats['launch_probe_children'] = tried


def popen_string_commands(ctx, pexpect, n):
    """PopenSpawn given a command STRING: it is split by the POSIX shell rules (shlex), so quoting any list of non-empty arguments
    in any of the three POSIX styles (single quotes, double quotes with \\" and \\\\ escaped, a backslash before every special
    character) and joining them with blanks yields exactly that argv.  Many argument lists through an interposed Popen (what
    PopenSpawn hands to subprocess), a few through a real child."""
    import json
    import re
    import shlex
    import pexpect.popen_spawn as pp
    from pexpect.popen_spawn import PopenSpawn
    rng = ctx.rng
    alpha = ['a', 'b', ' ', '\t', "'", '"', '\\', 'é', '$', '*', '#']

    def quote(a, style):
        if style == 'single':
            return shlex.quote(a)
        if style == 'double':
            return '"' + a.replace('\\', '\\\\').replace('"', '\\"') + '"'
        return ''.join(c if c.isalnum() else '\\' + c for c in a)
    seen = []

    class FakePopen:
        def __init__(self, cmd, **kw):
            seen.append(cmd)
            r, w = os.pipe()
            os.close(w)
            self.stdout = os.fdopen(r, 'rb', 0)
            self.stdin = open(os.devnull, 'wb')
            self.pid = 1
            self.returncode = 0

        def poll(self):
            return 0

        def wait(self, *a):
            return 0
    saved = pp.subprocess.Popen
    tried = 0
    try:
        for it in range(60 * n):
            real = it < 4
            args = [''.join(rng.choice(alpha) for _ in range(rng.randint(1, 5))) for _ in range(rng.randint(0, 4))]
            style = rng.choice(['single', 'double', 'backslash'])
            lead, trail = rng.choice(['', ' ', '\t ']), rng.choice(['', ' ', ' \t'])
            tail = ''.join(rng.choice([' ', '  ', '\t']) + quote(a, rng.choice([style, style, 'single', 'double', 'backslash'])) for a in args)
            if real:
                cmd = lead + shlex.quote(sys.executable) + ' -c ' + shlex.quote(PROBE) + tail + trail
                p = PopenSpawn(cmd, timeout=30, encoding='utf-8')
                p.expect(pexpect.EOF)
                m = re.search(r'<<(.*)>>', p.before, re.S)
                got = json.loads(m.group(1))['argv'] if m else None
                p.wait()
            else:
                pp.subprocess.Popen = FakePopen
                del seen[:]
                cmd = lead + 'prog' + tail + trail
                try:
                    p = PopenSpawn(cmd, timeout=5)
                    p.expect(pexpect.EOF)
                finally:
                    pp.subprocess.Popen = saved
                got = seen[0][1:] if seen and isinstance(seen[0], list) and seen[0][:1] == ['prog'] else seen[:1]
            tried += 1
            if got != args:
                ctx.hit('C13/launch-popen', 'PopenSpawn(%r): the child %s argv %r, the quoted arguments were %r' % (cmd, 'saw' if real else 'would get', got, args),
                        {'cmd': cmd, 'args': args, 'style': style, 'real_child': real})
                return
    finally:
        pp.subprocess.Popen = saved
    ctx.oracle_stats['popen_string_commands'] = tried


def oracle_spawn_lookup(ctx, pexpect):
    """spawn() itself must search the EFFECTIVE path: the env argument's PATH when env is given (os.defpath when
    that env has no / an empty PATH), the parent's PATH only when no env is given"""
    base = tempfile.mkdtemp(prefix='c13lk', dir=ctx.work)
    tried = 0
    old = os.environ.get('PATH')
    try:
        d1, d2 = os.path.join(base, 'parent'), os.path.join(base, 'envdir')
        for d, mark in ((d1, 'PARENT'), (d2, 'ENVDIR')):
            os.mkdir(d)
            p = os.path.join(d, 'c13tool')
            open(p, 'w').write('#!/bin/sh\necho MARK-%s\n' % mark)
            os.chmod(p, 0o755)
        os.environ['PATH'] = d1 + os.pathsep + (old or os.defpath)
        cases = [(None, 'PARENT'), ({'LANG': 'C'}, None), ({'PATH': ''}, None), ({'PATH': d2}, 'ENVDIR'),
                 ({'PATH': d2 + os.pathsep + d1}, 'ENVDIR'), ({'PATH': base + os.pathsep + d2}, 'ENVDIR')]
        for env, want in cases:
            tried += 1
            got = None
            try:
                child = pexpect.spawn('c13tool', env=env, timeout=20, encoding='utf-8')
                try:
                    child.expect(pexpect.EOF)
                    out = child.before
                finally:
                    child.close()
                got = 'PARENT' if 'MARK-PARENT' in out else ('ENVDIR' if 'MARK-ENVDIR' in out else 'ran:' + out[:60])
            except pexpect.ExceptionPexpect as e:
                got = None
            if got != want:
                ctx.hit('C13/spawn-lookup', "spawn('c13tool', env=%r) with parent PATH starting with a directory that has c13tool: "
                        'started %r, the effective PATH selects %r' % (env, got, want),
                        {'env': env, 'started': got, 'expected': want})
                break
    finally:
        if old is None:
            os.environ.pop('PATH', None)
        else:
            os.environ['PATH'] = old
        shutil.rmtree(base, ignore_errors=True)
    ctx.oracle_stats['spawn_lookup_cases'] = tried


def run(ctx):
    pexpect = common.preflight()
    thorough = ctx.tier == 'thorough'
    import split_translate
    ctx.trusted += [
        'Coq 8.16.1 kernel (coqc); vm_compute used for evaluating model cases; no native_compute',
        'translator /verif/gen/split_translate.py (Python ast -> Gallina; fail-closed), cross-checked by job split-corr',
        'Base/Chars.v isspace table (checked against CPython on all code points by job isspace)',
        'Split/Which.v: hand-written model of which(); is_executable_file / os.path.join / exec+fork are CPython, ptyprocess and the kernel (exercised by the launch probe, not proved)',
        'correspondence harness (Python) and Coq printing/parsing of mismatch reports',
    ]
    ctx.assumptions += ['str.isspace() of CPython is the table in Base/Chars.v (validated exhaustively this run)',
                        'launch part (cwd/env/winsize/echo/SIGHUP) is decided by ptyprocess + kernel: observed with probe children, not proved']
    ok_gen = ctx.regenerate('Gen/SplitCmd.v', lambda: split_translate.generate(common.REPO))
    proofs_ok = ctx.build('Props/C13.v', extra=['Launch/Run.v']) if ok_gen else False
    # correspondence: only meaningful when the generated model at least compiles
    gen_vo = os.path.exists(os.path.join(common.COQ, 'Gen/SplitCmd.vo'))
    if ok_gen and gen_vo:
        isspace_corr(ctx)
        split_corr(ctx, pexpect, 5 if thorough else 4, 20000 if thorough else 1500)
    which_vo = os.path.exists(os.path.join(common.COQ, 'Split/Which.vo'))
    if which_vo:
        which_corr(ctx, pexpect, 20000 if thorough else 2000)
        if os.path.exists(os.path.join(common.COQ, 'Launch/Run.vo')):
            launch_prep(ctx, pexpect, 10000 if thorough else 1500)
    broken = bool(ctx.proof_broken or ctx.corr_broken)
    # direct oracle (larger budget when a proof or the correspondence broke: search for the failing input)
    oracle_roundtrip(ctx, pexpect, (200000 if thorough else 20000) * (3 if broken else 1))
    oracle_which_layouts(ctx, pexpect)
    oracle_spawn_lookup(ctx, pexpect)
    oracle_launch(ctx, pexpect, 40 if thorough else 8)
    argv_encoding(ctx, pexpect)


def replay(ctx, path):
    pexpect = common.preflight()
    d = json.load(open(path))
    r = d.get('replay', {})
    if r.get('call') == 'pexpect.utils.split_command_line':
        from pexpect.utils import split_command_line
        got = split_command_line(r['command_line'])
        print('split_command_line(%r) = %r ; property expects %r' % (r['command_line'], got, r['expected']))
        return 0 if got == r['expected'] else 1
    if r.get('call') == 'pexpect.utils.which':
        print('layout-dependent: re-run ./check C13; recorded:', json.dumps(r))
        return 1
    print(json.dumps(d, indent=1)[:4000])
    return 1
