"""C04 (Expecter): see harness/expect_props.py"""
from .. import expect_props

FINISH = dict(level='proof', rule=expect_props.RULE)


def run(ctx):
    expect_props.run_property(ctx, 'C04', 'Props/C04.v')


def replay(ctx, path):
    return expect_props.replay(ctx, path, 'C04')
