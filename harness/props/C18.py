"""C18 ANSI emulator: K-gen transition table + typing/totality/shape/chunking theorems, correspondence ansi-seqs,
direct oracles (never raises, shape, no residue, chunk independence incl. bytes with cuts inside characters)."""
import json
import os
import sys

from .. import common
from ..common import cZ, clist, ctext

sys.path.insert(0, os.path.join(common.VERIF, 'gen'))

FINISH = dict(level='proof', rule='inputs = sequences of terminal commands (printables, CR/LF/BS, every escape sequence the table knows with parameters from '
              '{0,1,in-range,=size,>size,10^6, long digit strings}, unknown / truncated sequences, stray ESC) on screens 1x1..4x5 and 24x80, fed whole and cut into pieces at '
              'arbitrary points, as str and as utf-8 / latin-1 bytes (cuts inside multi-byte characters, also malformed sequences); distinct = distinct model inputs')

STATE_IDS = {'INIT': 0, 'ESC': 1, 'G0SCS': 2, 'G1SCS': 3, 'GRAPHICS_POUND': 4, 'ELB': 5, 'MODECRAP': 6, 'MODECRAP_NUM': 7,
             'NUMBER_1': 8, 'SEMICOLON': 9, 'NUMBER_2': 10, 'SEMICOLON_X': 11, 'NUMBER_X': 12}
SIZES = [(1, 1), (1, 3), (2, 2), (3, 1), (3, 4), (4, 5)]


def gen_params(rng, rows, cols):
    return str(rng.choice([0, 1, 2, rows - 1, rows, rows + 1, cols, cols + 1, 1000000, 7, 10 ** 30]))


def gen_command(rng, rows, cols):
    x = rng.random()
    p = lambda: gen_params(rng, rows, cols)
    if x < 0.30:
        # characters are cells one by one: also combining marks, a base letter followed by its mark, conjoining jamo, characters
        # with a canonical equivalent - nothing may fold, reorder or rewrite them, whichever way the input is cut
        return ''.join(rng.choice(['a', 'b', 'c', 'X', 'Y', 'Z', ' ', 'é', '☃', 'e\u0301', '\u0301', 'A\u030a', '\u1100\u1161', '\u2329', '\u212b', 'ﬁ'])
                       for _ in range(rng.randint(1, 4)))
    if x < 0.40:
        return rng.choice(['\r', '\n', '\x08', '\r\n', '\t', '\x00', '\x7f'])
    if x < 0.50:
        return '\x1b[' + rng.choice('HDBCAJKrm')
    if x < 0.65:
        return '\x1b[' + p() + rng.choice('DBCAJKlmq')
    if x < 0.75:
        return '\x1b[' + p() + ';' + p() + rng.choice('Hfrmq')
    if x < 0.80:
        return '\x1b[' + ';'.join(p() for _ in range(rng.randint(3, 5))) + rng.choice('mqH')
    if x < 0.85:
        return '\x1b' + rng.choice(['7', '8', 'M', '>', '<', '=', '#3', '#x', '(A', '(B', ')0', '(x', ')'])
    if x < 0.90:
        return '\x1b[?' + p() + rng.choice('lhx')
    if x < 0.95:     # truncated / unknown / stray
        return rng.choice(['\x1b', '\x1b[', '\x1b[5', '\x1b[5;', '\x1b[5;6', '\x1b[5;6;', '\x1b[x', '\x1b[5x', '\x1b[5;x', '\x1b[?x', '\x1bZ',
                           '\x1b\x1b', '\x1b[\x1b', '\x1b[1\x1b[2'])
    return '\x1b[' + rng.choice(['0;0r', '2;1r', '9;9r', '1;1r', '0J', '1J', '2J', '0K', '1K', '2K', '3J', '5K'])


def snapshot(t):
    return [[[ord(ch) for ch in row] for row in t.w], t.cur_r, t.cur_c, t.cur_saved_r, t.cur_saved_c, t.scroll_row_start, t.scroll_row_end]


def observe(t):
    return [snapshot(t), STATE_IDS.get(t.state.current_state, 99), [m for m in t.state.memory[1:]]]


def check_shape(t, rows, cols):
    if len(t.w) != rows or any(len(r) != cols for r in t.w) or any((not isinstance(ch, str)) or len(ch) != 1 for r in t.w for ch in r):
        return 'grid is not %dx%d single characters' % (rows, cols)
    if not (1 <= t.cur_r <= rows and 1 <= t.cur_c <= cols):
        return 'cursor (%r,%r) off screen' % (t.cur_r, t.cur_c)
    if t.state.current_state == 'INIT' and t.state.memory != [t]:
        return 'parser residue in INIT: %r' % (t.state.memory[1:],)
    return None


def plain_text_oracle(ctx, ANSI, n):
    """the clauses of C18_plain_text_is_emitted / C18_ordinary_character asked of the real terminal: after any completed history,
    text without ESC = write_ch character by character, parser in INIT, memory untouched; an ordinary character left of the last
    column changes exactly the cursor's cell and moves the cursor one column right"""
    rng = ctx.rng
    done = 0
    for it in range(n):
        rows, cols = rng.choice(SIZES + [(24, 80)])
        hist = ''.join(gen_command(rng, rows, cols) for _ in range(rng.randint(0, 5)))
        a, b = ANSI.ANSI(rows, cols), ANSI.ANSI(rows, cols)
        try:
            a.write(hist)
            b.write(hist)
        except Exception:
            continue                       # totality is the main loop's business
        if a.state.current_state != 'INIT':
            continue
        text = ''.join(rng.choice(['a', 'b', 'Z', ' ', '\r', '\n', '\x08', '[', ';', '0', 'H', '~', '!', 'é', '☃'])       # printables, CR, LF, BS, non-ASCII text: which other controls a terminal swallows is not C18's business
                       for _ in range(rng.randint(1, 2 * cols + 3)))
        a.write(text)
        for ch in text:
            b.write_ch(ch)
        done += 1
        if observe(a) != observe(b) or a.state.current_state != 'INIT' or a.state.memory != [a]:
            ctx.hit('C18/plain-text', 'ANSI(%d,%d) after %r: writing the ESC-free text %r differs from write_ch character by character (or leaves the parser outside INIT / with memory %r)'
                    % (rows, cols, hist, text, a.state.memory[1:]), {'rows': rows, 'cols': cols, 'history': hist, 'text': text})
            return
        if a.cur_c < cols:
            before = snapshot(a)
            r0, c0 = a.cur_r, a.cur_c
            ch = rng.choice('xyzQ#')
            a.write(ch)
            after = snapshot(a)
            exp_grid = [list(row) for row in before[0]]
            exp_grid[r0 - 1][c0 - 1] = ord(ch)
            if after[0] != exp_grid or (a.cur_r, a.cur_c) != (r0, c0 + 1) or after[3:7] != before[3:7]:
                ctx.hit('C18/ordinary-character', 'ANSI(%d,%d) after %r: writing %r at (%d,%d) did not change exactly that cell and move the cursor one column right (cursor now (%d,%d))'
                        % (rows, cols, hist + text, ch, r0, c0, a.cur_r, a.cur_c), {'rows': rows, 'cols': cols, 'history': hist + text, 'ch': ch})
                return
    ctx.oracle_stats['plain_text_vs_write_ch'] = done


def run(ctx):
    common.preflight()
    import warnings
    warnings.simplefilter('ignore')
    import ansi_table
    thorough = ctx.tier == 'thorough'
    ctx.trusted += [
        'Coq 8.16.1 kernel (coqc); vm_compute for the finite typing check of the generated table and for model cases; no native_compute',
        'generator /verif/gen/ansi_table.py: dumps the transition table from the live ANSI() object and reads pops/pushes/resets of each action from its ast (fail-closed; unknown state/action names break the Coq build)',
        'hand-written Ansi/Model.v (FSM.process, get_transition priority, action meanings, write_ch) on Screen/Model.v, tied to the code by job ansi-seqs (screen, cursor, parser state and parser memory compared)',
    ]
    ctx.assumptions += ['CSI parameters shorter than CPython\'s int() digit limit (4300 digits): longer ones raise ValueError in CPython (known finding K3, outside the theorem\'s model of int())',
                        'bytes input is decoded by the screen\'s incremental decoder before parsing: a Mealy machine in the theorems (Ansi/Bytes.v); utf-8 on well-formed streams and latin-1 are executed in Coq (job ansi-bytes), other codecs and malformed streams only on the real code',
                        'DoLog appends to ./log in the current directory (side effect outside the model; checks run in a private scratch directory)']
    os.chdir(ctx.work)
    ok_gen = ctx.regenerate('Gen/AnsiTable.v', lambda: ansi_table.generate(common.REPO))
    ok = ctx.build('Props/C18.v', extra=['Ansi/Run.v']) if ok_gen else False
    from pexpect import ANSI
    rng = ctx.rng
    cases = []
    bcases = []
    nhit = 0
    stats = {'final_state': {}, 'modes': {'str': 0, 'utf-8': 0, 'latin-1': 0}, 'chunked': 0}
    n = 60000 if thorough else 6000
    sizes = SIZES + [(24, 80)]
    for it in range(n):
        rows, cols = rng.choice(sizes)
        text = ''.join(gen_command(rng, rows, cols) for _ in range(rng.randint(1, 8)))
        mode = rng.choice(['str', 'str', 'utf-8', 'latin-1'])
        if mode == 'latin-1':
            text = ''.join(ch if ord(ch) < 256 else '~' for ch in text)
        data = text if mode == 'str' else text.encode(mode)
        wellformed = True
        if mode == 'utf-8' and rng.random() < 0.35:
            # malformed input: truncated / stray multi-byte sequences in between (the decoder replaces them); the text the
            # terminal is meant to see is the decoding of the whole input
            wellformed = False
            for _ in range(rng.randint(1, 3)):
                k = rng.randrange(len(data) + 1)
                data = data[:k] + rng.choice([b'\xe2', b'\xe2\x8c', b'\xc3', b'\xff', b'\x8c', b'\xf0\x9f']) + data[k:]
            import codecs
            text = codecs.getincrementaldecoder('utf-8')('replace').decode(data)          # a sequence still open at the end stays pending
        # cut points
        cuts = sorted(set(rng.randrange(len(data) + 1) for _ in range(rng.choice([0, 1, 2, 3, 5]))))
        pieces, prev = [], 0
        for c in cuts + [len(data)]:
            pieces.append(data[prev:c])
            prev = c
        kw = {} if mode == 'str' else {'encoding': mode}
        try:
            whole = ANSI.ANSI(rows, cols, **kw)
            whole.write(data)
            parts = ANSI.ANSI(rows, cols, **kw)
            for p in pieces:
                parts.write(p)
        except Exception as e:
            if nhit < 3:
                nhit += 1
                ctx.hit('C18/raises', 'ANSI(%d,%d).write raised %r on %r (pieces %r)' % (rows, cols, e, data, pieces),
                        {'rows': rows, 'cols': cols, 'mode': mode, 'data': repr(data), 'pieces': [repr(p) for p in pieces]})
            continue
        stats['modes'][mode] += 1
        stats['chunked'] += len(pieces) > 1
        stats['final_state'][whole.state.current_state] = stats['final_state'].get(whole.state.current_state, 0) + 1
        bad = check_shape(whole, rows, cols) or check_shape(parts, rows, cols)
        if not bad and observe(whole) != observe(parts):
            bad = 'feeding the input in pieces %r gives a different screen/cursor/parser state than feeding it at once' % (pieces,)
        if bad and nhit < 3:
            nhit += 1
            ctx.hit('C18/' + bad.split(':')[0].split(' ')[0], 'ANSI(%d,%d), input %r: %s' % (rows, cols, data, bad),
                    {'rows': rows, 'cols': cols, 'mode': mode, 'data': repr(data), 'pieces': [repr(p) for p in pieces]})
        if len(cases) < (20000 if thorough else 2500) and (rows, cols) != (24, 80):
            # the model is fed the decoded text, cut at the same places when the input was text
            chunks = pieces if mode == 'str' else [text]
            cases.append(('(%s, %s, %s)' % (cZ(rows), cZ(cols), clist([ctext(c) for c in chunks])), observe(parts),
                          {'rows': rows, 'cols': cols, 'text': text, 'mode': mode, 'pieces': [repr(p) for p in pieces]}))
            if mode != 'str' and wellformed and len(bcases) < (8000 if thorough else 1200):
                # the bytes path itself in the model: the same pieces of bytes through the model's incremental decoder and parser
                bcases.append(('(%s, %s, %s, %s)' % (cZ(rows), cZ(cols), common.cbool(mode == 'utf-8'), clist([ctext(p) for p in pieces])), observe(parts),
                               {'rows': rows, 'cols': cols, 'mode': mode, 'pieces': [repr(p) for p in pieces]}))
    plain_text_oracle(ctx, ANSI, 8000 if thorough else 1000)
    # known finding K3: a CSI parameter longer than CPython's int() limit
    try:
        t = ANSI.ANSI(3, 4)
        t.write('\x1b[' + '9' * 5000 + 'A')
    except ValueError:
        ctx.hit('C18/K3-int-digit-limit', 'CSI parameter of 5000 digits raises ValueError', {'input': 'ESC [ 9*5000 A'})
    ctx.oracle_stats.update({'inputs': n, 'distribution': stats})
    if os.path.exists(os.path.join(common.COQ, 'Ansi/Run.vo')):
        ctx.run_cases('ansi-seqs', ['Screen.Model', 'Ansi.Model', 'Ansi.Run'], 'run_ansi', 'Z * Z * list (list N)', cases, shard=250)
        ctx.run_cases('ansi-bytes', ['Screen.Model', 'Ansi.Model', 'Ansi.Run'], 'run_ansi_bytes', 'Z * Z * bool * list (list N)', bcases, shard=250)
    else:
        ctx.corr_broken.append(('ansi-seqs', {'error': 'model did not build'}))


def replay(ctx, path):
    common.preflight()
    import warnings
    warnings.simplefilter('ignore')
    from pexpect import ANSI
    os.chdir(ctx.work)
    d = json.load(open(path))['replay']
    print(json.dumps(d, indent=1)[:3000])
    data = eval(d['data'])
    kw = {} if d['mode'] == 'str' else {'encoding': d['mode']}
    try:
        whole = ANSI.ANSI(d['rows'], d['cols'], **kw)
        whole.write(data)
        parts = ANSI.ANSI(d['rows'], d['cols'], **kw)
        for p in d['pieces']:
            parts.write(eval(p))
    except Exception as e:
        print('raised', repr(e))
        return 1
    bad = check_shape(whole, d['rows'], d['cols']) or check_shape(parts, d['rows'], d['cols']) or (observe(whole) != observe(parts))
    print('violation:', bad)
    return 1 if bad else 0
