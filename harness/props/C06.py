"""C06 transport fidelity: kernel-endpoint model + theorems (Props/C06.v); correspondence read-sim (real read_nonblocking of pty/fd/socket
under scripted syscalls and peer schedules); direct oracles: conservation under the simulated kernel, real children on real
ptys/pipes/sockets/Popen with output sizes up to several hundred KB, and the placed race 'wait expires, child writes, child exits'."""
import json
import os
import signal
import socket
import sys
import time

from .. import common
from ..common import clist, cnat, cbool, ctext
from .. import transport_sim as T

FINISH = dict(level='proof', rule='(transport in {pty, fd, socket}, initial kernel buffer/open/alive, schedule of peer actions (write/exit/hang-up) placed before every system call of '
              'the reader + kernel read generosity, list of read_nonblocking(size, timeout 0 or >0) calls) drawn at random; the REAL read_nonblocking runs with its system calls answered '
              'by a Python copy of the kernel model; results, kernel state and schedule position compared with the Coq model after every call; distinct = distinct model inputs')

CHILD_LASTWORDS = r'''
import signal, os, sys, time
def h(s, f):
    os.write(1, b"LASTWORDS\n"); os._exit(0)
signal.signal(signal.SIGUSR1, h)
os.write(1, b"READY\n")
while True: time.sleep(10)
'''


SOCK_CASES = []


def sim_cases(ctx, pexpect, n):
    rng = ctx.rng
    cases = []
    nhit = 0
    dist = {'pty': 0, 'fd': 0, 'socket': 0, 'eof': 0, 'timeout': 0, 'data': 0}
    for it in range(n):
        which = rng.choice([0, 0, 1, 2])
        buf0 = bytes(rng.choice(b'xyz') for _ in range(rng.choice([0, 0, 1, 3, 6])))
        open0 = rng.random() < 0.9
        alive0 = open0 or rng.random() < 0.3
        calls = [(rng.choice([1, 2, 3, 5, 50]), rng.random() < 0.25) for _ in range(rng.randint(1, 5))]
        sched = T.gen_sched(rng, rng.randint(0, 6 * len(calls)))
        sim = T.Sim(buf0, open0, alive0, sched)
        use_poll = rng.random() < 0.4
        try:
            obs, c = T.run_calls(pexpect, which, sim, calls, use_poll)
        except Exception as e:
            if nhit < 3:
                nhit += 1
                ctx.hit('C06/raises', 'read_nonblocking raised %r under the simulated kernel' % (e,), {'which': which, 'buf0': list(buf0), 'sched': repr(sched), 'calls': calls})
            continue
        dist[['pty', 'fd', 'socket'][which]] += 1
        # direct oracle: conservation, size, EOF only when drained and the peer is gone
        written = b''
        k = T.Sim(buf0, open0, alive0, [])
        for acts, _ in sched[:len(sched) - len(sim.sched)]:
            for a in acts:
                if a[0] == 'w' and k.open and k.alive:
                    written += a[1]
                k._peer([a])
        delivered = b''.join(o[0][1] for o in obs if o[0][0] == 0)
        bad = None
        if delivered + sim.buf != buf0 + written:
            bad = 'returned data %r + still in the kernel %r != initially buffered %r + written by the peer %r' % (delivered, sim.buf, buf0, written)
        for (size, t0), o in zip(calls, obs):
            if o[0][0] == 0 and len(o[0][1]) > size:
                bad = 'a read of size %d returned %d bytes' % (size, len(o[0][1]))
            if o[0][0] == 1 and (o[1][0] or (o[1][1] and o[1][2])):
                bad = 'EOF reported while the kernel still held %r / the peer was still connected' % (o[1][0],)
            if o[0][0] == 3:
                bad = 'a read was attempted that would have blocked'
            dist[{0: 'data', 1: 'eof', 2: 'timeout'}.get(o[0][0], 'data')] += 1
        if which == 2 and c._verif_timeout_changed is not None:
            bad = "the socket's own timeout was %r after a read (the application had set it to %r before that read)" % (c._verif_timeout_changed[1], c._verif_timeout_changed[0])
        if bad and nhit < 3:
            nhit += 1
            ctx.hit('C06/sim-' + ['pty', 'fd', 'socket'][which], bad, {'transport': which, 'buf0': list(buf0), 'open': open0, 'alive': alive0,
                                                                       'sched': repr(sched), 'calls': calls, 'use_poll': use_poll,
                                                                       'observed': repr(obs)})
        inp = '(%s, %s, %s, %s)' % (cnat(which), T.coq_kern(buf0, open0, alive0), T.coq_sched(sched),
                                    clist(['(%s, %s)' % (cnat(s_), cbool(t_)) for s_, t_ in calls]))
        cases.append((inp, obs, {'transport': ['pty', 'fd', 'socket'][which], 'buf0': list(buf0), 'open': open0, 'alive': alive0,
                                 'sched': repr(sched), 'calls': calls}))
        if which == 2:
            owns = [T.SOCK_OWN_MS[i % len(T.SOCK_OWN_MS)] for i in range(len(calls))]
            sinp = '(%s, %s, %s, %s)' % (T.coq_kern(buf0, open0, alive0), T.coq_sched(sched),
                                         clist(['(%s, %s)' % (cnat(s_), cbool(t_)) for s_, t_ in calls]),
                                         clist(['None' if o is None else '(Some (%d)%%Z)' % o for o in owns]))
            SOCK_CASES.append((sinp, [[([] if a is None else [a]), [([] if v is None else [v]) for v in lg]] for a, lg in c._verif_sock],
                               {'calls': calls, 'sched': repr(sched)}))
    ctx.oracle_stats['simulated_kernel_runs'] = dict(dist)
    return cases


def sim_unicode(ctx, pexpect, n):
    """the same simulated endpoint with an encoding set on the spawn object: the peer's bytes are multi-byte characters cut anywhere
    by the reads.  Direct oracle: the texts returned, concatenated, are the decoding of the bytes taken from the kernel; EOF is
    reported only when the kernel holds nothing and the peer is gone - in particular never because a read delivered only the
    first bytes of a character"""
    import codecs
    rng = ctx.rng
    tried = 0
    chars = ['é'.encode(), '☃'.encode(), b'a', '😀'.encode()]
    for it in range(n):
        which = rng.choice([0, 1, 2])
        buf0 = b''.join(rng.choice(chars) for _ in range(rng.choice([0, 1, 2])))
        calls = [(rng.choice([1, 2, 3, 5, 50]), rng.random() < 0.25) for _ in range(rng.randint(1, 6))]
        # the peer writes whole characters or PIECES of one, the rest coming a moment later - possibly only after a read has timed out
        sched = T.gen_sched_unicode(rng, rng.randint(0, 6 * len(calls)))
        sim = T.Sim(buf0, True, True, sched)
        try:
            obs, c = T.run_calls(pexpect, which, sim, calls, rng.random() < 0.4, encoding='utf-8')
        except Exception as e:
            ctx.hit('C06/sim-unicode', 'read_nonblocking (utf-8) raised %r under the simulated kernel' % (e,), {'which': which, 'buf0': list(buf0), 'sched': repr(sched), 'calls': calls})
            return
        tried += 1
        written = b''
        k = T.Sim(buf0, True, True, [])
        for acts, _ in sched[:len(sched) - len(sim.sched)]:
            for a in acts:
                if a[0] == 'w' and k.open and k.alive:
                    written += a[1]
                k._peer([a])
        taken = (buf0 + written)[:len(buf0 + written) - len(sim.buf)]
        want = codecs.getincrementaldecoder('utf-8')('strict').decode(taken, False)
        got = ''.join(o[0][1] for o in obs if o[0][0] == 0)
        bad = None
        if got != want:
            bad = 'texts returned %r, but the bytes taken from the kernel %r decode to %r' % (got, taken, want)
        for o in obs:
            if o[0][0] == 1 and (o[1][0] or (o[1][1] and o[1][2])):
                bad = 'EOF reported while the kernel still held %r / the peer was still connected' % (o[1][0],)
        if bad:
            ctx.hit('C06/sim-unicode', '%s transport, utf-8: %s' % (['pty', 'fd', 'socket'][which], bad),
                    {'transport': which, 'buf0': list(buf0), 'sched': repr(sched), 'calls': calls, 'observed': repr(obs)})
            return
    ctx.oracle_stats['simulated_kernel_runs_unicode'] = tried


def real_children(ctx, pexpect, sizes, maxreads):
    """real kernel: everything the peer wrote arrives once, in order, before EOF, on all four transports"""
    from pexpect import fdpexpect, popen_spawn, socket_pexpect
    import threading
    tried = 0
    gen = r'''
import sys, os
n = int(sys.argv[1]); k = int(sys.argv[2])
data = (b"0123456789abcdefghijklmnopqrstuvwxyzABCDEFGHIJKLMNOPQRSTUVWXYZ-_" * (n // 64 + 1))[:n]
i = 0
while i < n:
    os.write(1, data[i:i+k]); i += k
'''
    def expected(n):
        return (b"0123456789abcdefghijklmnopqrstuvwxyzABCDEFGHIJKLMNOPQRSTUVWXYZ-_" * (n // 64 + 1))[:n]
    for n in sizes:
        for maxread in maxreads:
            k = ctx.rng.choice([1 if n < 3000 else 997, 997, 4096, 70000])
            for transport in ('pty', 'popen', 'fd', 'socket'):
                tried += 1
                want = expected(n)
                up = ctx.rng.random() < 0.5           # wait with poll() instead of select()
                try:
                    if transport == 'pty':
                        c = pexpect.spawn(sys.executable, ['-c', 'import tty,sys; tty.setraw(1)\n' + gen, str(n), str(k)], maxread=maxread, timeout=60, use_poll=up)
                        c.expect(pexpect.EOF)
                        got = c.before
                        c.close()
                    elif transport == 'popen':
                        c = popen_spawn.PopenSpawn([sys.executable, '-c', gen, str(n), str(k)], maxread=maxread, timeout=60)
                        if up:
                            c.wait()              # the application waits for the child first and reads what it wrote afterwards
                        c.expect(pexpect.EOF)
                        got = c.before
                        c.wait()
                    elif transport == 'fd':
                        r, w = os.pipe()
                        th = threading.Thread(target=lambda: (_write_all(w, want, k), os.close(w)))
                        th.start()
                        c = fdpexpect.fdspawn(r, maxread=maxread, timeout=60, use_poll=up)
                        c.expect(pexpect.EOF)
                        got = c.before
                        th.join()
                        c.close()
                    else:
                        a, b = socket.socketpair()
                        th = threading.Thread(target=lambda: (b.sendall(want), b.close()))
                        th.start()
                        a.settimeout(33.0)
                        c = socket_pexpect.SocketSpawn(a, maxread=maxread, timeout=60, use_poll=up)
                        c.expect(pexpect.EOF)
                        got = c.before
                        th.join()
                        if a.gettimeout() != 33.0:
                            ctx.hit('C06/socket-timeout', "socket's own timeout changed from 33.0 to %r" % (a.gettimeout(),), {'n': n})
                        c.close()
                except Exception as e:
                    ctx.hit('C06/real-' + transport, '%s transport (use_poll=%s), %d bytes, maxread %d: %r' % (transport, up, n, maxread, e), {'n': n, 'maxread': maxread, 'use_poll': up})
                    return tried
                if got != want:
                    i = next((j for j in range(min(len(got), len(want))) if got[j] != want[j]), min(len(got), len(want)))
                    ctx.hit('C06/real-' + transport, '%s transport: peer wrote %d bytes in pieces of %d, reads (maxread %d) returned %d bytes; first difference at offset %d'
                            % (transport, n, k, maxread, len(got), i), {'transport': transport, 'n': n, 'piece': k, 'maxread': maxread, 'use_poll': up})
                    return tried
    return tried


def popen_late_writer(ctx, pexpect):
    """PopenSpawn: the command exits at once, a background job of it still holds the pipe and writes later; the application calls
    wait() (which returns as soon as the command itself has exited) and reads afterwards: the stream ends when the LAST writer is
    gone, and everything written until then is returned"""
    from pexpect import popen_spawn
    for first in ('wait', 'read'):
        p = popen_spawn.PopenSpawn(['/bin/sh', '-c', '(sleep 0.4; echo late1; sleep 0.4; echo late2) & echo early'], timeout=10)
        try:
            if first == 'wait':
                p.wait()
            p.expect(pexpect.EOF)
            got = p.before
            p.wait()
        except Exception as e:
            ctx.hit('C06/popen-late-writer', 'PopenSpawn, %s first: %r' % (first, e), {'first': first})
            return
        if got != b'early\nlate1\nlate2\n':
            ctx.hit('C06/popen-late-writer', 'PopenSpawn on a command whose background job writes after the command has exited (%s() first): the reads returned %r before EOF'
                    % (first, got), {'first': first})
            return
    ctx.oracle_stats['popen_late_writer'] = 2


def socket_timeout_after_send(ctx, pexpect):
    """the last clause for the OTHER direction: a large send to a peer that reads late (the kernel buffer fills, the send has to
    wait and resume) leaves the socket's own timeout - none, a value, non-blocking - as it found it; and everything arrives"""
    import threading
    from pexpect import socket_pexpect
    size = 3000000
    payload = (b'0123456789abcdef' * (size // 16 + 1))[:size]
    tried = 0
    for own in (0.0, 7.5, None):
        a, b = socket.socketpair()
        a.settimeout(own)
        c = socket_pexpect.SocketSpawn(a, timeout=20)
        got = []

        def reader():
            time.sleep(0.3)
            n = 0
            while n < size:
                d = b.recv(1 << 16)
                if not d:
                    break
                n += len(d)
            got.append(n)
        th = threading.Thread(target=reader)
        th.start()
        err = None
        try:
            c.send(payload)
        except Exception as e:
            err = e
        after = a.gettimeout()
        th.join(15)
        tried += 1
        for s_ in (a, b):
            try:
                s_.close()
            except OSError:
                pass
        if err is not None or after != own or got != [size]:
            ctx.hit('C06/socket-timeout', "SocketSpawn.send() of %d bytes to a peer that reads late, the socket's own timeout being %r: %s; the timeout is %r afterwards; the peer received %r"
                    % (size, own, 'raised %r' % (err,) if err else 'returned', after, got), {'own_timeout': own})
            return
    ctx.oracle_stats['socket_timeout_after_send'] = tried


def _write_all(fd, data, k):
    i = 0
    while i < len(data):
        i += os.write(fd, data[i:i + k])


def placed_race(ctx, pexpect, use_poll):
    """the peer writes and exits exactly between the expiry of the timed wait and the liveness check (real kernel)"""
    import pexpect.pty_spawn as ps
    c = pexpect.spawn(sys.executable, ['-c', CHILD_LASTWORDS], timeout=10, use_poll=use_poll)
    c.expect('READY\r\n')
    name = 'poll_ignore_interrupts' if use_poll else 'select_ignore_interrupts'
    real = getattr(ps, name)
    state = {'armed': True}

    def zombie(pid):
        try:
            return open('/proc/%d/stat' % pid).read().rsplit(') ', 1)[1][0] == 'Z'
        except Exception:
            return True

    def wrapped(*a, **k):
        res = real(*a, **k)
        timeout = k.get('timeout', a[-1] if a else None)
        ready = res if use_poll else res[0]
        if state['armed'] and timeout not in (0, None) and not ready:
            state['armed'] = False
            os.kill(c.pid, signal.SIGUSR1)
            t0 = time.time()
            while not zombie(c.pid) and time.time() - t0 < 5:
                time.sleep(0.01)
        return res
    setattr(ps, name, wrapped)
    got = b''
    try:
        for _ in range(4):
            try:
                c.expect(pexpect.EOF, timeout=0.5)
                got += c.before
                break
            except pexpect.TIMEOUT:
                pass
    finally:
        setattr(ps, name, real)
        c.close()
    if b'LASTWORDS' not in got:
        ctx.hit('C06/placed-race', 'child wrote LASTWORDS and exited right after the timed wait expired (%s): EOF was reported with before=%r, the output was lost'
                % ('poll' if use_poll else 'select', got), {'schedule': 'timed wait expires -> child writes -> child exits -> liveness check', 'use_poll': use_poll})


def popen_cases(ctx, pexpect, n):
    """job popen-sim: the REAL PopenSpawn.read_nonblocking with its queue and clock scripted, against Transport/Popen.v; job
    popen-thread: the REAL _read_incoming on scripted os.read results; plus the property itself on every case"""
    from .. import popen_sim as P
    from ..transport_sim import coq_kern
    rng = ctx.rng
    cases, tcases = [], []
    hits = 0
    for _ in range(n):
        kern = (bytes(rng.choice(b'ab') for _ in range(rng.choice([0, 0, 2, 6]))), True, True)
        if rng.random() < 0.08:
            kern = (kern[0], False, False)
        ops = P.gen_ops(rng)
        try:
            obs = P.run_ops(pexpect, kern, ops)
        except Exception as e:
            if hits < 3:
                hits += 1
                ctx.hit('C06/raises', 'PopenSpawn.read_nonblocking raised %r' % (e,), {'kern': repr(kern), 'ops': repr(ops)})
            continue
        # the property, directly: returned bytes, then carry-over buffer, queue and pipe = everything written, in order
        written = kern[0]
        w_open, w_alive = kern[1], kern[2]
        got = b''

        def wr(acts):
            nonlocal written, w_open, w_alive
            for a in acts:
                if a[0] == 'w' and w_open and w_alive:
                    written += a[1]
                elif a[0] == 'exit':
                    w_open = w_alive = False
                elif a[0] == 'hangup':
                    w_open = False
        for o, ob in zip(ops, obs):
            if o[0] == 'env':
                wr(o[1])
                st = ob[0]
            else:
                used = len(o[2]) - ob[3]
                for acts, _ in o[2][:used]:
                    wr(acts)
                st = ob[2]
                if ob[1][0] == 0:
                    got += ob[1][1]
                    if len(ob[1][1]) > o[1] and hits < 3:
                        hits += 1
                        ctx.hit('C06/sim-popen-size', 'read_nonblocking(%d) returned %d bytes' % (o[1], len(ob[1][1])), {'kern': repr(kern), 'ops': repr(ops)})
                elif ob[1][0] == 1:
                    pend = st[2] + b''.join(x[0] for x in st[1] if x) + st[0][0]
                    if (pend or st[0][1]) and hits < 3:
                        hits += 1
                        ctx.hit('C06/sim-popen-eof', 'EOF raised while %r was still undelivered (pipe open: %s)' % (pend, st[0][1]), {'kern': repr(kern), 'ops': repr(ops)})
            pend = st[2] + b''.join(x[0] for x in st[1] if x) + st[0][0]
            if got + pend != written and hits < 3:
                hits += 1
                ctx.hit('C06/sim-popen-conserve', 'PopenSpawn: returned %r + undelivered %r != written %r' % (got, pend, written), {'kern': repr(kern), 'ops': repr(ops)})
                break
        cases.append(('(%s, %s)' % (coq_kern(*kern), P.coq_ops(ops)), obs, {'kern': repr(kern), 'ops': repr(ops)}))
    for _ in range(max(200, n // 10)):
        enc = rng.choice([None, 'utf-8', 'utf-16'])
        pool = [bytes(rng.choice(b'ab') for _ in range(rng.randint(1, 4)))] * 4 + [b'\xe2', b'\x82\xac', b'\xc3', b'\xff\xfe', b'a', b'', None]
        reads = [rng.choice(pool) for _ in range(rng.randint(0, 6))]
        try:
            q, left = P.thread_run(pexpect, reads, encoding=enc)
        except Exception as e:
            if hits < 3:
                hits += 1
                ctx.hit('C06/thread-raises', 'the reader thread of PopenSpawn(encoding=%r) raised %r on the reads %r (it must queue what os.read returned and the end-of-file marker)' % (enc, e, reads),
                        {'reads': repr(reads), 'encoding': enc})
            continue
        tcases.append((clist([('None' if r is None else '(Some %s)' % ctext(r)) for r in reads]), [([] if x is None else [x]) for x in q], {'reads': repr(reads), 'encoding': enc}))
    ctx.run_cases('popen-sim', ['Transport.Model', 'Transport.Popen', 'Transport.Run'], 'run_popen', 'kern * list pop_', cases, shard=400)
    ctx.run_cases('popen-thread', ['Transport.Model', 'Transport.Popen', 'Transport.Run'], 'run_thread', 'list (option (list N))', tcases, shard=400)


def real_popen_split_char(ctx, pexpect):
    """a real piped child writes a multi-byte character in two writes with a pause in between (one whole os.read of the reader
    thread is an incomplete character): nothing may be lost and EOF comes only after everything"""
    from pexpect import popen_spawn
    prog = ("import sys, time\nw = sys.stdout.buffer\nfor piece in (b'abc', b'\\xe2', b'\\x82\\xac done\\n', b'\\xf0\\x9f', b'\\x98\\x80!'):\n"
            "    w.write(piece); w.flush(); time.sleep(0.25)\n")
    for enc, want in (('utf-8', 'abc\u20ac done\n\U0001F600!'), (None, 'abc\u20ac done\n\U0001F600!'.encode('utf-8'))):
        p = popen_spawn.PopenSpawn([sys.executable, '-c', prog], encoding=enc, timeout=10)
        try:
            p.expect(pexpect.EOF)
            got = p.before
        except Exception as e:
            ctx.hit('C06/real-popen-split', 'PopenSpawn(encoding=%r) on a child that writes a character in two pieces: %r' % (enc, e), {'encoding': enc})
            return
        if got != want:
            ctx.hit('C06/real-popen-split', 'PopenSpawn(encoding=%r): the child wrote %r, reads up to EOF returned %r' % (enc, want, got), {'encoding': enc})
            return
    ctx.oracle_stats['real_popen_split_char'] = 2


def run(ctx):
    pexpect = common.preflight()
    thorough = ctx.tier == 'thorough'
    ctx.trusted += ['Coq 8.16.1 kernel (coqc); vm_compute evaluates model cases; no native_compute',
                    'hand-written models Transport/Model.v of the pty / fd / socket read_nonblocking over a MODEL of the kernel endpoint (byte FIFO, open flag, alive flag; peer actions interleaved before every system call), '
                    'tied to the code by job read-sim: the real functions run with select/poll, os.read, isalive, recv answered by a Python copy of that kernel model',
                    'Transport/Popen.v: PopenSpawn.read_nonblocking + _read_incoming (thread steps atomic: one os.read + put), tied to the code by jobs popen-sim (queue and clock scripted) and popen-thread',
                    'the kernel model itself (what Linux ptys/pipes/sockets do) is an assumption, exercised by real children with up to several hundred KB and by a placed race on a real pty']
    ctx.assumptions += ['a dead or disconnected peer writes nothing more (grandchildren holding the slave side open are out of scope)',
                        'PopenSpawn: the reader thread is modelled as atomic steps (one os.read + put) interleaved with the reader loop; real thread scheduling is exercised by the real-kernel oracle']
    ok = ctx.build('Props/C06.v', extra=['Transport/Run.v'])
    cases = sim_cases(ctx, pexpect, 30000 if thorough else 4000)
    sim_unicode(ctx, pexpect, 10000 if thorough else 1500)
    if os.path.exists(os.path.join(common.COQ, 'Transport/Run.vo')):
        ctx.run_cases('read-sim', ['Transport.Model', 'Transport.Run'], 'run_transport', 'nat * kern * sched * list (nat * bool)', cases, shard=400)
        ctx.run_cases('sock-timeouts', ['Transport.Model', 'Transport.Run'], 'run_sock_timeouts', 'kern * sched * list (nat * bool) * list (option Z)', SOCK_CASES, shard=400)
    else:
        ctx.corr_broken.append(('read-sim', {'error': 'model did not build'}))
    if os.path.exists(os.path.join(common.COQ, 'Transport/Run.vo')):
        popen_cases(ctx, pexpect, 12000 if thorough else 2500)
    sizes = [0, 1, 5, 4095, 4096, 70000, 300000] if thorough else [0, 3, 4097, 150000]
    maxreads = [1, 7, 2000, 65536] if thorough else [2000, 7]
    sizes_small = [s for s in sizes if s < 5000]
    n1 = real_children(ctx, pexpect, sizes, [m for m in maxreads if m >= 2000])
    n2 = real_children(ctx, pexpect, sizes_small, [m for m in maxreads if m < 2000])
    ctx.oracle_stats['real_children'] = n1 + n2
    placed_race(ctx, pexpect, False)
    placed_race(ctx, pexpect, True)
    real_popen_split_char(ctx, pexpect)
    socket_timeout_after_send(ctx, pexpect)
    popen_late_writer(ctx, pexpect)


def replay(ctx, path):
    print(json.dumps(json.load(open(path)), indent=1)[:4000])
    return 1
