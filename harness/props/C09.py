"""C09: see harness/life_props.py"""
from .. import life_props

FINISH = dict(level='proof', rule=life_props.RULE)


def run(ctx):
    life_props.run_property(ctx, 'C09', 'Props/C09.v')


def replay(ctx, path):
    return life_props.replay(ctx, path)
