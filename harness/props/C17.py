"""C17 pxssh login: complete decision tree of the real login() (oracle-script exploration) vs the Coq model;
direct oracles on every leaf: secrets only when asked, yes only to the host-key question, True only with prompt
evidence, else a pexpect exception; prompt() delimiting after a reset (scripted stream)."""
import json
import os
import sys

from .. import common
from ..common import clist, ctext, cbool, cnat
from ..explore import explore, NeedMore
from .. import expect_hist as H

FINISH = dict(level='proof', rule='every path of the real pxssh.login() as a function of the answers of expect() (every index of each pattern list, EOF/TIMEOUT raised where not listed) '
              'and of try_read_prompt() (texts from a family exercising the similarity threshold), for the four auto_prompt_reset x sync_original_prompt settings: the '
              'complete decision tree, each leaf compared with the Coq model (transcript of expects, sends, close, outcome); distinct = distinct leaves')

PROMPT_TEXTS = ['', 'user@host:~$ ', 'user@host:~# ', 'zzzzzzzz']
SENT = {'yes': 0, 'PASSWORD': 1, 'TERMTYPE': 2, '': 3, 'unset PROMPT_COMMAND': 4}
PXSSH_WHY = {'Could not establish connection to host': 1, 'Weird error. Got "are you sure" prompt twice.': 2, 'password refused': 3,
             'permission denied': 4, 'Weird error. Got "terminal type" prompt twice.': 5, 'connection closed': 6,
             'unexpected login response': 7, 'could not synchronize with original prompt': 8}


def make_runner(pexpect, pxssh_mod, apr, sync, extra=None):
    extra = extra or {}

    def run(o):
        class P(pxssh_mod.pxssh):
            def _spawn(self, cmd, *a, **k):
                o.do(('spawn', cmd))

            def expect(self, patterns, timeout=-1, *a, **k):
                pats = patterns if isinstance(patterns, list) else [patterns]
                n = len(pats)
                if n == 8:
                    q = 0
                elif n == 6:
                    q = 1
                elif n == 2 and pats[0] is pexpect.TIMEOUT:
                    q = 2
                else:
                    q = ('other', n)
                answers = list(range(n))
                if pexpect.EOF not in pats:
                    answers.append(100)
                if pexpect.TIMEOUT not in pats:
                    answers.append(101)
                a_ = o.ask(('expect', q, timeout), answers)
                if a_ == 100:
                    raise pexpect.EOF('scripted')
                if a_ == 101:
                    raise pexpect.TIMEOUT('scripted')
                self.before = b'BEFORE'
                return a_

            def sendline(self, s=''):
                o.do(('send', s))
                return len(s) + 1

            def send(self, s):
                o.do(('rawsend', s))
                return len(s)

            def close(self, force=True):
                o.do(('close',))

            def try_read_prompt(self, mult):
                return o.ask(('read_prompt', mult), PROMPT_TEXTS).encode()

            def read_nonblocking(self, *a, **k):
                raise AssertionError('unexpected raw read')
        import time as _t
        p = P()
        real_sleep = pxssh_mod.time.sleep
        pxssh_mod.time.sleep = lambda d: o.do(('sleep', d))
        real_spawn = pxssh_mod.spawn._spawn            # login() calls spawn._spawn(self, cmd) on the base class
        pxssh_mod.spawn._spawn = lambda self_, cmd, *a, **k: o.do(('spawn', cmd))
        try:
            try:
                r = p.login('host', 'user', 'PASSWORD', terminal_type='TERMTYPE', auto_prompt_reset=apr,
                            sync_original_prompt=sync, **extra)
                return ('ret', r, None)
            except NeedMore:
                raise
            except pxssh_mod.ExceptionPxssh as e:
                return ('pxssh', str(e.value), None)
            except pexpect.EOF:
                return ('EOF', None, None)
            except pexpect.TIMEOUT:
                return ('TIMEOUT', None, None)
            except Exception as e:          # anything else is not a pexpect exception: reported by the oracle
                return ('other', repr(e), None)
        finally:
            pxssh_mod.time.sleep = real_sleep
            pxssh_mod.spawn._spawn = real_spawn
    return run


def encode_leaf(p, trace, out):
    """transcript / outcome in the shape of Login/Run.v"""
    ev = []
    for t in trace:
        if t[0] == 'ask':
            q, a = t[1], t[2]
            if q[0] == 'expect':
                ev.append([0, q[1] if isinstance(q[1], int) else 9, [0, a]])
            else:
                ev.append([0, 3, [1, a]])
        else:
            e = t[1]
            if e[0] == 'spawn':
                ev.append([1])
            elif e[0] == 'send':
                s = e[1]
                if s in SENT:
                    ev.append([2, SENT[s]])
                elif s == p.PROMPT_SET_SH:
                    ev.append([2, 5])
                elif s == p.PROMPT_SET_CSH:
                    ev.append([2, 6])
                elif s == p.PROMPT_SET_ZSH:
                    ev.append([2, 7])
                else:
                    ev.append([2, 99])
            elif e[0] == 'close':
                ev.append([3])
            elif e[0] == 'sleep':
                ev.append([4])
            else:
                ev.append([8])
    kind = out[0]
    if kind == 'ret':
        o = [0] if out[1] is True else [7]
    elif kind == 'pxssh':
        w = PXSSH_WHY.get(out[1], 9 if out[1].startswith('could not set shell prompt') else 99)
        o = [1, w]
    elif kind == 'EOF':
        o = [2]
    elif kind == 'TIMEOUT':
        o = [3]
    else:
        o = [8]
    return [o, ev]


def coq_script(script):
    return clist([('AEof' if a == 100 else 'ATimeout' if a == 101 else '(AI %s)' % cnat(a)) if isinstance(a, int) else '(AT %s)' % ctext(a) for a in script])


def leaf_oracle(ctx, apr, sync, script, trace, out, p):
    """the property, judged on one complete dialogue of the real code"""
    sends = [(i, t[1][1]) for i, t in enumerate(trace) if t[0] == 'do' and t[1][0] in ('send', 'rawsend')]
    pw = [i for i, s in sends if 'PASSWORD' in s]
    if len(pw) > 1:
        return ('C17/password-twice', 'password sent %d times' % len(pw))
    for i in pw:
        prev = trace[i - 1]
        if not (prev[0] == 'ask' and prev[1][0] == 'expect' and prev[2] == 2):
            return ('C17/password-unasked', 'password sent without a password/passphrase prompt as the previous answer (previous: %r)' % (prev,))
    for i, s in sends:
        if s.strip() == 'yes':
            prev = trace[i - 1]
            if not (prev[0] == 'ask' and prev[1][0] == 'expect' and prev[1][1] == 0 and prev[2] == 0):
                return ('C17/yes-unasked', "'yes' sent although the previous answer was not the host-key question (%r)" % (prev,))
    if out[0] == 'other':
        return ('C17/not-a-pexpect-exception', 'login ended in %s' % out[1])
    if out[0] == 'ret' and out[1] is not True:
        return ('C17/return-value', 'login returned %r' % (out[1],))
    # every expect carries a finite timeout
    for t in trace:
        if t[0] == 'ask' and t[1][0] == 'expect' and t[1][2] is None:
            return ('C17/unbounded-wait', 'an expect during login has timeout=None')
    if out[0] == 'ret':
        asks = [(t[1], t[2]) for t in trace if t[0] == 'ask']
        prompt_seen = any(q[0] == 'expect' and q[1] in (0, 1) and a == 1 for q, a in asks)
        unique_set = any(q[0] == 'expect' and q[1] == 2 and a == 1 for q, a in asks)
        # re-synchronisation counts as evidence only if something that looks like a prompt came back
        texts = [a for q, a in asks if q[0] == 'read_prompt']
        synced = sync and len(texts) >= 4 and len(texts[2]) > 0 and len(texts[3]) > 0
        if apr and not unique_set:
            return ('C17/true-without-unique-prompt', 'login returned True with auto_prompt_reset but the unique prompt was never seen')
        if not (prompt_seen or unique_set or synced):
            key = 'C17/silent-success' if (not apr and not sync) else 'C17/success-without-prompt'
            return (key, 'login(auto_prompt_reset=%s, sync_original_prompt=%s) returned True although no shell prompt was ever seen '
                    '(the dialogue timed out)' % (apr, sync))
    else:
        # a failed login must have closed the connection unless the exception came from the transport itself
        if out[0] == 'pxssh' and not any(t[0] == 'do' and t[1][0] == 'close' for t in trace):
            return ('C17/no-close', 'ExceptionPxssh raised without closing the connection')
    return None


def prompt_delimits(ctx, pexpect, pxssh_mod, n):
    """after the unique prompt is set, successive prompt() calls return exactly each command's output
    (scripted stream through the real expect machinery)"""
    rng = ctx.rng
    tried = 0
    for it in range(n):
        outs = [''.join(rng.choice('ab $#[]\r\nPEX') for _ in range(rng.randint(0, 12))) for _ in range(rng.randint(1, 4))]
        outs = [o for o in outs if '[PEXPECT]' not in o]
        stream = ''.join(o + rng.choice(['[PEXPECT]$ ', '[PEXPECT]# ']) for o in outs)
        chunks, i = [], 0
        while i < len(stream):
            k = rng.choice([1, 2, 3, 5, 8, 40])
            chunks.append(stream[i:i + k])
            i += k
        script = [c.encode('latin-1') for c in chunks]

        class P(pxssh_mod.pxssh):
            def read_nonblocking(self, size=1, timeout=None):
                if not script:
                    raise pexpect.TIMEOUT('scripted: no more output')
                return script.pop(0)

            def __str__(self):
                return '<scripted pxssh>'
        p = P()
        p.delayafterread = None
        got = []
        ok = True
        for o in outs:
            r = p.prompt(timeout=5)
            if r is not True or p.before != o.encode('latin-1'):
                ctx.hit('C17/prompt-delimits', 'prompt() returned %r with before=%r, the command output was %r (chunks %r)' % (r, p.before, o, chunks),
                        {'outputs': outs, 'chunks': chunks})
                ok = False
                break
        tried += 1
        if not ok:
            break
    ctx.oracle_stats['prompt_streams'] = tried


def shell_flavours(ctx, pexpect, pxssh_mod, n):
    """the REAL login() (prompt reset on) and prompt() against an echoing fake remote shell of each flavour (sh / csh / zsh: each
    understands only its own way of setting the prompt), the output cut into reads at random: login succeeds, and afterwards
    prompt() delimits every command's echo + output exactly"""
    import re as _re
    rng = ctx.rng
    tried = 0
    real_spawn = pxssh_mod.spawn._spawn
    pxssh_mod.spawn._spawn = lambda self, command, args=[], preexec_fn=None, dimensions=None: None
    try:
        for it in range(n):
            flavour = ['sh', 'csh', 'zsh'][it % 3]
            state = {'prompt': rng.choice(['user@host:~$ ', 'host% ', '[me@box ~]$ ', 'host# ']), 'stage': 'password', 'partial': '', 'lines': []}
            queue = []

            # a shell that is SLOW to answer its first command (5 s, on a virtual clock: the one expect.py reads) while the
            # session object was created with a short timeout: the waits of the login dialogue are its own, not the object's
            slow = rng.random() < 0.3
            state['lag'] = 5.0 if slow else 0.0

            def emit(text):
                at = H.Clock.time() + state['lag']
                i = 0
                while i < len(text):
                    k = rng.choice([1, 2, 3, 7, 40, 200])
                    queue.append((at, text[i:i + k].encode('latin-1')))
                    i += k

            def line(l):
                state['lines'].append(l)
                if state['stage'] == 'password':
                    state['stage'] = 'shell'
                    emit('\r\nLast login: today from somewhere\r\n' + state['prompt'])
                    return
                emit(l + '\r\n')                       # terminal echo
                m_sh = _re.fullmatch(r"PS1='(.*)'", l)
                m_csh = _re.fullmatch(r"set prompt='(.*)'", l)
                if l == '' or l == 'unset PROMPT_COMMAND' or l == 'prompt restore;':
                    pass
                elif m_sh and flavour == 'sh':
                    state['prompt'] = m_sh.group(1).replace('\\$', '$')
                elif m_sh and flavour == 'zsh':
                    # zsh keeps a backslash it does not know and expands %(!.#.$) to $ for an ordinary user
                    state['prompt'] = m_sh.group(1).replace('%(!.#.$)', '$')
                elif m_csh and flavour == 'csh':
                    state['prompt'] = m_csh.group(1).replace('\\$', '$')
                elif m_csh and flavour == 'zsh':
                    pass                              # `set` only assigns positional parameters
                elif l.startswith('echo '):
                    emit(l[5:] + '\r\n')
                else:
                    emit('%s: Command not found.\r\n' % l.split('=')[0].split(' ')[0])
                emit(state['prompt'])
                state['lag'] = 0.0

            class P(pxssh_mod.pxssh):
                def read_nonblocking(self_, size=1, timeout=None):
                    now = H.Clock.time()
                    if queue and (queue[0][0] <= now or timeout is None or queue[0][0] <= now + timeout):
                        if queue[0][0] > now:
                            H.Clock.offset += queue[0][0] - now
                        return queue.pop(0)[1]
                    if timeout:
                        H.Clock.offset += timeout
                    raise pexpect.TIMEOUT('the remote side is silent')

                def send(self_, s_):
                    if isinstance(s_, bytes):
                        s_ = s_.decode('latin-1')
                    state['partial'] += s_
                    while '\n' in state['partial']:
                        l, state['partial'] = state['partial'].split('\n', 1)
                        line(l)
                    return len(s_)

                def isalive(self_):
                    return True

                def close(self_, force=True):
                    self_.closed = True

                def __str__(self_):
                    return '<fake %s session>' % flavour
            p = P(timeout=2 if slow else 30)
            p.delayafterread = None
            p.closed = False
            # how the server opens: a password question in one of its usual wordings, or none at all (key authentication) after a
            # banner that TALKS about passwords - the password is owed to a question only
            asked = rng.random() < 0.6
            if asked:
                emit(rng.choice(['password: ', "user@host's password: ", 'Password: ', 'Warning: added host.\r\nuser@host\'s password: ']))
            else:
                state['stage'] = 'shell'
                emit(rng.choice(['Your password expires in 3 days.\r\nLast login: today\r\n', 'Reminder - password rotation policy, details: intranet\r\n',
                                 'passwords are never asked for by mail; questions: helpdesk\r\n']) + state['prompt'])
            try:
                ok = p.login('host', 'user', 'secret', auto_prompt_reset=True, sync_original_prompt=False, login_timeout=5)
            except Exception as e:
                ctx.hit('C17/flavour-login', 'login() to an echoing %s shell (prompt %r) raised %r' % (flavour, state['prompt'], e), {'flavour': flavour, 'lines': state['lines']})
                return
            tried += 1
            if ok is not True:
                ctx.hit('C17/flavour-login', 'login() to an echoing %s shell returned %r' % (flavour, ok), {'flavour': flavour, 'lines': state['lines']})
                return
            if state['lines'].count('secret') != (1 if asked else 0):
                ctx.hit('C17/flavour-login', 'the password was sent %d times to a server that %s' % (state['lines'].count('secret'), 'asked for it once' if asked else 'never asked for it (key authentication; its banner merely talks about passwords)'),
                        {'flavour': flavour, 'lines': state['lines'], 'asked': asked})
                return
            k = 0
            for burst in range(rng.randint(1, 3)):
                # the user may type ahead: several commands are sent before the first prompt() call, and their echoes, outputs
                # and prompts may all arrive in ONE read; each prompt() call still delimits exactly one command
                words = [rng.choice(['hello', 'a b c', '$HOME #1', '[PEXPECT', 'x' * 300, 'y' * rng.randint(60, 120)]) for _ in range(rng.choice([1, 1, 2, 3]))]
                for word in words:
                    p.sendline('echo ' + word)
                if rng.random() < 0.5 and queue:
                    queue[:] = [(queue[0][0], b''.join(q_[1] for q_ in queue))]
                for word in words:
                    k += 1
                    r = p.prompt(timeout=5)
                    want = ('echo %s\r\n%s\r\n' % (word, word)).encode('latin-1')
                    if r is not True or p.before != want:
                        ctx.hit('C17/flavour-prompt', '%s shell, after login(): command %d `echo %s` (%d commands sent ahead): prompt() returned %r with before=%r, the echo and the output are %r'
                                % (flavour, k, word[:20], len(words), r, p.before[:80], want[:80]), {'flavour': flavour, 'lines': state['lines']})
                        return
    finally:
        pxssh_mod.spawn._spawn = real_spawn
    ctx.oracle_stats['shell_flavour_sessions'] = tried


PROMPT_RX = ('seq', H.lit('[PEXPECT]'), ('seq', ('cls', False, '$#'), ('seq', ('chr', ' '), ('eps',))))


def prompt_cases(ctx, pexpect, pxssh_mod, n):
    """job pxssh-prompt: the REAL pxssh.prompt() on a scripted transport (sessions with unique prompts, prompt-like fragments in
    the outputs, type-ahead, TIMEOUT / EOF events, timeout 0) against Login/Prompt.v after every call; and the direct statement
    of the clause: each True hands back exactly one command's output"""
    import re as _re
    TMO, EOF_ = '\x00T', '\x00E'          # markers that cannot be pieces of the session text
    rng = ctx.rng
    cases = []
    nhit = 0
    for it in range(n):
        ncmd = rng.randint(0, 4)
        outs = [''.join(rng.choice(['a', 'b', '\r\n', '[', '[PEXPECT', ']$ ', '$ ', '[PEXPECT]']) for _ in range(rng.randint(0, 5))) for _ in range(ncmd)]
        outs = [o for o in outs if not _re.search(r'\[PEXPECT\][\$\#] ', o + '[PEXPECT]$ '[:-1]) or True]
        prompts = [rng.choice(['[PEXPECT]$ ', '[PEXPECT]# ']) for _ in range(ncmd)]
        stream = ''.join(o + p for o, p in zip(outs, prompts)) + rng.choice(['', 'tail', '[PEXPECT]'])
        script, i = [], 0
        while i < len(stream):
            k = rng.choice([1, 2, 3, 7, 40, 200])
            script.append(stream[i:i + k])
            i += k
            if rng.random() < 0.15:
                script.append(TMO)
        script.append(rng.choice([TMO, TMO, EOF_]))
        calls = [rng.random() < 0.2 for _ in range(rng.randint(1, ncmd + 2))]

        class PS(pxssh_mod.pxssh):
            def read_nonblocking(self_, size=1, timeout=None):
                if not self_.script:
                    raise pexpect.EOF('script exhausted')
                ev = self_.script.pop(0)
                if ev == TMO:
                    raise pexpect.TIMEOUT('scripted')
                if ev == EOF_:
                    raise pexpect.EOF('scripted')
                return ev

            def __str__(self_):
                return '<scripted pxssh>'
        p = PS()
        p.script = [e if e in (TMO, EOF_) else e.encode('latin-1') for e in script]
        p.delayafterread = None
        obs = []
        handed = []
        for t0 in calls:
            try:
                r = p.prompt(timeout=0 if t0 else 30)
                if r is True:
                    res = [0, p.match_index, p.before, p.after, p.match.span()[0], p.match.span()[1]]
                    handed.append((p.before, p.after))
                    flag = 1
                else:
                    res = [2, [1], p.before]
                    flag = 0
            except pexpect.EOF:
                res, flag = [1, [], p.before], 2
            except pexpect.TIMEOUT:
                res, flag = [2, [], p.before], 2
            obs.append([flag, [[res], p._before.getvalue(), p._buffer.getvalue(), len(p.script)]])
        # the clause itself: the k-th True delimits exactly the k-th command of the session - when the prompt is unique in the
        # session (no output produces prompt text by itself or together with what follows)
        full = _re.compile(r'\[PEXPECT\][\$\#] ')
        unique = [m.start() for m in full.finditer(stream)] == [sum(len(o) + len(q) for o, q in zip(outs[:j], prompts[:j])) + len(outs[j]) for j in range(ncmd)]
        if unique and nhit < 2:
            want = [(o.encode('latin-1'), q.encode('latin-1')) for o, q in zip(outs, prompts)][:len(handed)]
            if handed != want:
                nhit += 1
                ctx.hit('C17/prompt-delimits', 'session %r cut into %r: the prompt() calls that returned True handed back %r, the commands\' outputs and prompts are %r'
                        % (stream, script, handed, want), {'stream': stream, 'script': script, 'calls': calls})
        evs = clist([{TMO: 'Timeout', EOF_: 'Eof'}.get(e) if e in (TMO, EOF_) else '(Data %s)' % ctext(e) for e in script])
        cases.append(('(%s, %s, %s, {| pend := []; buf := [] |})' % (H.rx_coq(PROMPT_RX), clist([cbool(t) for t in calls]), evs), obs,
                      {'stream': stream, 'script': script, 'calls': calls}))
    ctx.run_cases('pxssh-prompt', ['Base.PySeq', 'Base.Rx', 'Expect.Model', 'Login.Run'], 'run_prompt_case', 'rx * list bool * list ev * st', cases, shard=300)


def run(ctx):
    pexpect = common.preflight()
    from pexpect import pxssh as pxssh_mod
    thorough = ctx.tier == 'thorough'
    ctx.trusted += ['Coq 8.16.1 kernel (coqc); vm_compute evaluates model cases; no native_compute',
                    'hand-written model Login/Model.v of login / sync_original_prompt / set_unique_prompt / levenshtein_distance, tied to the code by the COMPLETE decision tree of the real login() for the four option settings (job tree-login) and by job lev (levenshtein vs the real method)',
                    'oracle-script explorer harness/explore.py (enumerates every answer of every query: all indices of the pattern list passed to expect, EOF/TIMEOUT raised where the marker is not listed, a family of texts for try_read_prompt)']
    ctx.assumptions += ['expect() / try_read_prompt() answer as scripted (their own correctness is C01-C05); the ssh command line construction (options, port, key, tunnels) is not modelled',
                        'documented exception: login(auto_prompt_reset=False, sync_original_prompt=False) "hopes for the best" after a TIMEOUT (known finding K2)']
    ok = ctx.build('Props/C17.v', extra=['Login/Run.v'])
    cases = []
    nleaves = 0
    nhit = 0
    complete_all = True
    outcomes = {}
    template = pxssh_mod.pxssh()
    for apr in (True, False):
        for sync in (True, False):
            leaves, complete = explore(make_runner(pexpect, pxssh_mod, apr, sync), max_leaves=60000, max_nodes=120000, budget_s=25.0)
            complete_all &= complete
            for script, trace, out in leaves:
                nleaves += 1
                p = template
                outcomes[out[0]] = outcomes.get(out[0], 0) + 1
                v = leaf_oracle(ctx, apr, sync, script, trace, out, p)
                if v and (nhit < 5 or v[0] in ('C17/silent-success', 'C17/success-without-prompt')):
                    nhit += 1
                    ctx.hit(v[0], 'login(auto_prompt_reset=%s, sync_original_prompt=%s), answers %r: %s' % (apr, sync, script, v[1]),
                            {'auto_prompt_reset': apr, 'sync_original_prompt': sync, 'answers': script,
                             'transcript': [repr(t) for t in trace], 'outcome': repr(out[:2])})
                cases.append(('(%s, %s, %s)' % (cbool(apr), cbool(sync), coq_script(script)), encode_leaf(p, trace, out),
                              {'auto_prompt_reset': apr, 'sync_original_prompt': sync, 'answers': script}))
    ctx.oracle_stats.update({'decision_tree_leaves': nleaves, 'tree_complete': complete_all, 'outcomes': outcomes})
    if not complete_all:
        ctx.corr_broken.append(('tree-login', {'error': 'decision tree exploration did not terminate within bounds'}))
    # thin the cases for the quick tier: the sync texts multiply the tree (8^4 per path); keep every distinct index path and a sample of texts
    if len(cases) > (30000 if thorough else 6000):
        rng = ctx.rng
        keep, seen = [], set()
        for c in cases:
            key = (c[2]['auto_prompt_reset'], c[2]['sync_original_prompt'], tuple(a for a in c[2]['answers'] if isinstance(a, int)))
            if key not in seen or rng.random() < 0.01:
                seen.add(key)
                keep.append(c)
        cases = keep[:30000 if thorough else 4000]
    rng = ctx.rng
    lev = []
    P = pxssh_mod.pxssh.__new__(pxssh_mod.pxssh)
    for _ in range(3000 if thorough else 600):
        a = ''.join(rng.choice('abc$ ') for _ in range(rng.randint(0, 7)))
        b = ''.join(rng.choice('abc$ ') for _ in range(rng.randint(0, 7)))
        lev.append(('(%s, %s)' % (ctext(a), ctext(b)), P.levenshtein_distance(a.encode(), b.encode()), {'a': a, 'b': b}))
    if os.path.exists(os.path.join(common.COQ, 'Login/Run.vo')):
        ctx.run_cases('tree-login', ['Login.Model', 'Login.Run'], 'run_login_case', 'bool * bool * list ans', cases, shard=500)
        ctx.run_cases('lev', ['Login.Model', 'Login.Run'], 'run_lev', 'list N * list N', lev)
    else:
        ctx.corr_broken.append(('tree-login', {'error': 'model did not build'}))
    prompt_delimits(ctx, pexpect, pxssh_mod, 3000 if thorough else 400)
    shell_flavours(ctx, pexpect, pxssh_mod, 300 if thorough else 45)
    if os.path.exists(os.path.join(common.COQ, 'Login/Run.vo')):
        prompt_cases(ctx, pexpect, pxssh_mod, 6000 if thorough else 900)
    FINISH['extra'] = {'exhaustive': bool(complete_all)}


def replay(ctx, path):
    print(json.dumps(json.load(open(path)), indent=1)[:4000])
    return 1
