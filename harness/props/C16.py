"""C16 REPLWrapper: model + theorems; correspondence repl-sim (the REAL REPLWrapper on a spawn object whose reads and writes are
answered by the REPL family of coq/Repl/Run.v) and repl-cmdlines; direct oracles: sessions of generated commands with known
output on a real child implementing the same family (harness/fake_repl.py, sync and awaited) and on real bash / python."""
import asyncio
import json
import os
import signal
import sys
import time

from .. import common
from ..common import ctext, clist, cnat, copt, cbool
from ..repl_machine import Machine, spec_command, py_cmdlines

FINISH = dict(level='proof', rule='sessions = constructor (banner, prompt change, optional extra command) + up to 6 generated commands (single-line, multi-line '
              'blocks, empty lines, no output, no final newline, large output, incomplete constructs, output containing a prompt string) x prompts {pexpect '
              'defaults, short, overlapping} x cuts of every response into reads (also inside the prompt); distinct = distinct model inputs; plus real children')

DEFAULT = ('[PEXPECT_PROMPT>', '[PEXPECT_PROMPT+')


def make_fake(pexpect, prompt, cont, banner, orig, cuts):
    """a pexpect.spawn object whose child is the simulated REPL; cuts: iterator of cut lists, one per response"""
    m = Machine(prompt, cont)

    def chunks(cs, t):
        out = []
        for n in cs:
            if not t:
                break
            out.append(t[:n + 1])
            t = t[n + 1:]
        if t:
            out.append(t)
        return out

    class Fake(pexpect.spawn):
        def __init__(self):
            pexpect.spawn.__init__(self, None, encoding='utf-8', echo=False, timeout=5)
            self.echo_calls = []
            self.closed = False
            self.child_fd = 987
            self.pid = 4242
            self.pipe = chunks(cuts.pop(0) if cuts else [], banner + orig)
            self.got = []
            self.ints = 0
            self.partial = ''
            self.delayafterread = None

        def read_nonblocking(self, size=1, timeout=None):
            if not self.pipe:
                raise pexpect.TIMEOUT('nothing more arrives')
            return self.pipe.pop(0)

        def expect_exact(self, pattern_list, timeout=-1, **kw):
            # what each wait for a prompt is given as its timeout (the caller's, except for the wait that follows an interrupt)
            self.waits = getattr(self, 'waits', [])
            self.waits.append((timeout, self.ints))
            return pexpect.spawn.expect_exact(self, pattern_list, timeout=timeout, **kw)

        def send(self, s):
            self.partial += s
            while '\n' in self.partial:
                line, self.partial = self.partial.split('\n', 1)
                self.got.append(line)
                o, ok = m.step(line)
                self.pipe += chunks(cuts.pop(0) if cuts else [], o + (prompt if ok else cont))
            return len(s)

        def kill(self, sig):
            assert sig == signal.SIGINT
            self.ints += 1
            self.pipe += chunks(cuts.pop(0) if cuts else [], m.interrupt() + prompt)

        def isalive(self):
            return True

        def setecho(self, state):
            self.echo_calls.append(0 if state is False and not self.got and not self.ints else 7)
            self.echo = state

        def waitnoecho(self, timeout=-1):
            self.echo_calls.append(1 if not self.got else 8)
            return True

        def close(self, force=True):
            self.closed = True

        def __del__(self):
            pass
    return Fake(), m


def outcome_of(fn, pexpect):
    try:
        return [0, fn()]
    except ValueError as e:
        return [3] if 'No command' in str(e) else [1]
    except (pexpect.TIMEOUT, pexpect.EOF):
        return [2]


def pend_of(c):
    return c._before.getvalue()


def run_sim(pexpect, case):
    """-> observation (as Repl/Run.v run_repl_obs prints it), per-command records for the direct oracle"""
    import re
    from pexpect import replwrap
    prompt, cont = case['prompts']
    queue = [list(c) for c in case['ccuts']]
    fake, m = make_fake(pexpect, prompt, cont, case['banner'], case['orig'], queue)
    fake.echo = case['echo']
    box = {}

    def build():
        box['w'] = replwrap.REPLWrapper(fake, re.escape(case['orig']), case['change'], new_prompt=prompt, continuation_prompt=cont,
                                        extra_init_cmd=case['extra'])
    r = outcome_of(build, pexpect)
    wv = lambda: [pend_of(fake), fake.buffer, len(fake.pipe), len(fake.got), fake.ints]
    records = []
    if r[0] != 0:
        fake.closed = True
        return [[1, r, wv(), list(fake.echo_calls)]], records
    obs = [[0, wv(), list(fake.echo_calls)]]
    w = box['w']
    import pexpect._async as pa
    real_async = pa.expect_async

    async def loop_glue(expecter, timeout=None):
        # the asyncio transport is replaced by the blocking loop on the same scripted reads (C14 is about that glue):
        # what is exercised here is repl_run_command_async itself
        return expecter.expect_loop(timeout)
    pa.expect_async = loop_glue
    try:
        for k, (command, ccs) in enumerate(case['cmds']):
            del queue[:]
            queue += [list(c) for c in ccs]
            use_async = bool(case.get('async', [])[k:k + 1] == [True])
            fake.waits = []
            ints_before = fake.ints
            # the caller's timeout: a number, None (wait as long as it takes) or -1 / nothing (the default of the spawn object)
            tmo = [7, 7, None, -1, 2.5, 'omitted'][(k + len(command)) % 6]
            kw = {} if tmo == 'omitted' else {'timeout': tmo}
            if use_async:
                def call():
                    loop = asyncio.new_event_loop()
                    try:
                        return loop.run_until_complete(w.run_command(command, async_=True, **kw))
                    finally:
                        loop.close()
                r = outcome_of(call, pexpect)
            else:
                r = outcome_of(lambda: w.run_command(command, **kw), pexpect)
            obs.append([r, wv()])
            records.append((command, r))
            norm = lambda t_: fake.timeout if t_ in (-1, 'omitted') else t_
            bad_waits = [t for t, ints in fake.waits if norm(t) != norm(tmo) and ints == ints_before]
            if bad_waits:
                records.append(('TIMEOUTS', command, use_async, bad_waits, tmo))
    finally:
        pa.expect_async = real_async
    obs.append(list(fake.got))
    fake.closed = True
    return obs, records


VOCAB = ['sabc', 's', 'ehello', 'e', 'n', 'nxyz', 'bab', 'b', 'p', 'q', '(', ')', '', 'zzz', 'e[PEXPECT', 'n[PEXPECT_PROMPT', 'eé€', 'e a b ', ' ', 'e>']
CLEAN = ['sabc', 's', 'ehello', 'e', 'n', 'nxyz', 'bab', '', 'zzz', 'eé€', 'e a b ', 'n[PEXPECT_PROMPT', 'e[PEXPECT']


def gen_command(rng, clean):
    x = rng.random()
    voc = CLEAN if clean else VOCAB
    if x < 0.03:
        return rng.choice(['', '\n'])
    if x < 0.35:
        lines = [rng.choice(voc)]
    elif x < 0.55:
        lines = ['('] + [rng.choice(voc) for _ in range(rng.randint(0, 3))] + [')']
    elif x < 0.65:
        lines = ['('] + [rng.choice(voc) for _ in range(rng.randint(0, 2))]          # incomplete
    elif x < 0.75:
        lines = ['(', '(', rng.choice(voc), ')', rng.choice(voc), ')']
    else:
        lines = [rng.choice(voc + ['(', ')']) for _ in range(rng.randint(2, 4))]
    sep = '\n' if rng.random() < 0.85 else rng.choice(['\r\n', '\r', '\x0b', '\x0c', '\x1c', '\x1d', '\x1e', '\x85', ' ', ' '])
    s = sep.join(lines)
    if rng.random() < 0.25:
        s += '\n'
    if rng.random() < 0.05:
        s += '\n'
    return s


def gen_cut(rng, approx):
    x = rng.random()
    if x < 0.3:
        return []
    if x < 0.6:
        return [rng.randint(0, 5) for _ in range(rng.randint(1, 12))]
    if x < 0.8:
        return [0] * rng.randint(1, 40)
    return [rng.randint(0, max(1, approx)) for _ in range(rng.randint(1, 3))]


def gen_case(rng):
    x = rng.random()
    clean = x < 0.6
    if x < 0.7:
        prompts = DEFAULT
    elif x < 0.85:
        prompts = rng.choice([('>>> ', '... '), ('$ ', '> ')])
    else:
        prompts = rng.choice([('ab', 'b'), ('b', 'ab'), ('aa', 'a'), ('>>> x', '>>> '), ('e', 'h')])
    cmds = []
    for _ in range(rng.randint(1, 6)):
        c = gen_command(rng, clean)
        n = len(py_cmdlines(c)) + 1
        cmds.append((c, [gen_cut(rng, 12) for _ in range(n)]))
    extra = None if rng.random() < 0.6 else gen_command(rng, True)
    return {'prompts': prompts, 'banner': rng.choice(['', 'Welcome\r\n', 'fake 1.0\r\nnote: $x\r\n']), 'orig': rng.choice(['$', '>>> ', 'orig> ']),
            'change': rng.choice(['eset', 'PS1=x', 'n']), 'extra': extra, 'ccuts': [gen_cut(rng, 10) for _ in range(8)], 'cmds': cmds, 'echo': rng.random() < 0.3, 'async': [rng.random() < 0.5 for _ in cmds], 'clean': clean and prompts == DEFAULT}


def coq_case(case):
    cuts = lambda cs: clist([clist([cnat(n) for n in c]) for c in cs])
    flags = case.get('async') or [False] * len(case['cmds'])
    cmds = clist(['(%s, %s, %s)' % (cbool(a), ctext(c), cuts(cc)) for a, (c, cc) in zip(flags, case['cmds'])])
    ccuts = list(case['ccuts'])
    while len(ccuts) < 2:
        ccuts.append([])
    return '(%s, %s, %s, %s, %s, %s, %s, %s, %s)' % (cbool(case['echo']), ctext(case['prompts'][0]), ctext(case['prompts'][1]), ctext(case['banner']), ctext(case['orig']),
                                                 ctext(case['change']), copt(case['extra'], ctext), cuts(ccuts), cmds)


# ---------------------------------------------------------------------------------------------------------------------
def direct_oracle(ctx, case, records, state):
    """the property itself on the simulated child: every command returns exactly its own output"""
    prompt, cont = case['prompts']
    m = Machine(prompt, cont)
    m.step(case['change'])
    if case['extra'] is not None:
        spec_command(m, case['extra'])
    for rec in records:
        if rec[0] == 'TIMEOUTS':
            if state['hits'] < 3:
                state['hits'] += 1
                ctx.hit('C16/sim-timeout', '%s(%r, timeout=%r): a wait for the prompt was given timeout %r instead of the caller\'s' % ('await run_command' if rec[2] else 'run_command', rec[1], rec[4] if len(rec) > 4 else 7, rec[3][0]),
                        {'case': repr(case)})
            continue
        command, r = rec
        want = spec_command(m, command)
        got = ('ret', r[1]) if r[0] == 0 else (('incomplete',) if r[0] == 1 else (('nocommand',) if r[0] == 3 else ('failed',)))
        if got != want and state['hits'] < 3:
            state['hits'] += 1
            ctx.hit('C16/sim', 'prompts %r, session %r: run_command(%r) gave %r, its own output is %r' % (case['prompts'], [c for c, _ in case['cmds']], command, got, want),
                    {'case': repr(case)})
            return


def short(t):
    if isinstance(t, tuple):
        return t if len(repr(t)) < 200 else (repr(t)[:90] + '...' + repr(t)[-90:] + (' (%d chars)' % len(t[1]) if len(t) > 1 else ''))
    return t if not isinstance(t, str) or len(t) < 160 else (t[:70] + '...' + t[-70:] + ' (%d chars)' % len(t))


def confirm(ctx, key, what, data, again, tries=3):
    """A mismatch seen on a REAL child depends on more than pexpect: on the child process (CPython's own REPL loses an interrupt
    that arrives between printing its prompt and entering select(): measured here about once in 40 000 interrupts), on the kernel
    and on the host's clock and scheduler.  What is reported as a failing input must fail when it is replayed: the same session
    (same child seed, same commands, same mode) is run again on fresh children, and the mismatch is reported if ANY replay
    fails too; one that never repeats is recorded in the evidence (direct_oracle.unconfirmed_transients), not reported."""
    if os.environ.get('VERIF_CONFIRM_CHILD'):
        ctx.hit(key, what, data)          # this run is itself the replay of an earlier one (harness/check.py confirm_hits)
        return True
    fails = []
    for _ in range(tries):
        r = again()
        if r is not None:
            fails.append(r)
    if fails:
        data = dict(data, replays_failed='%d of %d' % (len(fails), tries))
        ctx.hit(key, what + '  [replayed: failed again in %d of %d replays of the same session]' % (len(fails), tries), data)
        return True
    ctx.transient(key, what, data, tries)
    return False


def family_session(pexpect, seed, cmds, use_async):
    """one session on a fresh real child (harness/fake_repl.py) behind a pty -> (mismatch or None, commands done);
    mismatch = (command, got, want)"""
    from pexpect import replwrap
    here = os.path.dirname(os.path.abspath(__file__))
    script = os.path.join(os.path.dirname(here), 'fake_repl.py')
    prompt, cont = DEFAULT
    done = 0
    child = pexpect.spawn(sys.executable, [script, prompt, cont, '$', str(seed)], echo=False, encoding='utf-8', timeout=20)
    m = Machine(prompt, cont)
    try:
        try:
            w = replwrap.REPLWrapper(child, r'\$', 'eset', new_prompt=prompt, continuation_prompt=cont)
        except (pexpect.TIMEOUT, pexpect.EOF) as e:
            return ('<REPLWrapper(child, prompt change)>', ('failed', type(e).__name__), ('ret', 'a wrapper at the new prompt')), done
        m.step('eset')
        child.timeout = 1.2          # the default of the spawn object is short: run_command is given its own, longer timeout

        async def arun(c):
            return await w.run_command(c, timeout=20, async_=True)
        loop = asyncio.new_event_loop() if use_async else None
        try:
            for c in cmds:
                if any(s in c for s in ('\r', '\x0b', '\x0c', '\x1c', '\x1d', '\x1e', '\x85', ' ', ' ')):
                    continue                    # the line discipline of a real terminal treats some of these specially
                want = spec_command(m, c)
                try:
                    if use_async and py_cmdlines(c):
                        got = ('ret', loop.run_until_complete(arun(c)))
                    else:
                        got = ('ret', w.run_command(c, timeout=20))
                except ValueError as e:
                    got = ('nocommand',) if 'No command' in str(e) else ('incomplete',)
                except (pexpect.TIMEOUT, pexpect.EOF) as e:
                    got = ('failed', type(e).__name__)
                if got != want:
                    return (c, got, want), done
                done += 1
        finally:
            if loop is not None:
                loop.close()
    finally:
        child.close(force=True)
    return None, done


def real_family_sessions(ctx, pexpect, n, use_async):
    """sessions on a real child (harness/fake_repl.py) behind a pty: real reads, real chunking, sync or awaited"""
    rng = ctx.rng
    done = 0
    for it in range(n):
        seed = rng.randint(0, 10 ** 6)
        cmds = []
        for _ in range(rng.randint(3, 7)):
            x = rng.random()
            if x < 0.2:
                big = rng.choice(['x', 'é€', 'abü', '0123456789'])
                cmds.append('r%d,%s' % (rng.choice([100, 3000, 20000, 60000]) // len(big), big))
            elif x < 0.3:
                cmds.append('(\nr%d,%s\nezz\n)' % (rng.choice([500, 8000]), rng.choice(['q', 'é'])))
            elif x < 0.36 and not any('w' == c_[:1] or '\nw' in c_ for c_ in cmds):
                cmds.append('(\nw\nehello\n)')          # an intermediate line slower than the object's default timeout
            else:
                cmds.append(gen_command(rng, True))
        if it == 0:
            cmds.insert(1, '(\nw\nehello\n)')          # always once: an intermediate line slower than the object's default timeout
        bad, k = family_session(pexpect, seed, cmds, use_async)
        done += k
        if bad is not None:
            c, got, want = bad
            if confirm(ctx, 'C16/real-family-%s' % ('async' if use_async else 'sync'),
                       'real child (seed %d), commands %r: %s of %r gave %s, its own output is %s' %
                       (seed, [x[:40] for x in cmds], 'await run_command(async_=True)' if use_async else 'run_command', c[:60], short(got), short(want)),
                       {'seed': seed, 'cmds': cmds, 'async': use_async}, lambda: family_session(pexpect, seed, cmds, use_async)[0]):
                break
    ctx.oracle_stats['real_family_%s_commands' % ('async' if use_async else 'sync')] = done


BASH_CMDS = [
    (lambda t: 'echo %s' % t, lambda t: t + '\r\n'),
    (lambda t: "printf %%s '%s'" % (t * (5000 // len(t) + 1)), lambda t: t * (5000 // len(t) + 1)),          # an input line longer than a terminal's canonical buffer
    (lambda t: 'printf %%s %s' % t, lambda t: t),
    (lambda t: 'true', lambda t: ''),
    (lambda t: 'x=%s' % t, lambda t: ''),
    (lambda t: 'echo %s\necho second' % t, lambda t: t + '\r\nsecond\r\n'),
    (lambda t: 'echo %s\n\necho after-blank' % t, lambda t: t + '\r\nafter-blank\r\n'),
    (lambda t: 'for i in 1 2 3\ndo\necho %s$i\ndone' % t, lambda t: ''.join('%s%d\r\n' % (t, i) for i in (1, 2, 3))),
    (lambda t: 'if true; then\necho %s\nfi\n' % t, lambda t: t + '\r\n'),
]
PY_CMDS = [
    (lambda t: 'print(%r)' % t, lambda t: t + '\r\n'),
    (lambda t: 'print(%r, end="")' % t, lambda t: t),
    (lambda t: 'x = %r' % t, lambda t: ''),
    (lambda t: 'pass', lambda t: ''),
    (lambda t: 'for i in range(3):\n    print(%r, i)\n' % t, lambda t: ''.join('%s %d\r\n' % (t, i) for i in range(3))),
    (lambda t: 'if True:\n    print(%r)\n\nprint("after")' % t, lambda t: t + '\r\nafter\r\n'),
    (lambda t: 'def f():\n    return %r\n\nprint(f())' % t, lambda t: t + '\r\n'),
]


def repl_session(pexpect, kind, plan, use_async):
    """one session on a fresh real bash / python -> (mismatch or None, commands done) or ('unavailable', reason);
    plan = [(command, its output | ValueError)]; mismatch = (index, command, got, want)"""
    from pexpect import replwrap
    try:
        w = replwrap.bash() if kind == 'bash' else replwrap.python(sys.executable)
    except Exception as e:
        return 'unavailable', repr(e)[:100]
    w.child.timeout = 30
    loop = asyncio.new_event_loop() if use_async else None
    done = 0
    try:
        async def arun(c):
            return await w.run_command(c, async_=True)
        for i, (cmd, want) in enumerate(plan):
            try:
                got = loop.run_until_complete(arun(cmd)) if use_async else w.run_command(cmd)
            except ValueError:
                got = ValueError
            except (pexpect.TIMEOUT, pexpect.EOF) as e:
                got = type(e).__name__
            if got != want:
                return (i, cmd, got, want), done
            done += 1
    finally:
        if loop is not None:
            loop.close()
        w.child.close(force=True)
    return None, done


def real_repls(ctx, pexpect, rounds, use_async):
    rng = ctx.rng
    done = 0
    for kind in ('bash', 'python'):
        plan = []
        for it in range(rounds):
            x = rng.random()
            word = rng.choice(['alpha', 'Zz9', 'héllo', 'x' * 50, 'PEXPECT', 'PROMPT'])
            if x < 0.15:
                n = rng.choice([2000, 40000, 150000])
                if kind == 'bash':
                    cmd, want = "printf 'é€%%.0s' {1..%d}" % n, 'é€' * n
                else:
                    cmd, want = "print('é€' * %d, end='')" % n, 'é€' * n
            elif x < 0.3:
                cmd, want = ("echo 'unterminated %s" % word if kind == 'bash' else "for i in range(2):\n    print(%r)" % word), ValueError
            else:
                mk, exp = rng.choice(BASH_CMDS if kind == 'bash' else PY_CMDS)
                cmd, want = mk(word), exp(word)
            plan.append((cmd, want))
        bad, k = repl_session(pexpect, kind, plan, use_async)
        if bad == 'unavailable':
            ctx.oracle_stats['real_%s_unavailable' % kind] = k
            continue
        done += k
        if bad is not None:
            i, cmd, got, want = bad
            history = [c[:50] for c, _ in plan[:i]]

            def again():
                r = repl_session(pexpect, kind, plan, use_async)[0]
                return None if r == 'unavailable' else r
            confirm(ctx, 'C16/real-%s-%s' % (kind, 'async' if use_async else 'sync'),
                    '%s REPL, after %r: %s(%r) gave %r, its own output is %r' % (kind, history, 'await run_command' if use_async else 'run_command',
                                                                              cmd[:70], short(got), short(want)),
                    {'kind': kind, 'async': use_async, 'plan': [(c, w if isinstance(w, str) else 'ValueError') for c, w in plan]}, again)
    ctx.oracle_stats['real_repl_commands_%s' % ('async' if use_async else 'sync')] = done


def run(ctx):
    pexpect = common.preflight()
    thorough = ctx.tier == 'thorough'
    ctx.trusted += ['Coq 8.16.1 kernel (coqc); vm_compute evaluates model cases; no native_compute',
                    'hand-written Repl/Model.v of REPLWrapper.__init__/set_prompt/_expect_prompt/run_command and repl_run_command_async on top of the Expecter model '
                    '(tied to the code by C01-C04, C14); tied to replwrap.py by job repl-sim: the REAL REPLWrapper on a pexpect.spawn object whose read_nonblocking/send/kill '
                    'are answered by the REPL family of Repl/Run.v',
                    'the REPL child (bash, python, any other) is outside pexpect: the theorems assume a REPL whose responses contain a prompt string only as their end; '
                    'real bash/python and a real child implementing the modelled family are exercised as direct oracles (sampled)']
    ctx.assumptions += ['the original prompt of the constructor is matched as a literal (the code compiles it as a regular expression: C01-C03)',
                        'what setecho/waitnoecho do to the terminal is the kernel (C05 covers the waiting); the model only says that the constructor calls them, first, exactly when the child echoes']
    ok = ctx.build('Props/C16.v', extra=['Repl/Run.v'])
    rng = ctx.rng
    cases, lines_cases = [], []
    state = {'hits': 0}
    for it in range(12000 if thorough else 2500):
        case = gen_case(rng)
        obs, records = run_sim(pexpect, case)
        for rec in records:
            if rec[0] == 'TIMEOUTS' and state['hits'] < 3:
                state['hits'] += 1
                ctx.hit('C16/sim-timeout', '%s(%r, timeout=%r): a wait for the prompt was given timeout %r instead of the caller\'s' % ('await run_command' if rec[2] else 'run_command', rec[1], rec[4] if len(rec) > 4 else 7, rec[3][0]),
                        {'case': repr(case)})
        records = [rec for rec in records if rec[0] != 'TIMEOUTS']
        if case['clean']:
            direct_oracle(ctx, case, records, state)
        cases.append((coq_case(case), obs, {'case': repr(case)}))
    have = os.path.exists(os.path.join(common.COQ, 'Repl/Run.vo'))
    # command -> lines sent (replwrap.py:84-88), on a child that answers every line with the primary prompt
    seen = set()
    for it in range(6000 if thorough else 1500):
        c = ''.join(rng.choice(['a', 'b', ' ', '\n', '\n', '\r', '\r\n', '\x0b', '\x0c', '\x1c', '\x1d', '\x1e', '\x85', ' ', ' ', '\t', 'é']) for _ in range(rng.randint(0, 7)))
        if c in seen:
            continue
        seen.add(c)
        got = sent_lines(pexpect, c)
        if got != py_cmdlines(c) and state['hits'] < 3:
            state['hits'] += 1
            ctx.hit('C16/lines', 'run_command(%r) sent the lines %r; the command is %r' % (c, got, py_cmdlines(c)), {'command': c})
        lines_cases.append((ctext(c), got, {'command': repr(c)}))
    if have:
        ctx.run_cases('repl-sim', ['Repl.Model', 'Repl.Run'], 'run_repl_obs', 'bool * list N * list N * list N * list N * list N * option (list N) * list (list nat) * list (bool * list N * list (list nat))', cases, shard=250)
        ctx.run_cases('repl-cmdlines', ['Repl.Model', 'Repl.Run'], 'run_cmdlines', 'list N', lines_cases, shard=500)
    else:
        ctx.corr_broken.append(('repl-sim', {'error': 'model did not build'}))
    real_family_sessions(ctx, pexpect, 30 if thorough else 5, False)
    real_family_sessions(ctx, pexpect, 30 if thorough else 5, True)
    real_repls(ctx, pexpect, 60 if thorough else 12, False)
    real_repls(ctx, pexpect, 60 if thorough else 12, True)


def sent_lines(pexpect, command):
    from pexpect import replwrap
    queue = []
    fake, m = make_fake(pexpect, 'P>', 'C>', '', 'P>', queue)
    m.step = lambda l: ('', True)
    w = replwrap.REPLWrapper(fake, 'P>', None, new_prompt='P>', continuation_prompt='C>')
    try:
        w.run_command(command)
    except ValueError:
        pass
    fake.closed = True
    return list(fake.got)


def replay(ctx, path):
    print(json.dumps(json.load(open(path)), indent=1)[:4000])
    return 1
