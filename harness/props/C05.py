"""C05 deadlines: virtual-clock model of expect_loop / waitnoecho + theorems; correspondence with the real code under a patched
clock; direct oracles: timeout conventions on every entry point, real children (silent / chatty / hang-up-alive)."""
import json
import os
import signal
import socket
import sys
import time

from .. import common
from ..common import cZ, clist, copt
from .. import expect_hist as H

FINISH = dict(level='proof', rule='(timeout in {None, 0, small ints}, per-iteration overhead, adaptive event list: reads that deliver matching / non-matching data after a duration within the '
              'remaining time + slack, silence until the deadline, EOF) run through the REAL Expecter.expect_loop with time.time/time.sleep of pexpect.expect replaced by a virtual clock; '
              'outcome and finishing time compared with the model; likewise waitnoecho with a scripted echo flag; distinct = distinct model inputs')


class Runaway(Exception):
    """the code under test keeps asking for the time: it is looping without a bound (a check must not hang with it)"""


class Clock:
    def __init__(self, start):
        self.now = float(start)
        self.calls = 0

    def time(self):
        self.calls += 1
        if self.calls > 20000:
            raise Runaway()
        return self.now

    def sleep(self, d):
        self.calls += 1
        if self.calls > 20000:
            raise Runaway()
        self.now += d


def vclock_cases(ctx, pexpect, n):
    import pexpect.expect as ex
    from pexpect.spawnbase import SpawnBase
    rng = ctx.rng
    cases = []
    nhit = 0
    dist = {}
    for it in range(n):
        T = rng.choice([None, 0, 0, 1, 2, 5, 9])
        over = rng.choice([0, 1, 1, 2])
        eps = rng.choice([0, 1])
        start = rng.randint(0, 50)
        clock = Clock(start)
        realized = []
        plan = [rng.choice(['miss', 'miss', 'miss', 'hit', 'silence', 'eof']) for _ in range(rng.randint(1, 8))]
        if T is None:
            plan = [p for p in plan if p != 'silence'] + ['hit']
        plan.append(rng.choice(['silence', 'eof']) if T is not None else 'eof')

        class S(SpawnBase):
            def read_nonblocking(self, size=1, timeout=None):
                kind = plan.pop(0) if plan else 'eof'
                rem = None if timeout is None else max(int(round(timeout)), 0)
                if kind == 'silence':
                    d = rem + rng.randint(0, eps)
                    clock.now += d
                    realized.append('(RTimeout %s)' % cZ(d))
                    raise pexpect.TIMEOUT('silent')
                d = rng.randint(0, (rem if rem is not None else 4) + eps)
                clock.now += d
                if kind == 'eof':
                    realized.append('(REof %s)' % cZ(d))
                    raise pexpect.EOF('closed')
                realized.append('(%s %s)' % ('RHit' if kind == 'hit' else 'RMiss', cZ(d)))
                # a miss may be a short read or a FULL one (as many characters as were asked for: a backlog)
                return b'MATCH' if kind == 'hit' else b'z' * rng.choice([1, 2, size, size])

            def __str__(self):
                return '<virtual>'
        sp = S(timeout=30, maxread=rng.choice([1, 2, 7, 2000]))
        sp.delayafterread = over if over else None
        old = ex.time
        ex.time = clock
        try:
            try:
                sp.expect_exact([b'MATCH'], timeout=T)
                out = 0
            except pexpect.TIMEOUT:
                out = 1
            except pexpect.EOF:
                out = 2
            except Runaway:
                out = 9
                if nhit < 3:
                    nhit += 1
                    ctx.hit('C05/unbounded', 'expect_exact(timeout=%r) kept looping: it did not return within 20000 looks at the clock' % (T,), {'T': T, 'start': start})
        finally:
            ex.time = old
        fin = int(round(clock.now))
        dist[out] = dist.get(out, 0) + 1
        # direct oracle: the bounds themselves
        bad = None
        if T is not None and fin > start + T + eps + over:
            bad = 'call with timeout %d started at %d returned at %d: later than T + slack %d + overhead %d' % (T, start, fin, eps, over)
        if out == 1 and T is not None and fin < start + T:
            bad = 'TIMEOUT reported at %d, before the deadline %d' % (fin, start + T)
        if out == 1 and T is None:
            bad = 'TIMEOUT reported although timeout=None'
        if bad and nhit < 3:
            nhit += 1
            ctx.hit('C05/vclock', bad, {'T': T, 'over': over, 'eps': eps, 'start': start, 'events': realized})
        cases.append(('(%s, %s, %s, %s)' % (cZ(over), cZ(start), copt(T, cZ), clist(realized)), [out, fin],
                      {'T': T, 'over': over, 'start': start, 'events': realized}))
    ctx.oracle_stats['vclock_outcomes'] = dist
    return cases


def waitnoecho_cases(ctx, pexpect, n):
    import pexpect.pty_spawn as ps
    rng = ctx.rng
    cases = []
    for it in range(n):
        T = rng.choice([None, 0, 1, 3, 7])
        start = rng.randint(0, 20)
        off = rng.choice([None, start, start + 1, start + 2, start + 5, start + 9])
        if T is None and off is None:
            off = start + 4
        clock = Clock(start)

        class Fake:
            def getecho(self_):
                return not (off is not None and clock.now >= off)
        c = pexpect.spawn(None, timeout=30)
        c.ptyproc = Fake()
        old = ps.time

        class TM:
            time = staticmethod(clock.time)

            @staticmethod
            def sleep(d):
                clock.sleep(0)
                clock.now += 1          # one polling interval = 1 tick
        ps.time = TM
        try:
            try:
                r = c.waitnoecho(timeout=T)
                res = 1 if r else 0
            except Runaway:
                res = 9
                ctx.hit('C05/waitnoecho-unbounded', 'waitnoecho(timeout=%r) with echo %s did not return within 10000 polling intervals' % (T, 'never switched off' if off is None else 'switched off at %d' % off), {'T': T, 'start': start, 'echo_off_at': off})
            except Exception as e:
                res = 8
                ctx.hit('C05/waitnoecho-raises', 'waitnoecho(timeout=%r) raised %r' % (T, e), {'T': T})
        finally:
            ps.time = old
        cases.append(('(%s, %s, %s, %s)' % (cZ(1), cZ(start), copt(T, cZ), copt(off, cZ)), [res, int(round(clock.now))],
                      {'T': T, 'start': start, 'echo_off_at': off}))
    return cases


def conventions(ctx, pexpect):
    """-1 = instance default on every entry point; checked by observing the timeout handed to the primitive below"""
    from pexpect import fdpexpect, socket_pexpect, popen_spawn
    from pexpect.expect import searcher_string
    seen = []
    # expect / expect_list / expect_exact / expect_loop: default timeout reaches read_nonblocking
    for entry in ('expect', 'expect_list', 'expect_exact', 'expect_loop'):
        sp, enc = H.make_spawn(pexpect, False, [])
        sp.timeout = 7
        got = []
        sp.read_nonblocking = lambda size=1, timeout=None, _g=got: (_g.append(timeout), (_ for _ in ()).throw(pexpect.EOF('x')))[1]
        try:
            if entry == 'expect':
                sp.expect([b'x', pexpect.EOF])
            elif entry == 'expect_list':
                import re
                sp.expect_list([re.compile(b'x'), pexpect.EOF])
            elif entry == 'expect_exact':
                sp.expect_exact([b'x', pexpect.EOF])
            else:
                sp.expect_loop(searcher_string([b'x', pexpect.EOF]))
        except pexpect.TIMEOUT:
            got.append('TIMEOUT-without-reading')
        seen.append((entry, got))
        if not got or got[0] == 'TIMEOUT-without-reading' or not (6.5 <= got[0] <= 7):
            ctx.hit('C05/minus-one', '%s() with the default timeout handed %r to read_nonblocking (instance default is 7)' % (entry, got), {'entry': entry})
    # read_nonblocking(timeout=-1) of fd / socket: waits the instance default
    r, w = os.pipe()
    f = fdpexpect.fdspawn(r, timeout=0.4)
    t0 = time.time()
    try:
        f.read_nonblocking(10)
        ctx.hit('C05/minus-one', 'fdspawn.read_nonblocking on a silent pipe returned data', {})
    except pexpect.TIMEOUT:
        d = time.time() - t0
        if not 0.35 <= d <= 1.5:
            ctx.hit('C05/minus-one', 'fdspawn.read_nonblocking(timeout=-1) waited %.2fs, the instance default is 0.4s' % d, {})
    os.close(r)
    os.close(w)
    a, b = socket.socketpair()
    s = socket_pexpect.SocketSpawn(a, timeout=0.4)
    t0 = time.time()
    try:
        s.read_nonblocking(10)
    except pexpect.TIMEOUT:
        d = time.time() - t0
        if not 0.35 <= d <= 1.5:
            ctx.hit('C05/minus-one', 'SocketSpawn.read_nonblocking(timeout=-1) waited %.2fs, the instance default is 0.4s' % d, {})
    # timeout=0 on a silent socket is TIMEOUT (not another exception), and still returns what is readable
    try:
        s.expect([b'x'], timeout=0)
        ctx.hit('C05/zero', 'expect(timeout=0) on a silent socket matched', {})
    except pexpect.TIMEOUT:
        pass
    except Exception as e:
        ctx.hit('C05/zero', 'SocketSpawn expect(timeout=0) on a silent peer raised %r instead of TIMEOUT' % (e,), {})
    b.sendall(b'ready')
    time.sleep(0.2)
    try:
        if s.expect([b'ready', pexpect.TIMEOUT], timeout=0) != 0:
            ctx.hit('C05/zero', 'SocketSpawn expect(timeout=0) did not see data that was immediately readable', {})
    except Exception as e:
        ctx.hit('C05/zero', 'SocketSpawn expect(timeout=0) raised %r' % (e,), {})
    a.close()
    b.close()
    # PopenSpawn timeout=0 sees what is immediately available
    p = popen_spawn.PopenSpawn([sys.executable, '-c', 'import sys,time; sys.stdout.write("ready"); sys.stdout.flush(); time.sleep(3)'], timeout=5)
    time.sleep(1.0)
    try:
        if p.expect([b'ready', pexpect.TIMEOUT], timeout=0) != 0:
            ctx.hit('C05/zero', 'PopenSpawn expect(timeout=0) did not see output that had been available for a second', {})
    finally:
        p.kill(signal.SIGKILL)
        p.wait()
    ctx.oracle_stats['convention_probes'] = len(seen) + 5


def interrupt_wrappers(ctx, pexpect):
    """utils.select_ignore_interrupts / poll_ignore_interrupts under a virtual clock with signals interrupting the wait:
    the kernel must be asked to wait exactly the remaining time (in the right unit), and the overall wait must end at
    the deadline - not earlier, not later - when nothing becomes readable"""
    import errno
    import pexpect.utils as U
    rng = ctx.rng
    tried = 0
    for it in range(300):
        T = rng.choice([0.25, 0.5, 1.5, 2, 3.75])
        ints = sorted(rng.uniform(0, T * 1.2) for _ in range(rng.randint(0, 3)))
        for which in ('select', 'poll'):
            clock = Clock(100.0)
            asked = []
            pending = [100.0 + x for x in ints]

            def wait(seconds):
                asked.append(seconds)
                end = clock.now + (seconds if seconds is not None else 1e9)
                if pending and pending[0] < end:
                    clock.now = max(clock.now, pending.pop(0))
                    raise InterruptedError(errno.EINTR, 'interrupted')
                clock.now = end
                return []

            class FakeSelectMod:
                error = OSError
                POLLIN = POLLPRI = POLLHUP = POLLERR = 1

                @staticmethod
                def select(r, w, x, timeout=None):
                    wait(timeout)
                    return ([], [], [])

                class poll:
                    def register(self, fd, mask):
                        pass

                    def poll(self, ms):
                        wait(None if ms is None else ms / 1000.0)
                        return []
            old_sel, old_time = U.select, U.time
            U.select = FakeSelectMod
            U.time = clock
            try:
                if which == 'select':
                    r = U.select_ignore_interrupts([5], [], [], T)
                    empty = (r == ([], [], []))
                else:
                    r = U.poll_ignore_interrupts([5], T)
                    empty = (r == [])
            finally:
                U.select, U.time = old_sel, old_time
            tried += 1
            waited = clock.now - 100.0
            bad = None
            if not empty:
                bad = 'returned %r although nothing was readable' % (r,)
            elif abs(asked[0] - T) > 1e-9:
                bad = 'asked the kernel to wait %r s although the timeout is %r s' % (asked[0], T)
            elif waited < T - 1e-6 and not (ints and max(ints) > T):
                bad = 'returned after %.3f s, before the timeout %.3f s (interrupts at %r)' % (waited, T, ints)
            elif waited > max([T] + [x for x in ints]) + 1e-6:
                bad = 'returned after %.3f s, later than the timeout %.3f s' % (waited, T)
            if bad:
                ctx.hit('C05/%s_ignore_interrupts' % which, '%s_ignore_interrupts(timeout=%r) with signals at %r: %s' % (which, T, [round(x, 3) for x in ints], bad),
                        {'wrapper': which, 'timeout': T, 'interrupts': ints, 'asked': asked})
                return
    ctx.oracle_stats['interrupt_wrapper_runs'] = tried


def wait_primitives_report_readiness(ctx, pexpect):
    """the other half of the wait primitives: whatever the kernel reports for a descriptor - readable, urgent data, HANG-UP, error -
    means "a read will not block" (data, end of file or an error will come out), so the descriptor must be handed back as ready;
    dropping a hang-up makes the caller take the end of the stream for a silent peer and report TIMEOUT at once.  Scripted
    poll()/select() results, plus a real pipe whose writer has closed."""
    import select as real_select
    import pexpect.utils as U
    tried = 0
    for name, mask in (('POLLIN', real_select.POLLIN), ('POLLPRI', real_select.POLLPRI), ('POLLHUP', real_select.POLLHUP),
                       ('POLLERR', real_select.POLLERR), ('POLLIN|POLLHUP', real_select.POLLIN | real_select.POLLHUP)):
        class FakeSelectMod:
            error = OSError
            POLLIN, POLLPRI, POLLHUP, POLLERR = real_select.POLLIN, real_select.POLLPRI, real_select.POLLHUP, real_select.POLLERR
            POLLNVAL = real_select.POLLNVAL

            class poll:
                def register(self, fd, m=None):
                    pass

                def poll(self, ms=None):
                    return [(5, mask)]
        old = U.select
        U.select = FakeSelectMod
        try:
            r = U.poll_ignore_interrupts([5], 1)
        finally:
            U.select = old
        tried += 1
        if list(r) != [5]:
            ctx.hit('C05/poll-readiness', 'poll_ignore_interrupts: the kernel reported %s for the descriptor, the wrapper handed back %r' % (name, r), {'event': name})
            return
    # a real pipe at its end: both primitives must say "ready" at once
    r_, w_ = os.pipe()
    os.close(w_)
    try:
        t0 = time.time()
        a = U.select_ignore_interrupts([r_], [], [], 2)[0]
        b = U.poll_ignore_interrupts([r_], 2)
        d = time.time() - t0
    finally:
        os.close(r_)
    tried += 1
    if list(a) != [r_] or list(b) != [r_] or d > 1:
        ctx.hit('C05/poll-readiness', 'a pipe whose writer has closed: select wrapper %r, poll wrapper %r after %.2f s (both must report it ready at once)' % (a, b, d), {})
        return
    ctx.oracle_stats['wait_primitive_readiness'] = tried


def real_time(ctx, pexpect, thorough):
    """real children: the overall bound and no early timeout (generous tolerances; validates the environment law)"""
    T = 0.6
    tol = 0.6
    silent = [sys.executable, '-c', 'import time; time.sleep(30)']
    chatty = [sys.executable, '-c', 'import time,sys\nwhile True:\n    sys.stdout.write("x"); sys.stdout.flush(); time.sleep(0.01)']
    results = []
    for name, argv in (('silent', silent), ('chatty', chatty)):
        for use_poll in ((False, True) if (thorough or name == 'silent') else (False,)):
            c = pexpect.spawn(argv[0], argv[1:], timeout=10, use_poll=use_poll)
            t0 = time.time()
            try:
                c.expect('NEVER', timeout=T)
                d = None
            except pexpect.TIMEOUT:
                d = time.time() - t0
            finally:
                c.close(force=True)
            results.append((name, use_poll, d))
            if d is None or d < T - 0.01 or d > T + tol:
                ctx.hit('C05/real-' + name, 'expect(timeout=%.1f) on a %s child (use_poll=%s) took %r s' % (T, name, use_poll, d), {'child': name, 'T': T})
    # hang-up without exit: the child closes its terminal but stays alive for 3 s (known finding K1: blocks in ptyprocess)
    hang = [sys.executable, '-c', 'import os,time\nos.write(1,b"R")\nfor fd in (0,1,2): os.close(fd)\ntime.sleep(3)']
    c = pexpect.spawn(hang[0], hang[1:], timeout=10)
    c.expect('R')
    ds = []
    for _ in range(2):
        t0 = time.time()
        try:
            c.expect('NEVER', timeout=0.5)
        except (pexpect.TIMEOUT, pexpect.EOF):
            pass
        ds.append(time.time() - t0)
    c.close(force=True)
    results.append(('hangup-alive', False, ds))
    if max(ds) > 0.5 + 1.0:
        ctx.hit('C05/K1-hangup-alive', 'child closed its terminal but stayed alive 3 s: expect(timeout=0.5) calls took %s s' % ['%.2f' % x for x in ds],
                {'durations': ds})
    ctx.oracle_stats['real_time_runs'] = [(a, b, (round(d, 2) if isinstance(d, float) else d)) for a, b, d in results]


def wait_budget(ctx, pexpect, n):
    """the environment law for the pty / fd / socket transports, deterministically: under scripted system calls (the harness of
    C06), the waits a single read_nonblocking(timeout=r) asks of select / poll / recv add up to at most r and none is unbounded"""
    from .. import transport_sim as T
    rng = ctx.rng
    tried = 0
    for it in range(n):
        which = rng.choice([0, 1, 2])
        use_poll = rng.random() < 0.5
        uni = rng.random() < 0.4
        sched = T.gen_sched_unicode(rng, rng.randint(2, 14)) if uni else T.gen_sched(rng, rng.randint(2, 14))
        sim = T.Sim(b'', True, True, sched)
        calls = [(rng.choice([1, 3, 100]), rng.random() < 0.3) for _ in range(rng.randint(1, 4))]
        # the time each read may take: nothing, some, or no limit (None: it must then WAIT, whatever timeout the socket object
        # itself carries - its own timeout is varied between the reads by the harness, non-blocking mode included)
        tmos = [0 if t0 else rng.choice([5, 5, 0.5, None]) for _, t0 in calls]
        try:
            obs, c = T.run_calls(pexpect, which, sim, calls, use_poll=use_poll, timeouts=tmos, encoding='utf-8' if uni else None)
        except Exception:
            continue                # judged by C06
        tried += 1
        for r, waits, outcome in c._verif_waits:
            if outcome == 3 and which != 2:
                # the code read the descriptor without having been told that it is readable: on a blocking descriptor that read
                # waits for as long as the peer stays silent - no deadline at all (e.g. after a read that delivered only the
                # first bytes of a character)
                ctx.hit('C05/unwaited-read', '%s read_nonblocking(timeout=%r) (use_poll=%s, %s): a read was made that no select/poll had announced; with a silent peer it never returns'
                        % (['pty', 'fd', 'socket'][which], r, use_poll, 'utf-8' if uni else 'bytes'), {'transport': which, 'sched': repr(sched), 'calls': calls, 'timeouts': tmos, 'unicode': uni})
                return
            if r is None:
                if outcome in (2, 3) or any(w not in (None, 0) for w in waits):
                    ctx.hit('C05/none-waits', '%s read_nonblocking(timeout=None) (use_poll=%s) %s; the waits it asked of the kernel were %r (each must be a plain poll or unlimited)'
                            % (['pty', 'fd', 'socket'][which], use_poll, {2: 'raised TIMEOUT', 3: 'let a would-block error through'}.get(outcome, 'returned'), waits),
                            {'transport': which, 'sched': repr(sched), 'calls': calls, 'timeouts': tmos, 'use_poll': use_poll})
                    return
                continue
            total = sum(w for w in waits if w)
            if any(w is None for w in waits) or total > r + 1e-9:
                ctx.hit('C05/wait-budget', '%s read_nonblocking(timeout=%r) (use_poll=%s) asked the kernel to wait %r: more than its budget'
                        % (['pty', 'fd', 'socket'][which], r, use_poll, waits), {'transport': which, 'sched': repr(sched), 'calls': calls, 'use_poll': use_poll})
                return
    ctx.oracle_stats['wait_budget_runs'] = tried


def popen_read_law(ctx, pexpect, n):
    """the environment law of the deadline theorems, checked for PopenSpawn.read_nonblocking over a VIRTUAL clock: the queue is a
    fake whose items have arrival times (a blocking get advances the clock), the clock of the module is scripted; with remaining
    time r the call must return within max(r, 0) + a small constant, whatever arrives when - including pieces that decode to
    nothing (a multi-byte character cut by the reader thread)."""
    import pexpect.popen_spawn as pp
    from pexpect.spawnbase import SpawnBase
    rng = ctx.rng
    tried = 0
    saved = pp.time
    try:
        for it in range(n):
            uni = rng.random() < 0.6
            clock = Clock(rng.randint(0, 20))
            start = clock.now
            T = rng.choice([0, 0.5, 1, 2, 3])
            # arrivals: (time offset, bytes or None)
            items, t = [], 0.0
            for _ in range(rng.randint(0, 5)):
                t += rng.choice([0.0, 0.1, 0.4, 0.9, 1.5, 2.5])
                piece = rng.choice([b'a', b'ab', b'\xc3', b'\xa9', b'\xe2\x82', b'\xac', b'xyz']) if uni else rng.choice([b'a', b'ab', b'xyz'])
                items.append([start + t, piece])
            if rng.random() < 0.3:
                items.append([start + t + rng.choice([0.0, 0.5]), None])
            q = list(items)

            class FakeQueue:
                def get_nowait(self_):
                    if q and q[0][0] <= clock.now:
                        return q.pop(0)[1]
                    raise pp.Empty()

                def get(self_, block=True, timeout=None):
                    if q and q[0][0] <= clock.now:
                        return q.pop(0)[1]
                    if not block:
                        raise pp.Empty()
                    if q and (timeout is None or q[0][0] <= clock.now + timeout):
                        clock.now = max(clock.now, q[0][0])
                        return q.pop(0)[1]
                    if timeout is None:
                        raise RuntimeError('blocks for ever')
                    clock.now += max(timeout, 0)
                    raise pp.Empty()

                def empty(self_):
                    return not (q and q[0][0] <= clock.now)
            sp = pp.PopenSpawn.__new__(pp.PopenSpawn)
            SpawnBase.__init__(sp, timeout=30, encoding='utf-8' if uni else None, codec_errors='replace')
            sp._buf = sp.string_type()
            sp._read_reached_eof = False
            sp.closed = False
            sp._read_queue = FakeQueue()
            pp.time = clock
            size = rng.choice([1, 4, 2000])
            try:
                try:
                    sp.read_nonblocking(size, T)
                    out = 'data'
                except pexpect.EOF:
                    out = 'eof'
                except pexpect.TIMEOUT:
                    out = 'timeout'
            except Exception as e:
                ctx.hit('C05/popen-law-raises', 'PopenSpawn.read_nonblocking(%d, %r) raised %r' % (size, T, e), {'items': repr(items), 'T': T, 'unicode': uni})
                return
            finally:
                pp.time = saved
                sp.closed = True
            tried += 1
            took = clock.now - start
            if took > T + 1e-6:
                ctx.hit('C05/popen-law', 'PopenSpawn.read_nonblocking(size=%d, timeout=%r) took %.2f s of virtual time (arrivals %r, %s mode): a read handed r seconds must return within r'
                        % (size, T, took, [(round(a - start, 2), p) for a, p in items], 'unicode' if uni else 'bytes'), {'items': repr(items), 'T': T, 'unicode': uni, 'size': size})
                return
    finally:
        pp.time = saved
    ctx.oracle_stats['popen_read_law_cases'] = tried


def run(ctx):
    pexpect = common.preflight()
    thorough = ctx.tier == 'thorough'
    ctx.trusted += ['Coq 8.16.1 kernel (coqc); vm_compute evaluates model cases; no native_compute',
                    'hand-written model Deadline/Model.v of the time arithmetic of Expecter.expect_loop, the timeout conventions and waitnoecho over a virtual clock, tied to the code by jobs vclock-loop / vclock-waitnoecho (the real functions run with time.time / time.sleep replaced by a virtual clock)',
                    'environment law assumed of each read_nonblocking: with remaining time r it returns within max(r,0)+eps and raises TIMEOUT no earlier than max(r,0) (validated on real children with generous tolerances; wall-clock behaviour of the kernel and interpreter is not proved)']
    ctx.assumptions += ['the bound is over a virtual clock; eps (one read\'s slack) and over (one iteration\'s overhead) are parameters',
                        'known finding K1: a child that closes its terminal but stays alive makes ptyprocess.isalive() block in waitpid until it exits (root cause outside this repository)']
    ok = ctx.build('Props/C05.v', extra=['Deadline/Run.v'])
    cases = vclock_cases(ctx, pexpect, 30000 if thorough else 4000)
    wcases = waitnoecho_cases(ctx, pexpect, 3000 if thorough else 600)
    if os.path.exists(os.path.join(common.COQ, 'Deadline/Run.vo')):
        ctx.run_cases('vclock-loop', ['Deadline.Model', 'Deadline.Run'], 'run_deadline', 'Z * Z * option Z * list rev', cases, shard=500)
        ctx.run_cases('vclock-waitnoecho', ['Deadline.Model', 'Deadline.Run'], 'run_waitnoecho', 'Z * Z * option Z * option Z', wcases, shard=500)
    else:
        ctx.corr_broken.append(('vclock-loop', {'error': 'model did not build'}))
    conventions(ctx, pexpect)
    interrupt_wrappers(ctx, pexpect)
    wait_primitives_report_readiness(ctx, pexpect)
    popen_read_law(ctx, pexpect, 6000 if thorough else 1500)
    wait_budget(ctx, pexpect, 4000 if thorough else 800)
    real_time(ctx, pexpect, thorough)


def replay(ctx, path):
    print(json.dumps(json.load(open(path)), indent=1)[:4000])
    return 1
