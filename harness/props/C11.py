"""C11: see harness/io_props.py"""
from .. import io_props

FINISH = dict(level='proof', rule=io_props.RULE)


def run(ctx):
    io_props.run_property(ctx, 'C11', 'Props/C11.v')


def replay(ctx, path):
    return io_props.replay(ctx, path)
