"""C20 pattern forms: model of compile_pattern_list / coercions / expect_exact preparation + behavioural equivalence oracle"""
import itertools
import json
import os
import re

from .. import common
from ..common import ctext, clist, cbool, cN
from .. import expect_hist as H

FINISH = dict(level='proof', rule='pattern objects = {str, bytes, compiled str, compiled bytes (all 32 subsets of I,M,S,X,A), EOF, TIMEOUT, None, int, float, nested list} '
              'alone and in lists x bytes/unicode mode x ignorecase x {expect/compile_pattern_list, expect_exact}; descriptors (string type, source, flags) compared; '
              'plus the same scripted stream matched under every accepted form of one pattern (behavioural oracle); distinct = distinct model inputs')

FLAGS = [re.I, re.M, re.S, re.X, re.A]
SOURCES = ['a', 'ab', 'A.b', 'a b', '[ab]+', 'x$', 'hello', '\\d+', 'é', 'a#b', '^b', '']


def coq_pobj(o):
    k = o[0]
    if k == 'str':
        return '(OStr %s)' % ctext(o[1])
    if k == 'bytes':
        return '(OBytes %s)' % ctext(o[1])
    if k == 're':
        return '(ORe %s %s %s)' % ('TStr' if o[1] == 'str' else 'TBytes', ctext(o[2]), cN(o[3]))
    if k == 'list':
        return '(OList %s)' % clist([coq_pobj(x) for x in o[1]])
    return {'EOF': 'OEof', 'TIMEOUT': 'OTimeout', 'None': 'ONone', 'other': 'OOther'}[k]


def py_obj(pexpect, o):
    k = o[0]
    if k == 'str':
        return o[1]
    if k == 'bytes':
        return o[1].encode('latin-1')
    if k == 're':
        src = o[2] if o[1] == 'str' else o[2].encode('latin-1')
        return re.compile(src, o[3])
    if k == 'list':
        return [py_obj(pexpect, x) for x in o[1]]
    if k == 'EOF':
        return pexpect.EOF
    if k == 'TIMEOUT':
        return pexpect.TIMEOUT
    if k == 'None':
        return None
    return o[1]


MASK = re.I | re.L | re.M | re.S | re.X | re.A


def describe(pexpect, res):
    out = []
    for d in res:
        if d is pexpect.EOF:
            out.append([2])
        elif d is pexpect.TIMEOUT:
            out.append([3])
        elif isinstance(d, re.Pattern):
            isb = isinstance(d.pattern, bytes)
            out.append([0, 1 if isb else 0, d.pattern if not isb else list(d.pattern), d.flags & MASK])
        elif isinstance(d, bytes):
            out.append([1, 1, list(d)])
        else:
            out.append([1, 0, d])
    return [0, out]


def gen_obj(rng, depth=0):
    x = rng.random()
    src = rng.choice(SOURCES)
    if x < 0.25:
        return ('str', src)
    if x < 0.40:
        return ('bytes', src) if all(ord(c) < 256 for c in src) else ('str', src)
    if x < 0.70:
        fl = 0
        for f in FLAGS:
            if rng.random() < 0.35:
                fl |= int(f)
        t = rng.choice(['str', 'bytes'])
        if t == 'bytes' and (fl & re.A or any(ord(c) > 127 for c in src)):
            fl &= ~int(re.A)
            src = 'ab' if any(ord(c) > 127 for c in src) else src
        if t == 'str' and not (fl & re.A):
            fl |= int(re.U)
        try:
            re.compile(src if t == 'str' else src.encode('latin-1'), fl)
        except Exception:
            return ('str', 'a')
        return ('re', t, src, fl)
    if x < 0.78:
        return ('EOF',)
    if x < 0.86:
        return ('TIMEOUT',)
    if x < 0.92:
        return ('other', rng.choice([3, 2.5, object]))
    if x < 0.95:
        return ('None',)
    if depth == 0:
        return ('list', [gen_obj(rng, 1) for _ in range(rng.randint(0, 3))])
    return ('str', 'b')


def corr(ctx, pexpect, n):
    from pexpect.spawnbase import SpawnBase
    rng = ctx.rng
    cases = []
    seen = {}
    shared = {True: SpawnBase(encoding=None), False: SpawnBase(encoding='utf-8')}    # long-lived objects: a per-object cache would show
    history = {True: [], False: []}
    nhit = 0
    for i in range(n):
        o = gen_obj(rng)
        if rng.random() < 0.3 and o[0] != 'list':
            o = ('list', [o] + [gen_obj(rng, 1) for _ in range(rng.randint(0, 2))])
        bm = rng.random() < 0.5
        ic = rng.random() < 0.3
        ex = rng.random() < 0.35
        sp = shared[bm] if rng.random() < 0.8 else SpawnBase(encoding=None if bm else 'utf-8')
        sp.ignorecase = ic
        obj = py_obj(pexpect, o)
        snapshot = list(obj) if isinstance(obj, list) else None
        try:
            if ex:
                # the preparation of expect_exact, observed through the searcher it builds
                got = []
                import pexpect.spawnbase as sb

                class Stop(Exception):
                    pass

                class Rec:
                    def __init__(self, strings):
                        got.append(list(strings))
                        raise Stop()
                old = sb.searcher_string
                sb.searcher_string = Rec
                try:
                    try:
                        sp.expect_exact(obj, timeout=0)
                    except Stop:
                        pass
                finally:
                    sb.searcher_string = old
                res = describe(pexpect, got[0])
            else:
                res = describe(pexpect, sp.compile_pattern_list(obj))
        except TypeError:
            res = [1]
        except UnicodeError:
            res = [2]
        except Exception as e:
            res = [9, type(e).__name__]
        seen[str(res[0])] = seen.get(str(res[0]), 0) + 1
        # a pattern list belongs to the caller: it is the same list of the same objects afterwards (otherwise the same list
        # would mean something else the next time it is used)
        if snapshot is not None and nhit < 3 and not (len(obj) == len(snapshot) and all(a is b for a, b in zip(obj, snapshot))):
            nhit += 1
            ctx.hit('C20/caller-list-modified', '%s(%s) changed the caller\'s list: it now holds %r' % ('expect_exact' if ex else 'compile_pattern_list', repr(o), [type(x).__name__ for x in obj]),
                    {'object': repr(o), 'bytes_mode': bm, 'ignorecase': ic, 'expect_exact': ex})
        # direct oracle on the descriptor: the property itself, entry by entry
        if res[0] == 0 and not ex and nhit < 3:
            entries = o[1] if o[0] == 'list' else ([] if o[0] == 'None' else [o])
            for ent, d in zip(entries, res[1]):
                bad = None
                if ent[0] in ('str', 'bytes') and d[0] == 0:
                    want = int(re.S) | (int(re.I) if ic else 0)
                    if d[3] & (int(re.S) | int(re.I)) != want:
                        bad = 'string pattern %r compiled with flags %d: DOTALL must be set and IGNORECASE must be %s' % (ent[1], d[3], 'set' if ic else 'clear')
                elif ent[0] == 're' and d[0] == 0:
                    keep = int(re.I | re.M | re.S | re.X | re.A)
                    if d[3] & keep != ent[3] & keep:
                        bad = 'compiled pattern %r with flags %d came back with flags %d' % (ent[2], ent[3] & keep, d[3] & keep)
                    if (d[1] == 1) != bm:
                        bad = 'compiled pattern %r not coerced to the object\'s string type' % (ent[2],)
                if bad:
                    nhit += 1
                    ctx.hit('C20/descriptor', '%s (bytes_mode=%s, ignorecase=%s; earlier patterns compiled on the same object: %r)' % (bad, bm, ic, history[bm][-3:]),
                            {'object': repr(o), 'bytes_mode': bm, 'ignorecase': ic, 'earlier_on_same_object': history[bm][-5:]})
                    break
        if sp is shared[bm]:
            history[bm].append(repr(o))
        cases.append(('(%s, %s, %s, %s)' % (cbool(bm), cbool(ic), cbool(ex), coq_pobj(o)), res,
                      {'object': repr(o), 'bytes_mode': bm, 'ignorecase': ic, 'expect_exact': ex}))
    ctx.oracle_stats['descriptor_outcomes'] = seen
    ctx.run_cases('pattern-forms', ['Pattern.Model', 'Pattern.Run'], 'run_pattern', 'bool * bool * bool * pobj', cases, shard=500)


def behaviour_oracle(ctx, pexpect, n):
    """the same scripted stream matched under every accepted form of one pattern must give the same answer;
    invalid objects must raise TypeError without consuming anything"""
    rng = ctx.rng
    tried = 0
    texts = ['say HELLO there\nworld', 'ab\nAB a b', 'xAyb\n', 'a#b ab', '12 x34']
    for it in range(n):
        src = rng.choice(['hello', 'a.b', 'a b', '[ab]+', 'b$', '\\d+', 'A', 'a#b'])
        fl = 0
        for f in FLAGS:
            if rng.random() < 0.3:
                fl |= int(f)
        text = rng.choice(texts)
        chunks = [text[:len(text) // 2], text[len(text) // 2:]]
        uni = rng.random() < 0.5
        ic = rng.random() < 0.3
        results = {}
        native_fl = fl
        forms = {}
        if uni:
            forms['compiled-native'] = re.compile(src, fl)
            if not (fl & re.A):
                forms['compiled-other-type'] = re.compile(src.encode('ascii'), fl)
        else:
            if fl & re.A:
                continue
            forms['compiled-native'] = re.compile(src.encode('ascii'), fl)
            forms['compiled-other-type'] = re.compile(src, fl)
        if (fl | int(re.U)) & ~int(re.U) == (int(re.S) | (int(re.I) if ic else 0)):
            forms['string'] = src
            if not uni:
                forms['bytes'] = src.encode('ascii')
        for name, pat in forms.items():
            for aslist in (False, True):
                sp, enc = H.make_spawn(pexpect, uni, chunks)
                sp.ignorecase = ic
                try:
                    plist = [pat, pexpect.EOF] if aslist else pat
                    idx = sp.expect(plist, timeout=5)
                    r = ('ret', idx, sp.before, sp.after if not isinstance(sp.after, type) else sp.after.__name__)
                except pexpect.EOF:
                    r = ('EOF', None, sp.before, None)
                except Exception as e:
                    r = ('exc', type(e).__name__)
                # single vs list differ only in how EOF is reported
                key = r if r[0] != 'EOF' else ('ret', 1, r[2], 'EOF')
                if aslist is False and r[0] == 'ret':
                    key = r
                results[(name, aslist)] = key
        vals = set(results.values())
        tried += 1
        if len(vals) > 1:
            ctx.hit('C20/forms-differ', 'pattern %r flags=%d on %r (unicode=%s, ignorecase=%s) gives different answers in different forms: %r'
                    % (src, fl, text, uni, ic, results), {'src': src, 'flags': fl, 'text': text, 'unicode': uni, 'ignorecase': ic,
                                                          'results': {str(k): repr(v) for k, v in results.items()}})
            break
    # several patterns in ONE list, in mixed forms - the same source may appear twice with different effective flags (a plain
    # string gets DOTALL and the object's ignorecase, a compiled pattern keeps its own): the answer is that of the `re` module
    # asked directly, leftmost occurrence first, lowest index on ties
    for it in range(n):
        uni = rng.random() < 0.5
        ic = rng.random() < 0.3
        text = rng.choice(texts + ['BEGIN\nHello world\nEND', 'say hello'])
        E_ = (lambda x: x) if uni else (lambda x: x.encode('ascii'))
        entries, canon = [], []
        base = rng.choice(['hello', 'a.b', 'BEGIN(.*)END', '[ab]+', 'A', 'b$'])
        for k in range(rng.randint(1, 3)):
            src = base if rng.random() < 0.6 else rng.choice(['hello', 'a.b', 'x', '\\d+', 'A'])
            form = rng.choice(['string', 'compiled', 'compiled-other-type'])
            fl = 0
            for f in (re.I, re.S, re.M):
                if rng.random() < 0.35:
                    fl |= int(f)
            if form == 'string':
                entries.append(E_(src))
                canon.append(re.compile(E_(src), re.S | (re.I if ic else 0)))
            elif form == 'compiled':
                entries.append(re.compile(E_(src), fl))
                canon.append(re.compile(E_(src), fl))
            else:
                other = src.encode('ascii') if uni else src
                entries.append(re.compile(other, fl))
                canon.append(re.compile(E_(src), fl))
        data = E_(text)
        best = None
        for i, cp in enumerate(canon):
            m_ = cp.search(data)
            if m_ is not None and (best is None or m_.start() < best[1]):
                best = (i, m_.start(), m_.end())
        want = ('ret', best[0], data[:best[1]], data[best[1]:best[2]]) if best else ('EOF', data)
        for how in ('expect', 'expect_list'):
            sp, enc = H.make_spawn(pexpect, uni, [text])
            sp.ignorecase = ic
            try:
                if how == 'expect':
                    idx = sp.expect(list(entries), timeout=5)
                else:
                    idx = sp.expect_list(sp.compile_pattern_list(list(entries)), timeout=5)
                got = ('ret', idx, sp.before, sp.after)
            except pexpect.EOF:
                got = ('EOF', sp.before)
            except Exception as e:
                got = ('exc', repr(e))
            tried += 1
            if got != want:
                ctx.hit('C20/mixed-list', '%s(%r) on %r (unicode=%s, ignorecase=%s): %r; the re module, asked pattern by pattern with the effective flags, gives %r'
                        % (how, [e_ if isinstance(e_, (str, bytes)) else ('compiled', e_.pattern, e_.flags & MASK) for e_ in entries], text, uni, ic, got, want),
                        {'entries': repr(entries), 'text': text, 'unicode': uni, 'ignorecase': ic})
                return
    # expect_exact: a single string - the empty one included - is the one-element list
    for uni in (False, True):
        for s_ in ('', 'b', 'abc', 'zz'):
            outs = []
            for aslist in (False, True):
                sp, enc = H.make_spawn(pexpect, uni, ['abc'])
                try:
                    idx = sp.expect_exact([enc(s_)] if aslist else enc(s_), timeout=1)
                    outs.append(('ret', idx, sp.before, sp.after, len(sp.script)))
                except (pexpect.EOF, pexpect.TIMEOUT) as e:
                    outs.append((type(e).__name__, sp.before, len(sp.script)))
                except Exception as e:
                    outs.append(('exc', repr(e)))
            tried += 1
            if outs[0] != outs[1]:
                ctx.hit('C20/forms-differ', 'expect_exact(%r) gives %r, expect_exact([%r]) gives %r' % (enc(s_), outs[0], enc(s_), outs[1]), {'string': s_, 'unicode': uni})
                return
    # invalid objects: TypeError and nothing consumed
    for bad in [3, 2.5, 0, 0.0, False, [b'a', None], [['a']], [0], object()]:
        for uni in (False, True):
            for meth in ('expect', 'expect_exact'):
                sp, enc = H.make_spawn(pexpect, uni, ['abc'])
                try:
                    getattr(sp, meth)(bad, timeout=1)
                    out = 'no exception'
                except TypeError:
                    out = None
                except Exception as e:
                    out = 'raised %s' % type(e).__name__
                if out is None and (len(sp.script) != 1 or sp.buffer):
                    out = 'TypeError, but child output was consumed'
                if out:
                    ctx.hit('C20/invalid-object', '%s(%r) in %s mode: %s' % (meth, bad, 'unicode' if uni else 'bytes', out), {'object': repr(bad), 'method': meth})
    for meth in ('expect',):
        sp, enc = H.make_spawn(pexpect, True, ['abc'])
        try:
            sp.expect(b'a', timeout=1)
            ctx.hit('C20/invalid-object', 'bytes pattern accepted by a unicode-mode object', {})
        except TypeError:
            pass
    ctx.oracle_stats['behaviour_patterns'] = tried


def run(ctx):
    pexpect = common.preflight()
    thorough = ctx.tier == 'thorough'
    ctx.trusted += ['Coq 8.16.1 kernel (coqc); vm_compute evaluates model cases; no native_compute',
                    'hand-written model Pattern/Model.v of compile_pattern_list/_coerce_expect_string/_coerce_expect_re/expect_exact preparation, tied to the code by job pattern-forms (descriptor = string type, source, flag bits I,L,M,S,X,A)',
                    'the MEANING of a (type, source, flags) descriptor is CPython re; equal descriptors select equal occurrences by definition of re.compile']
    ctx.assumptions += ['pattern sources used for cross-type coercion are valid UTF-8 / the model covers ASCII sources exactly and encodes non-ASCII str sources with Base/Utf8.v',
                        'text given to a bytes-mode object is ASCII (non-ASCII raises UnicodeEncodeError in the code and in the model)']
    ok = ctx.build('Props/C20.v', extra=['Pattern/Run.v'])
    if os.path.exists(os.path.join(common.COQ, 'Pattern/Run.vo')):
        corr(ctx, pexpect, 40000 if thorough else 4000)
    else:
        ctx.corr_broken.append(('pattern-forms', {'error': 'model did not build'}))
    behaviour_oracle(ctx, pexpect, 20000 if thorough else 2500)


def replay(ctx, path):
    print(json.dumps(json.load(open(path)), indent=1)[:4000])
    return 1
