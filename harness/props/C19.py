"""C19 Screen operations: Coq model Screen/Model.v + theorems Props/C19.v, correspondence screen-ops, reference-grid oracle."""
import json
import os

from .. import common
from ..common import cZ, clist
from .. import screen_ops as S

FINISH = dict(level='proof', rule='operation sequences (length 1-8) over all documented screen operations on screens 1x1..4x5 (and 24x80 in the thorough tier) '
              'with arguments drawn from {-2,0,1,2,rows-1,rows,rows+1,cols,cols+1,10^6}, text and bytes characters; after every operation the whole state '
              '(grid, cursor, saved cursor, scroll region) and the accessors dump/str/pretty/get are compared, get_abs/get_region probed on the final state; distinct = distinct model inputs')

SIZES = [(1, 1), (1, 3), (2, 2), (3, 1), (3, 4), (4, 5), (2, 5)]


def gen_cases(ctx, n, sizes):
    rng = ctx.rng
    for i in range(n):
        rows, cols = rng.choice(sizes)
        if rows * cols > 100 and rng.random() < 0.85:
            rows, cols = rng.choice([x for x in sizes if x[0] * x[1] <= 100])      # large screens are sampled sparingly
        letters = 'abcXYZ' if rng.random() < 0.8 else 'aé\xff'
        ops = [S.gen_op(rng, rows, cols, letters) for _ in range(rng.randint(1, 8))]
        # make scrolling / erasing visible: start from a filled grid most of the time
        if rows * cols > 100:
            # a large screen is filled with a few strokes, not cell by cell
            ops = [('fill', ('z',))] + [('put_abs', (rng.randint(1, rows), rng.randint(1, cols), rng.choice('abcdefg'))) for _ in range(6)] + ops
        elif rng.random() < 0.7:
            pre = []
            k = 0
            for r in range(1, rows + 1):
                for c in range(1, cols + 1):
                    pre.append(('put_abs', (r, c, 'abcdefghijklmnopqrstuvwxyz'[k % 26])))
                    k += 1
            ops = pre + ops
        vals = S.arg_values(rows, cols)
        probes = [tuple(rng.choice(vals) for _ in range(4)) for _ in range(2)]
        yield rows, cols, ops, probes, rng.random() < 0.25, rng.random() < 0.2


def refused_calls(ctx, screen_mod, n):
    """a call the screen refuses (it raises: here bytes handed to a screen created with encoding=None, which accepts text only)
    changes nothing at all: the documented effect of an operation is all it may do, and a refused one has none"""
    rng = ctx.rng
    tried = 0
    for it in range(n):
        rows, cols = rng.choice([(2, 3), (4, 5), (3, 7)])
        s = screen_mod.screen(rows, cols, encoding=None)
        for name, args in [S.gen_op(rng, rows, cols, 'abcXYZ') for _ in range(rng.randint(0, 8))]:
            getattr(s, name)(*args)
        vals = S.arg_values(rows, cols)
        v = lambda: rng.choice(vals)
        name, args = rng.choice([('put', (b'q',)), ('put_abs', (v(), v(), b'q')), ('insert', (b'q',)), ('insert_abs', (v(), v(), b'q')),
                                 ('fill', (b'q',)), ('fill_region', (v(), v(), v(), v(), b'q'))])
        before = S.snapshot(s)
        try:
            getattr(s, name)(*args)
        except Exception:
            tried += 1
            after = S.snapshot(s)
            if after != before:
                f = next(i for i in range(len(before)) if before[i] != after[i])
                ctx.hit('C19/refused-call', 'screen %dx%d (text only): %s%r raised, yet the screen changed: field %d was %r and is %r'
                        % (rows, cols, name, args, f, before[f], after[f]), {'rows': rows, 'cols': cols, 'op': name, 'args': repr(args)})
                return
    ctx.oracle_stats['refused_calls'] = tried


def save_moves_restore(ctx, screen_mod, n):
    """the clause of C19_save_moves_restore / C19_cursor_moves_change_only_the_cursor asked of the real screen: after any history,
    save ; cursor movements with any arguments ; restore puts the cursor back and changes nothing but the saved cursor"""
    rng = ctx.rng
    moves = ['cursor_home', 'cursor_back', 'cursor_forward', 'cursor_up', 'cursor_down', 'cursor_force_position']
    done = 0
    for it in range(n):
        rows, cols = rng.choice(SIZES + [(24, 80)])
        s = screen_mod.screen(rows, cols)
        hist = [S.gen_op(rng, rows, cols, 'abcXYZ') for _ in range(rng.randint(0, 8))]
        for name, args in hist:
            getattr(s, name)(*args)
        vals = S.arg_values(rows, cols)
        before = S.snapshot(s)
        seq = []
        rng.choice([s.cursor_save_attrs, s.cursor_save])()
        for _ in range(rng.randint(0, 6)):
            m = rng.choice(moves)
            args = (rng.choice(vals), rng.choice(vals)) if m in ('cursor_home', 'cursor_force_position') else (rng.choice(vals),)
            seq.append((m, args))
            getattr(s, m)(*args)
            mid = S.snapshot(s)
            if mid[0] != before[0] or mid[5:10] != before[5:10] or mid[3:5] != before[1:3]:     # field 10 is get() under the cursor: it moves
                ctx.hit('C19/move-frame', 'screen %dx%d: after save and the movements %r something other than the cursor changed (grid / saved cursor / scroll region): %r, was %r'
                        % (rows, cols, seq, mid[3:7], before[1:3] + before[5:7]), {'rows': rows, 'cols': cols, 'ops': hist, 'moves': seq})
                return
        rng.choice([s.cursor_restore_attrs, s.cursor_unsave])()
        after = S.snapshot(s)
        done += 1
        if after[:3] != before[:3] or after[5:] != before[5:]:
            ctx.hit('C19/save-restore', 'screen %dx%d: save at %r, movements %r, restore: the cursor is at %r (or the grid / scroll region changed)'
                    % (rows, cols, before[1:3], seq, after[1:3]), {'rows': rows, 'cols': cols, 'ops': hist, 'moves': seq})
            return
    ctx.oracle_stats['save_moves_restore'] = done


def run(ctx):
    common.preflight()
    import warnings
    warnings.simplefilter('ignore')
    from pexpect import screen as screen_mod
    thorough = ctx.tier == 'thorough'
    ctx.trusted += [
        'Coq 8.16.1 kernel (coqc); vm_compute evaluates model cases; no native_compute',
        'hand-written model coq/Screen/Model.v of pexpect/screen.py, tied to the code by job screen-ops (whole state and all accessors compared after every operation, in-Coq evaluation)',
        'Base/PySeq.v slice / slice-assignment semantics (used by scroll_up/scroll_down; job pysem of C01-C04 validates them)',
        'documentation-level reference grid (harness/screen_ops.py Ref and the cell-wise statements in Props/C19.v) written by us from the docstrings',
    ]
    ctx.assumptions += ['characters are single code points; bytes input is decoded by the latin-1 incremental decoder (multi-byte decoding belongs to C18/C07)',
                        'where a docstring is silent (vacated row of scroll_up/scroll_down keeps its contents; cursor_up_reverse at the top row scrolls up) the reference follows the source']
    ok = ctx.build('Props/C19.v', extra=['Screen/Run.v'])
    cases = []
    stats = {}
    nhit = 0
    sizes = SIZES + ([(24, 80)] if thorough else [])
    for rows, cols, ops, probes, as_bytes, alias in gen_cases(ctx, 40000 if thorough else 5000, sizes):
        try:
            s, snaps = S.run_real(screen_mod, rows, cols, ops, as_bytes, alias)
            pr = [[ord(s.get_abs(a, b)), s.get_region(a, b, c, d)] for (a, b, c, d) in probes]
        except Exception as e:
            if nhit < 3:
                nhit += 1
                ctx.hit('C19/raises', 'screen %dx%d: operation sequence raised %r' % (rows, cols, e), {'rows': rows, 'cols': cols, 'ops': ops, 'bytes': as_bytes})
            continue
        for name, _ in ops:
            stats[name] = stats.get(name, 0) + 1
        bad = S.compare_with_ref(rows, cols, ops, snaps)
        if bad is None:
            ref = S.Ref(rows, cols)
            for name, args in ops:
                getattr(ref, name)(*args)
            for (a, b, c, d), (ga, gr) in zip(probes, pr):
                if ga != ord(ref.get_abs(a, b)) or gr != ref.get_region(a, b, c, d):
                    bad = (len(ops) - 1, 'get_abs/get_region%r' % ((a, b, c, d),), [ga, gr], [ref.get_abs(a, b), ref.get_region(a, b, c, d)])
        if bad and nhit < 3:
            nhit += 1
            i, f, a, b = bad
            ctx.hit('C19/' + ops[i][0], 'screen %dx%d after %s%r: %s is %r, the documented behaviour gives %r' % (rows, cols, ops[i][0], ops[i][1], f, a, b),
                    {'rows': rows, 'cols': cols, 'ops': ops[:i + 1], 'field': f, 'real': a, 'reference': b, 'bytes': as_bytes})
        if len(cases) < (12000 if thorough else 2000) and (rows, cols) != (24, 80):
            inp = '(%s, %s, %s, %s)' % (cZ(rows), cZ(cols), clist([S.coq_op(o) for o in ops]),
                                        clist(['(%s, %s, %s, %s)' % tuple(cZ(x) for x in p) for p in probes]))
            cases.append((inp, [[sn[:7] for sn in snaps[:-1]] + [snaps[-1]], pr], {'rows': rows, 'cols': cols, 'ops': ops, 'probes': probes}))
    refused_calls(ctx, screen_mod, 3000 if thorough else 400)
    save_moves_restore(ctx, screen_mod, 6000 if thorough else 800)
    ctx.oracle_stats.update({'sequences_vs_reference_grid': 40000 if thorough else 5000, 'op_histogram': stats})
    if os.path.exists(os.path.join(common.COQ, 'Screen/Run.vo')):
        ctx.run_cases('screen-ops', ['Screen.Model', 'Screen.Run'], 'run_screen', 'Z * Z * list sop * list (Z * Z * Z * Z)', cases, shard=200)
    else:
        ctx.corr_broken.append(('screen-ops', {'error': 'model did not build'}))


def replay(ctx, path):
    common.preflight()
    import warnings
    warnings.simplefilter('ignore')
    from pexpect import screen as screen_mod
    d = json.load(open(path))['replay']
    ops = [(o[0], tuple(o[1])) for o in d['ops']]
    s, snaps = S.run_real(screen_mod, d['rows'], d['cols'], ops, d.get('bytes', False))
    bad = S.compare_with_ref(d['rows'], d['cols'], ops, snaps)
    print('ops:', ops)
    print('screen:\n' + s.pretty())
    print('difference from documented behaviour:', bad)
    return 1 if bad else 0
