"""Exhaustive oracle-script exploration (technique (b) of DESIGN.md): the code under test runs with every
environment call replaced by an oracle that answers from a script and raises NeedMore when the script is
exhausted; the explorer extends the script with every possible answer (DFS) until the function returns.
The result is the COMPLETE decision tree of the real function: every leaf = (answers, transcript, outcome)."""


class NeedMore(Exception):
    def __init__(self, query, answers):
        Exception.__init__(self, 'need more')
        self.query = query
        self.answers = answers


class Oracle:
    def __init__(self, script):
        self.script = list(script)
        self.pos = 0
        self.trace = []          # ('ask', query, answer) | ('do', effect)

    def ask(self, query, answers):
        if self.pos >= len(self.script):
            raise NeedMore(query, answers)
        a = self.script[self.pos]
        self.pos += 1
        self.trace.append(('ask', query, a))
        return a

    def do(self, effect):
        self.trace.append(('do', effect))


def explore(run, max_leaves=200000, max_depth=40, max_nodes=400000, budget_s=120.0):
    """run(oracle) -> outcome (any value; exceptions must be turned into outcomes by run).
    Breadth-first over answer scripts (so that a function that can loop for ever still yields all its short
    dialogues first).  Returns (leaves, complete) with leaves = [(script, trace, outcome)]"""
    import collections
    import time
    leaves = []
    queue = collections.deque([[]])
    complete = True
    nodes = 0
    t0 = time.time()
    while queue:
        script = queue.popleft()
        nodes += 1
        if nodes > max_nodes or time.time() - t0 > budget_s:
            complete = False
            break
        o = Oracle(script)
        try:
            out = run(o)
        except NeedMore as nm:
            if len(script) >= max_depth:
                complete = False
                continue
            for a in nm.answers:
                queue.append(script + [a])
            continue
        leaves.append((script, o.trace, out))
        if len(leaves) >= max_leaves:
            complete = False
            break
    return leaves, complete
