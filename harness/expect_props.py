"""shared driver of the checks C01-C04 (Expecter): Coq proofs + correspondence expect-hist + direct oracles"""
import codecs
import json
import os
import re

from . import common
from .common import clist, cnat, ctext, copt
from . import expect_hist as H

TRUSTED = [
    'Coq 8.16.1 kernel (coqc); vm_compute evaluates model cases; no native_compute',
    'hand-written model coq/Expect/Model.v of pexpect/expect.py + SpawnBase.buffer setter, tied to the code by the correspondence job expect-hist (same histories run on the real code and inside Coq; results, before/after, spans, _before/_buffer contents and events consumed compared after every call)',
    'regex engine Base/Rx.v stands in for CPython re when executing the model (validated by job rx-vs-re); theorems are parametric in the engine',
    'Base/PySeq.v as a description of CPython slicing/find (validated by job pysem)',
    'scripted-transport harness and direct oracles (Python)',
]
ASSUME = ['CPython re.search(text, pos) returns the leftmost match at or after pos (law R); theorems about regex calls are relative to it',
          'read_nonblocking delivers events as scripted: Data / TIMEOUT / EOF / other exception']

RULE = ('histories = (event script over Data/TIMEOUT/EOF/error, list of expect_exact/expect_list calls with pattern lists incl. EOF/TIMEOUT markers, '
        'per-call search window, timeout-0 flag, buffer assignments); exhaustive small scope (all streams over {a,b} up to a length bound x all chunkings x '
        'pattern families x windows) + seeded random structured histories in bytes and unicode mode; distinct = distinct model inputs')


def rx_vs_re(ctx, n):
    import re
    rng = ctx.rng
    cases = []
    for _ in range(n):
        alpha = rng.choice(['ab', 'ab\n', 'abc'])
        t = ''.join(rng.choice(alpha) for _ in range(rng.randint(0, 8)))
        r = H.gen_rx(rng, t, alpha)
        pos = rng.randint(0, len(t))
        m = re.compile(H.rx_src(r, None), re.DOTALL).search(t, pos)
        cases.append(('(%s, %s, %s)' % (H.rx_coq(r), common.ctext(t), common.cnat(pos)),
                      common.opt(None if m is None else list(m.span())), {'regex': H.rx_src(r, None), 'text': t, 'pos': pos}))
    ctx.run_cases('rx-vs-re', ['Base.Rx', 'Expect.Run'], 'run_rx', 'rx * list N * nat', cases)


def pysem(ctx):
    """Base/PySeq.v against CPython: all lists over {0,1} of length <= 4, all indices -6..6"""
    import itertools
    cases = []
    lists = [list(t) for n in range(0, 5) for t in itertools.product([0, 1], repeat=n)]
    rng = ctx.rng
    for l in lists:
        for a in [None] + list(range(-6, 7)):
            for b in [None] + list(range(-6, 7)):
                if rng.random() < 0.25:
                    exp = l[slice(a, b)]
                    cases.append(('(0%%nat, %s, %s, %s, []%%N)' % (common.ctext(bytes(l)), common.copt(a, common.cZ), common.copt(b, common.cZ)),
                                  exp, {'slice': [l, a, b]}))
        for s in [[], [0], [1], [0, 1], [1, 1]]:
            for st in range(-6, 7):
                exp = bytes(l).find(bytes(s), st)
                cases.append(('(1%%nat, %s, Some %s, None, %s)' % (common.ctext(bytes(l)), common.cZ(st), common.ctext(bytes(s))),
                              common.opt(None if exp < 0 else exp), {'find': [l, s, st]}))
    ctx.run_cases('pysem', ['Base.PySeq', 'Expect.Run'], 'run_pysem', 'nat * list N * option Z * option Z * list N', cases)


def expect_hist(ctx, which, n_random, small_len, oracle_extra):
    pexpect = common.preflight()
    rng = ctx.rng
    cases = []
    ncorr = 0
    hits = 0
    stats = {'ops': {}, 'outcomes': {}, 'modes': {'bytes': 0, 'unicode': 0}}

    def one(case, to_model):
        nonlocal hits
        obs, sp = H.run_real(pexpect, case)
        exp = H.reference_history(pexpect, case)
        verdict = H.judge(pexpect, case, obs, exp, which)
        for o in obs:
            stats['ops'][o['op']] = stats['ops'].get(o['op'], 0) + 1
            if o['op'] == 'call':
                k = str(o['res'][0])
                stats['outcomes'][k] = stats['outcomes'].get(k, 0) + 1
        stats['modes']['unicode' if case['unicode'] else 'bytes'] += 1
        if verdict and hits < 5:
            hits += 1
            ctx.hit(verdict[0], verdict[1], {'case': case, 'observed': [{k: repr(v) for k, v in o.items()} for o in obs]})
        if to_model:
            cases.append((H.coq_case(case, exp), H.expected_V(case, obs, exp), case))

    corpus = os.path.join(common.VERIF, 'corpus', 'expect')
    if os.path.isdir(corpus):
        for f in sorted(os.listdir(corpus)):
            for case in json.load(open(os.path.join(corpus, f))):
                case['ops'] = [tuple(o) if o[0] == 'setbuf' else ('call', o[1], [tuple(p) if isinstance(p, list) else p for p in o[2]], o[3], o[4]) for o in case['ops']]
                case['ops'] = [(o[0], o[1]) if o[0] == 'setbuf' else o for o in case['ops']]
                fix_rx(case)
                one(case, True)
    for case in H.small_cases(small_len):
        one(case, rng.random() < 0.25)
    for i in range(n_random):
        one(H.gen_case(rng), True)
    for i in range(oracle_extra):
        one(H.gen_case(rng, maxlen=rng.choice([10, 16, 30])), False)
    ctx.oracle_stats.update({'histories_judged': sum(stats['modes'].values()), 'distribution': stats})
    ctx.run_cases('expect-hist', ['Base.PySeq', 'Base.Rx', 'Expect.Model', 'Expect.Run'], 'run_hist', 'hist_case', cases, shard=300)


def fix_rx(case):
    def t(x):
        return tuple(t(e) for e in x) if isinstance(x, list) else x
    ops = []
    for o in case['ops']:
        if o[0] == 'call':
            ops.append(('call', o[1], [p if isinstance(p, str) else (p[0], t(p[1]) if p[0] == 'r' else p[1]) for p in o[2]], o[3], o[4]))
        else:
            ops.append(o)
    case['ops'] = ops


def run_property(ctx, which, props_file):
    thorough = ctx.tier == 'thorough'
    ctx.trusted += TRUSTED
    ctx.assumptions += ASSUME
    ok = ctx.build(props_file, extra=['Expect/Run.v', 'Compose/Run.v'] if which in ('C01', 'C04') else ['Expect/Run.v'])
    have_model = os.path.exists(os.path.join(common.COQ, 'Expect/Run.vo'))
    if have_model:
        pysem(ctx)
        rx_vs_re(ctx, 6000 if thorough else 1200)
    broken = bool(ctx.proof_broken or ctx.corr_broken)
    if have_model:
        expect_hist(ctx, which, 60000 if thorough else 5000, 6 if thorough else 4, (400000 if thorough else 40000))
    else:
        ctx.corr_broken.append(('expect-hist', {'error': 'model did not build'}))
    if which == 'C01' and have_model:
        wrappers_job(ctx, 12000 if thorough else 2000)
    if which in ('C01', 'C04'):
        wrapper_oracle(ctx, which, 30000 if thorough else 4000)
        from . import sim_expect
        sim_expect.run(ctx, common.preflight(), which, 40000 if thorough else 4000)
    if which == 'C04':
        async_outcomes_oracle(ctx, 300 if thorough else 40)
        real_outcomes_oracle(ctx, 400 if thorough else 60)
    if which == 'C01':
        unicode_pipe_oracle(ctx, 400 if thorough else 40)
        awaited_idle_conservation(ctx, 150 if thorough else 25)
        real_transport_conservation(ctx, (0, 100, 6000, 70000) if thorough else (100, 6000), (2000, 64, 1, 100000) if thorough else (2000, 64))


def replay(ctx, path, which):
    pexpect = common.preflight()
    d = json.load(open(path))
    case = d.get('replay', {}).get('case')
    if not case:
        print(json.dumps(d, indent=1)[:3000])
        return 1
    case['ops'] = [tuple(o) for o in case['ops']]
    fix_rx(case)
    obs, sp = H.run_real(pexpect, case)
    exp = H.reference_history(pexpect, case)
    v = H.judge(pexpect, case, obs, exp, which)
    print('case:', case)
    for o in obs:
        print('  observed:', {k: o[k] for k in ('res', 'pend', 'buf', 'left') if k in o})
    print('verdict:', v)
    return 1 if v else 0


def wrappers_job(ctx, n):
    """correspondence for Expect/Wrappers.v: the REAL read / readline / iteration on a scripted transport (with a search
    window on the spawn object, TIMEOUTs and transport errors in the script) against the model, after every call"""
    pexpect = common.preflight()
    rng = ctx.rng
    cases = []
    for _ in range(n):
        uni = rng.random() < 0.3
        wd = rng.choice([None, None, 1, 2, 3, 5])
        stream = ''.join(rng.choice('ab\r\n') if rng.random() < 0.65 else '\r\n' for _ in range(rng.randint(0, 16)))
        script, i = [], 0
        while i < len(stream):
            k = rng.choice([1, 1, 2, 3, 5])
            script.append(stream[i:i + k])
            i += k
            if rng.random() < 0.2:
                script.append(rng.choice(['T', 'T', 'T', 'X']))
        if rng.random() < 0.5:
            script.append('E')
        ops = []
        for _ in range(rng.randint(1, 5)):
            x = rng.random()
            if x < 0.3:
                # an ordinary expect-family call in between (it may time out and leave a trimmed search buffer behind)
                pats = [rng.choice(['a', 'b', 'ab', 'ba', '\r\n', 'zz', 'aab']) for _ in range(rng.randint(1, 2))]
                if rng.random() < 0.3:
                    pats.insert(rng.randint(0, len(pats)), rng.choice(['EOF', 'TIMEOUT']))
                ops.append(('call', rng.choice(['exact', 're']), pats, rng.random() < 0.2))
            else:
                ops.append(rng.choice([('readline',), ('readline',), ('readall',), ('readn', rng.randint(0, 4)), ('readn', rng.randint(1, 3)), ('readlines',)]))
        sp, enc = H.make_spawn(pexpect, uni, script)
        sp.searchwindowsize = wd
        obs = []
        for op in ops:
            try:
                if op[0] == 'readline':
                    r = [0, sp.readline()]
                elif op[0] == 'readall':
                    r = [0, sp.read()]
                elif op[0] == 'readn':
                    r = [0, sp.read(op[1])]
                elif op[0] == 'call':
                    plist = [pexpect.EOF if p == 'EOF' else pexpect.TIMEOUT if p == 'TIMEOUT' else (enc(p) if op[1] == 'exact' else re.compile(re.escape(enc(p)), re.DOTALL)) for p in op[2]]
                    try:
                        idx = (sp.expect_exact if op[1] == 'exact' else sp.expect_list)(plist, timeout=0 if op[3] else 30)
                        if sp.after is pexpect.EOF:
                            r = [3, [1, [idx], sp.before]]
                        elif sp.after is pexpect.TIMEOUT:
                            r = [3, [2, [idx], sp.before]]
                        else:
                            r = [3, [0, idx, sp.before, sp.after]]
                    except pexpect.EOF:
                        r = [3, [1, [], sp.before]]
                    except pexpect.TIMEOUT:
                        r = [3, [2, [], sp.before]]
                    except OSError:
                        r = [3, [3, sp.before]]
                else:
                    lines, fin = [], 0
                    try:
                        for l in sp:
                            lines.append(l)
                    except pexpect.TIMEOUT:
                        fin = 2
                    except OSError:
                        fin = 3
                    r = [2, lines, fin]
            except pexpect.TIMEOUT:
                r = [1, 2]
            except OSError:
                r = [1, 3]
            except pexpect.EOF:
                r = [1, 1]
            obs.append([r, sp._before.getvalue(), sp._buffer.getvalue(), len(sp.script)])
        def cop(o):
            if o[0] == 'call':
                ents = ['PEof' if p == 'EOF' else 'PTimeout' if p == 'TIMEOUT' else ('(PStr %s)' % ctext(enc(p)) if o[1] == 'exact' else '(PRe (Lit %s))' % ctext(enc(p))) for p in o[2]]
                return '(WCall %s %s %s)' % ('KExact' if o[1] == 'exact' else 'KRe', clist(ents), 'true' if o[3] else 'false')
            return 'WReadline' if o[0] == 'readline' else 'WReadAll' if o[0] == 'readall' else 'WReadlines' if o[0] == 'readlines' else '(WReadN %s)' % cnat(o[1])
        cops = clist([cop(o) for o in ops])
        evs = clist(['Timeout' if e == 'T' else 'Eof' if e == 'E' else 'Err' if e == 'X' else '(Data %s)' % ctext(enc(e)) for e in script])
        cases.append(('(%s, %s, %s, {| pend := []; buf := [] |})' % (copt(wd, cnat), cops, evs), obs, {'script': script, 'ops': [list(o) for o in ops], 'W': wd, 'unicode': uni}))
    ctx.run_cases('wrappers', ['Base.PySeq', 'Base.Rx', 'Expect.Model', 'Expect.Wrappers', 'Expect.Run'], 'run_wrappers',
                  'option nat * list (wop rx) * list ev * st', cases, shard=250)


def wrapper_oracle(ctx, which, n):
    """read(size) / readline / readlines / iteration / expect mixed on one scripted stream with TIMEOUTs in between (direct
    oracle on the real code): the pieces returned, in order, followed by what is still pending (the buffer attribute after a
    match, before after a TIMEOUT), are the text received; a call that times out hands back nothing; after EOF every further
    call returns the empty string (C01, C04)."""
    pexpect = common.preflight()
    rng = ctx.rng
    tried = 0
    for _ in range(n):
        uni = rng.random() < 0.3
        alpha = 'ab\r\n' if rng.random() < 0.7 else 'a\r\nb\r'
        stream = ''.join(rng.choice(alpha) if rng.random() < 0.7 else '\r\n' for _ in range(rng.randint(0, 14)))
        script, i = [], 0
        with_timeouts = rng.random() < 0.5
        while i < len(stream):
            k = rng.choice([1, 1, 2, 3, 5])
            script.append(stream[i:i + k])
            i += k
            if with_timeouts and rng.random() < 0.3:
                script.append('T')
        sp, enc = H.make_spawn(pexpect, uni, script)
        got = enc('')
        calls = []
        ok = True
        eof_seen = False
        for _ in range(rng.randint(1, 6)):
            op = rng.choice(['read1', 'readn', 'readline', 'readline', 'expect', 'expect', 'readall', 'readlines', 'iter'])
            timed_out = False
            try:
                if op == 'read1':
                    r = sp.read(1)
                elif op == 'readn':
                    r = sp.read(rng.randint(2, 4))
                elif op == 'readline':
                    r = sp.readline()
                elif op == 'readall':
                    r = sp.read()
                elif op == 'readlines':
                    r = enc('').join(sp.readlines())
                elif op == 'iter':
                    r = enc('').join(list(sp))
                else:
                    pat = enc(rng.choice(['a', 'b', '\r\n', 'ab', 'zz', 'bab']))
                    i2 = sp.expect_exact([pat, pexpect.EOF])
                    r = sp.before + (sp.after if i2 == 0 else enc(''))
            except pexpect.TIMEOUT:
                # a call that times out consumes nothing (pieces that readlines()/iteration had already collected are lost to
                # the caller with the exception: those two are not mixed with TIMEOUTs here)
                if op in ('readlines', 'iter'):
                    break
                timed_out = True
                r = enc('')
            except Exception as e:
                ctx.hit('%s/wrapper-raises' % which, '%s raised %r on stream %r' % (op, e, stream),
                        {'stream': stream, 'script': script, 'calls': calls + [op], 'unicode': uni})
                ok = False
                break
            calls.append(op + ('(TIMEOUT)' if timed_out else ''))
            got += r
            consumed = enc('').join(sp.consumed)
            pending = sp.before if timed_out else sp.buffer
            if got + pending != consumed:
                ctx.hit('C01/wrappers', 'after %r: returned pieces %r + pending %r != received %r' % (calls, got, pending, consumed),
                        {'stream': stream, 'script': script, 'calls': calls, 'unicode': uni})
                ok = False
                break
            if eof_seen and r != enc(''):
                ctx.hit('C04/after-eof', 'call %s after EOF returned %r' % (op, r), {'stream': stream, 'script': script, 'calls': calls, 'unicode': uni})
                ok = False
                break
            if not sp.script and sp.buffer == enc('') and op in ('readall', 'readlines', 'iter') and not timed_out:
                eof_seen = True
        tried += 1
        if not ok:
            break
    ctx.oracle_stats['wrapper_histories'] = tried


def unicode_pipe_oracle(ctx, n):
    """C01 in unicode mode through a REAL read path (fdspawn on a pipe): multi-byte characters cut by read
    boundaries; handed-back text + pending text must be the decoding of everything written"""
    import os
    from pexpect import fdpexpect
    pexpect = common.preflight()
    rng = ctx.rng
    tried = 0
    for it in range(n):
        text = ''.join(rng.choice(['a', 'b', 'é', '☃', '😀', '\n']) for _ in range(rng.randint(2, 10)))
        raw = text.encode('utf-8')
        cuts = sorted(set(rng.randrange(1, len(raw)) for _ in range(rng.randint(1, 3)))) if len(raw) > 1 else []
        pieces, prev = [], 0
        for c_ in cuts + [len(raw)]:
            pieces.append(raw[prev:c_])
            prev = c_
        r, w = os.pipe()
        f = fdpexpect.fdspawn(r, encoding='utf-8', timeout=0.05)
        handed = ''
        try:
            for p in pieces:
                os.write(w, p)
                pat = rng.choice(['a', 'b', 'é', '☃', 'zz'])
                try:
                    f.expect_exact(pat, timeout=0.05)
                    handed += f.before + f.after
                    pending = f.buffer
                except pexpect.TIMEOUT:
                    pending = f.before           # after a TIMEOUT the pending text is `before` (`buffer` may be a trimmed tail of it)
                if rng.random() < 0.4:
                    # the application edits the pending text between two reads (here: puts it back as it is): only the pending
                    # TEXT is replaced - a character of which only the first bytes have arrived is still to be completed
                    f.buffer = pending
            os.close(w)
            w = None
            f.expect(pexpect.EOF, timeout=1)
            handed += f.before
        except Exception as e:
            ctx.hit('C01/unicode-pipe', 'unicode fdspawn on pieces %r raised %r' % (pieces, e), {'pieces': [list(p) for p in pieces]})
            return
        finally:
            if w is not None:
                os.close(w)
            os.close(r)
        tried += 1
        if handed != text:
            ctx.hit('C01/unicode-pipe', 'child wrote %r in pieces %r; the expect calls handed back %r' % (text, pieces, handed), {'pieces': [list(p) for p in pieces]})
            return
    ctx.oracle_stats['unicode_pipe_streams'] = tried


def real_transport_conservation(ctx, sizes, maxreads):
    """C01 end to end, on the four real transports: the peer writes n bytes (n above and below maxread, the pieces larger and
    smaller than a read), the caller makes expect_exact calls for a marker that recurs in the data and finally expect(EOF);
    every before+after handed back, in order, followed by the last before, must be exactly what the peer wrote"""
    import socket
    import sys
    import threading
    from pexpect import fdpexpect, popen_spawn, socket_pexpect
    pexpect = common.preflight()
    unit = b"0123456789abcdefghijklmnopqrstuvwxyzABCDEFGHIJKLMNOPQRSTUVWXYZ-_"
    gen = r"""
import sys, os, time
n = int(sys.argv[1]); k = int(sys.argv[2])
data = (b"0123456789abcdefghijklmnopqrstuvwxyzABCDEFGHIJKLMNOPQRSTUVWXYZ-_" * (n // 64 + 1))[:n]
i = 0
while i < n:
    os.write(1, data[i:i+k]); i += k
"""
    tried = 0
    for n in sizes:
        want = (unit * (n // 64 + 1))[:n]
        for maxread in maxreads:
            for transport in ('popen', 'fd', 'pty', 'socket'):
                k = ctx.rng.choice([7, 997, 4096, 70000])
                calls = ctx.rng.randint(0, 4)
                wait_first = ctx.rng.random() < 0.5          # let the output pile up before the first call
                up = ctx.rng.random() < 0.5                  # wait with poll() instead of select()
                th = None
                try:
                    if transport == 'pty':
                        c = pexpect.spawn(sys.executable, ['-c', 'import tty,sys; tty.setraw(1)\n' + gen, str(n), str(k)], maxread=maxread, timeout=60, use_poll=up)
                    elif transport == 'popen':
                        c = popen_spawn.PopenSpawn([sys.executable, '-c', gen, str(n), str(k)], maxread=maxread, timeout=60)
                    elif transport == 'fd':
                        r, w = os.pipe()

                        def feed(w=w, want=want, k=k):
                            for i in range(0, len(want), k):
                                os.write(w, want[i:i + k])
                            os.close(w)
                        th = threading.Thread(target=feed)
                        th.start()
                        c = fdpexpect.fdspawn(r, maxread=maxread, timeout=60, use_poll=up)
                    else:
                        a, b = socket.socketpair()
                        th = threading.Thread(target=lambda b=b, want=want: (b.sendall(want), b.close()))
                        th.start()
                        c = socket_pexpect.SocketSpawn(a, maxread=maxread, timeout=60, use_poll=up)
                    if wait_first:
                        import time
                        time.sleep(0.3)
                    got = b''
                    for _ in range(calls):
                        i = c.expect_exact([b'XYZ-_0', pexpect.EOF])
                        got += c.before + (c.after if i == 0 else b'')
                        if i == 1:
                            break
                    else:
                        c.expect(pexpect.EOF)
                        got += c.before
                    if th:
                        th.join()
                    if transport == 'popen':
                        c.wait()
                    else:
                        c.close()
                except Exception as e:
                    ctx.hit('C01/real-' + transport, '%s transport (use_poll=%s), %d bytes, maxread %d: %r' % (transport, up, n, maxread, e), {'n': n, 'maxread': maxread, 'piece': k, 'use_poll': up})
                    return
                tried += 1
                if got != want:
                    j = next((x for x in range(min(len(got), len(want))) if got[x] != want[x]), min(len(got), len(want)))
                    ctx.hit('C01/real-' + transport, '%s transport: the peer wrote %d bytes in pieces of %d; %d expect_exact calls + expect(EOF) (maxread %d) handed back %d bytes; first difference at offset %d'
                            % (transport, n, k, calls, maxread, len(got), j), {'transport': transport, 'n': n, 'piece': k, 'maxread': maxread, 'calls': calls, 'wait_first': wait_first, 'use_poll': up})
                    return
    ctx.oracle_stats['real_transport_streams'] = tried


def async_outcomes_oracle(ctx, n):
    """C04 through the awaited entry point, on real pipes, sockets and ptys under a real event loop: the stream ends (or the time
    runs out) before any pattern matches -> index of the listed marker or else that exception, before = all pending text,
    after = the marker class"""
    import asyncio
    import socket
    from pexpect import fdpexpect, socket_pexpect
    pexpect = common.preflight()
    rng = ctx.rng
    tried = 0
    for it in range(n):
        transport = rng.choice(['pipe', 'socket', 'fdsocket', 'pty'])
        data = bytes(rng.choice(b'abc') for _ in range(rng.randint(0, 12)))
        ending = rng.choice(['eof', 'eof', 'timeout'])
        listed = rng.random() < 0.5
        marker = pexpect.EOF if ending == 'eof' else pexpect.TIMEOUT
        pats = [b'zz'] + ([marker] if listed else [])
        if rng.random() < 0.3:
            pats.insert(0, pexpect.TIMEOUT if ending == 'eof' else pexpect.EOF)      # the other marker, listed first, must not be chosen
        split = rng.randint(0, len(data))
        closers = []
        if transport == 'pipe':
            r, w = os.pipe()
            c = fdpexpect.fdspawn(r, timeout=5)
            wr = lambda b: os.write(w, b) if b else None
            end = lambda: os.close(w)
            closers = [lambda: os.close(r)]
        elif transport == 'pty':
            # raw mode: the child copies exactly len(data) bytes and exits (stream ends), or keeps copying (stream goes silent)
            c = pexpect.spawn('/bin/sh', ['-c', 'stty raw -echo; printf READY; exec %s' % ('head -c %d' % len(data) if ending == 'eof' else 'cat')], timeout=5, echo=False)
            c.expect_exact(b'READY')
            wr = lambda b: c.send(b) if b else None
            end = lambda: None
            closers = [lambda: c.close(force=True)]
        else:
            a, b = socket.socketpair()
            c = socket_pexpect.SocketSpawn(a, timeout=5) if transport == 'socket' else fdpexpect.fdspawn(a.fileno(), timeout=5)
            wr = lambda x: b.sendall(x) if x else None
            end = lambda: b.close()
            closers = [lambda: a.close()]
        out = {}

        async def go():
            wr(data[:split])
            if rng.random() < 0.5 and not (transport == 'pty' and ending == 'eof' and split == len(data)):
                # a first awaited call that times out, so that the waiter exists and holds pending text (not when the pty child
                # has all its input already: it would exit during this call)
                try:
                    await c.expect_exact([b'zz'], timeout=0.05, async_=True)
                except pexpect.TIMEOUT:
                    pass
            wr(data[split:])
            if ending == 'eof':
                end()
            try:
                out['idx'] = await c.expect_exact(list(pats), timeout=10 if ending == 'eof' else 0.2, async_=True)
            except pexpect.EOF:
                out['exc'] = 'EOF'
            except pexpect.TIMEOUT:
                out['exc'] = 'TIMEOUT'
        loop = asyncio.new_event_loop()
        try:
            asyncio.set_event_loop(loop)
            loop.run_until_complete(go())
            before, after = c.before, c.after
        except Exception as e:
            out['exc'] = repr(e)
            before, after = c.before, c.after
        finally:
            try:
                if c.async_pw_transport:
                    c.async_pw_transport[1].close()
            except Exception:
                pass
            loop.run_until_complete(asyncio.sleep(0))
            loop.close()
            asyncio.set_event_loop(None)
            if ending != 'eof':
                try:
                    end()
                except Exception:
                    pass
            for f in closers:
                try:
                    f()
                except Exception:
                    pass
        tried += 1
        name = marker.__name__
        bad = None
        if listed and out.get('idx') != pats.index(marker):
            bad = 'expected index %d (the listed %s), got %r' % (pats.index(marker), name, out)
        elif not listed and out.get('exc') != name:
            bad = 'expected the %s exception, got %r' % (name, out)
        elif after is not marker:
            bad = 'after is %r, expected the %s class' % (after, name)
        elif before != data:
            bad = 'before is %r, but the pending text was %r' % (before, data)
        if bad:
            ctx.hit('C04/awaited', 'awaited expect_exact(%r) on a %s whose stream %s after %r (written as %r + %r): %s'
                    % ([p if isinstance(p, bytes) else p.__name__ for p in pats], transport, 'ended' if ending == 'eof' else 'went silent', data, data[:split], data[split:], bad),
                    {'transport': transport, 'data': list(data), 'split': split, 'ending': ending, 'listed': listed})
            return
    ctx.oracle_stats['awaited_outcomes'] = tried


def real_outcomes_oracle(ctx, n):
    """C04 with blocking calls on real pipes, sockets and ptys, waiting with select() or with poll(): the stream ends (or goes
    silent) before any pattern matches -> index of the listed marker or else that exception, before = all pending text, and after
    EOF every further call reports EOF again"""
    import socket
    from pexpect import fdpexpect, socket_pexpect
    pexpect = common.preflight()
    rng = ctx.rng
    tried = 0
    for it in range(n):
        transport = rng.choice(['pipe', 'socket', 'fdsocket', 'pty'])
        up = rng.random() < 0.5
        data = bytes(rng.choice(b'abc') for _ in range(rng.randint(0, 12)))
        ending = rng.choice(['eof', 'eof', 'timeout'])
        listed = rng.random() < 0.5
        marker = pexpect.EOF if ending == 'eof' else pexpect.TIMEOUT
        # text mode (strict decoding, the default) on the descriptor transports: the stream may stop in the MIDDLE of a character -
        # the outcome is still EOF / TIMEOUT, before is the text of the complete characters
        uni = transport != 'pty' and rng.random() < 0.4
        if uni:
            data = ''.join(rng.choice(['a', 'b', 'é', '☃']) for _ in range(rng.randint(0, 6))).encode('utf-8') + rng.choice([b'', b'', b'\xc3', b'\xe2\x98'])
        ekw = {'encoding': 'utf-8'} if uni else {}
        Z = 'zz' if uni else b'zz'
        pats = [Z] + ([marker] if listed else [])
        closers = []
        if transport == 'pipe':
            r, w = os.pipe()
            c = fdpexpect.fdspawn(r, timeout=5, use_poll=up, **ekw)
            os.write(w, data) if data else None
            if ending == 'eof':
                os.close(w)
            else:
                closers.append(lambda: os.close(w))
            closers.append(lambda: os.close(r))
        elif transport == 'pty':
            c = pexpect.spawn('/bin/sh', ['-c', 'stty raw -echo; printf READY; exec %s' % ('head -c %d' % len(data) if ending == 'eof' else 'cat')], timeout=5, echo=False, use_poll=up)
            c.expect_exact(b'READY')
            c.send(data) if data else None
            closers.append(lambda: c.close(force=True))
        else:
            a, b = socket.socketpair()
            c = socket_pexpect.SocketSpawn(a, timeout=5, use_poll=up, **ekw) if transport == 'socket' else fdpexpect.fdspawn(a.fileno(), timeout=5, use_poll=up, **ekw)
            b.sendall(data) if data else None
            if ending == 'eof':
                b.close()
            else:
                closers.append(lambda: b.close())
            closers.append(lambda: a.close())
        out = {}
        try:
            try:
                out['idx'] = c.expect_exact(list(pats), timeout=10 if ending == 'eof' else 0.2)
            except pexpect.EOF:
                out['exc'] = 'EOF'
            except pexpect.TIMEOUT:
                out['exc'] = 'TIMEOUT'
            except Exception as e:
                out['exc'] = repr(e)
            before, after = c.before, c.after
            again = None
            if ending == 'eof':
                try:
                    c.expect_exact([Z], timeout=1)
                    again = 'matched'
                except pexpect.EOF:
                    again = 'EOF' if c.before in (b'', '') else 'EOF with before=%r' % c.before
                except Exception as e:
                    again = type(e).__name__
        finally:
            for f in closers:
                try:
                    f()
                except Exception:
                    pass
        tried += 1
        name = marker.__name__
        bad = None
        if listed and out.get('idx') != pats.index(marker):
            bad = 'expected index %d (the listed %s), got %r' % (pats.index(marker), name, out)
        elif not listed and out.get('exc') != name:
            bad = 'expected the %s exception, got %r' % (name, out)
        elif after is not marker:
            bad = 'after is %r, expected the %s class' % (after, name)
        elif before != (codecs.getincrementaldecoder('utf-8')('strict').decode(data, False) if uni else data):
            bad = 'before is %r, but the pending text was %r' % (before, data)
        elif ending == 'eof' and again != 'EOF':
            bad = 'a further call after EOF gave %r' % (again,)
        if bad:
            ctx.hit('C04/real-outcome', 'expect_exact(%r) on a %s (use_poll=%s) whose stream %s after %r: %s'
                    % ([p if isinstance(p, (bytes, str)) else p.__name__ for p in pats], transport, up, 'ended' if ending == 'eof' else 'went silent', data, bad),
                    {'transport': transport, 'data': list(data), 'ending': ending, 'listed': listed, 'use_poll': up})
            return
    ctx.oracle_stats['real_outcomes'] = tried


def awaited_idle_conservation(ctx, n):
    """C01 through the awaited entry point under a real event loop: after a match the child writes more and ends its stream WHILE NO
    CALL IS OUTSTANDING (the loop keeps running); the next awaited calls hand back the rest - nothing of it is lost with the end"""
    import asyncio
    import socket
    from pexpect import fdpexpect, socket_pexpect
    pexpect = common.preflight()
    rng = ctx.rng
    tried = 0
    for it in range(n):
        transport = rng.choice(['pipe', 'socket'])
        head = bytes(rng.choice(b'ab') for _ in range(rng.randint(0, 5)))
        tail = bytes(rng.choice(b'abMARK') for _ in range(rng.randint(0, 9)))
        if transport == 'pipe':
            r, w = os.pipe()
            c = fdpexpect.fdspawn(r, timeout=5)
            wr, end = (lambda b: os.write(w, b) if b else None), (lambda: os.close(w))
            last = [lambda: os.close(r)]
        else:
            a, b = socket.socketpair()
            c = socket_pexpect.SocketSpawn(a, timeout=5)
            wr, end = (lambda x: b.sendall(x) if x else None), b.close
            last = [a.close]
        got = []

        async def go():
            wr(head + b'#')
            await c.expect_exact(b'#', async_=True)
            got.append(c.before + c.after)
            wr(tail)
            end()
            await asyncio.sleep(rng.choice([0.0, 0.05, 0.2]))       # the loop runs, nobody is waiting
            if rng.random() < 0.5:
                try:
                    await c.expect_exact([b'MARK'], timeout=1, async_=True)
                    got.append(c.before + c.after)
                except pexpect.EOF:
                    got.append(c.before)
                    return
            try:
                await c.expect(pexpect.EOF, timeout=2, async_=True)
                got.append(c.before)
            except Exception as e:
                got.append(('raised', repr(e)))
        loop = asyncio.new_event_loop()
        try:
            asyncio.set_event_loop(loop)
            loop.run_until_complete(go())
        except Exception as e:
            got.append(('raised', repr(e)))
        finally:
            try:
                if c.async_pw_transport:
                    c.async_pw_transport[1].close()
            except Exception:
                pass
            loop.run_until_complete(asyncio.sleep(0))
            loop.close()
            asyncio.set_event_loop(None)
            for f_ in last:
                try:
                    f_()
                except Exception:
                    pass
        tried += 1
        bad = [g for g in got if not isinstance(g, bytes)]
        if bad or b''.join(got) != head + b'#' + tail:
            ctx.hit('C01/awaited-idle', '%s: the peer wrote %r, then (after the first awaited match) %r and closed while no call was outstanding; the awaited calls handed back %r'
                    % (transport, head + b'#', tail, got), {'transport': transport, 'head': list(head), 'tail': list(tail)})
            return
    ctx.oracle_stats['awaited_idle_streams'] = tried
