"""Scripted harness for PopenSpawn (C06): the REAL PopenSpawn.read_nonblocking on an object whose queue is a fake that applies the
scheduled environment actions (peer writes / exits, steps of the reader thread) just before each get_nowait(), with the clock
scripted; and the REAL _read_incoming on scripted os.read results.  Python copy of coq/Transport/Popen.v."""
import os

from .common import ctext, clist, cnat, cbool

BIG = 1000.0


class World:
    def __init__(self, buf, is_open, alive):
        self.buf, self.open, self.alive = bytes(buf), is_open, alive
        self.queue = []
        self.tdone = False

    def env(self, acts):
        for a in acts:
            if a[0] == 'w':
                if self.open and self.alive:
                    self.buf += a[1]
            elif a[0] == 'exit':
                self.open = self.alive = False
            elif a[0] == 'hangup':
                self.open = False
            else:                                   # ('t', j): one os.read(1024) + put of the reader thread
                if self.tdone:
                    continue
                if not self.buf:
                    if not self.open:
                        self.queue.append(None)
                        self.tdone = True
                    continue
                m = min(1024, a[1] + 1, len(self.buf))
                self.queue.append(self.buf[:m])
                self.buf = self.buf[m:]


def make(pexpect, world):
    import pexpect.popen_spawn as pp
    from pexpect.spawnbase import SpawnBase
    sp = pp.PopenSpawn.__new__(pp.PopenSpawn)
    SpawnBase.__init__(sp, timeout=30, encoding=None)
    sp._buf = b''
    sp._read_reached_eof = False
    sp.closed = False
    box = {'sched': [], 'next': 0.0, 'first': True}

    class FakeQueue:
        def get_nowait(self_):
            acts, expired = box['sched'].pop(0) if box['sched'] else ([], True)
            world.env(acts)
            box['next'] = BIG if expired else 0.0
            if not world.queue:
                raise pp.Empty()
            return world.queue.pop(0)

    class FakeTime:
        @staticmethod
        def time():
            if box['first']:
                box['first'] = False
                return 0.0
            return box['next']

        @staticmethod
        def sleep(d):
            pass
    sp._read_queue = FakeQueue()
    return sp, box, FakeTime


def run_ops(pexpect, kern, ops):
    import pexpect.popen_spawn as pp
    world = World(*kern)
    sp, box, FakeTime = make(pexpect, world)
    saved = pp.time
    pp.time = FakeTime
    obs = []

    def state():
        return [[world.buf, world.open, world.alive], [([] if x is None else [x]) for x in world.queue], sp._buf, sp._read_reached_eof, world.tdone]
    try:
        for o in ops:
            if o[0] == 'env':
                world.env(o[1])
                obs.append([state()])
                continue
            _, size, sched = o
            box['sched'] = list(sched)
            box['first'] = True
            try:
                r = [0, sp.read_nonblocking(size, 10)]
            except pexpect.EOF:
                r = [1]
            except pexpect.TIMEOUT:
                r = [2]
            obs.append([True, r, state(), len(box['sched'])])
    finally:
        pp.time = saved
    return obs


def gen_acts(rng):
    acts = []
    for _ in range(rng.choice([0, 1, 1, 2, 3])):
        x = rng.random()
        if x < 0.35:
            acts.append(('w', bytes(rng.choice(b'ab') for _ in range(rng.randint(1, 5)))))
        elif x < 0.85:
            acts.append(('t', rng.choice([0, 1, 2, 4, 2000])))
        elif x < 0.95:
            acts.append(('exit',))
        else:
            acts.append(('hangup',))
    return acts


def gen_ops(rng):
    ops = []
    for _ in range(rng.randint(1, 6)):
        if rng.random() < 0.3:
            ops.append(('env', gen_acts(rng)))
        else:
            ops.append(('read', rng.choice([0, 1, 2, 3, 5, 8, 2000]), [(gen_acts(rng), rng.random() < 0.25) for _ in range(rng.randint(0, 5))]))
    return ops


def coq_acts(acts):
    out = []
    for a in acts:
        if a[0] == 'w':
            out.append('(EPeer (PWrite %s))' % ctext(a[1]))
        elif a[0] == 'exit':
            out.append('(EPeer PExit)')
        elif a[0] == 'hangup':
            out.append('(EPeer PHangup)')
        else:
            out.append('(EThread %s)' % cnat(a[1]))
    return clist(out)


def coq_ops(ops):
    out = []
    for o in ops:
        if o[0] == 'env':
            out.append('(inr %s)' % coq_acts(o[1]))
        else:
            out.append('(inl (%s, %s))' % (cnat(o[1]), clist(['(%s, %s)' % (coq_acts(a), cbool(e)) for a, e in o[2]])))
    return clist(out)


def thread_run(pexpect, reads, encoding=None):
    """the REAL _read_incoming (called directly, not in a thread) on scripted os.read results; -> queue contents"""
    import pexpect.popen_spawn as pp
    import queue
    from pexpect.spawnbase import SpawnBase
    sp = pp.PopenSpawn.__new__(pp.PopenSpawn)
    SpawnBase.__init__(sp, timeout=30, encoding=encoding)
    sp._read_queue = queue.Queue()
    script = list(reads)

    class Out:
        def fileno(self_):
            return 987

    class Proc:
        stdout = Out()
    sp.proc = Proc()
    real = os.read

    def rd(fd, n):
        if fd != 987:
            return real(fd, n)
        assert n == 1024
        if not script:
            return b''
        x = script.pop(0)
        if x is None:
            raise OSError(5, 'scripted')
        return x
    os.read = rd
    try:
        sp._read_incoming()
    finally:
        os.read = real
        sp.closed = True
    out = []
    while not sp._read_queue.empty():
        x = sp._read_queue.get_nowait()
        # the queue carries what os.read returned (bytes) or the end-of-file marker: anything else is reported as it is
        out.append(x if (x is None or isinstance(x, bytes)) else ('not-bytes', repr(x)))
    return out, len(script)
