"""Scripted-syscall harness for the read_nonblocking implementations (pty, fd, socket): the REAL functions run with
select/poll, os.read, isalive and socket.recv answered by a Python copy of the kernel-endpoint model of
coq/Transport/Model.v, the peer's actions being applied just before each system call according to a schedule."""
import os
import socket as socket_mod

FAKE_FD = 987


class WouldWaitForever(Exception):
    """the code under test asked the kernel to wait without limit while nothing was (or would become) ready"""


class Sim:
    def __init__(self, buf, is_open, alive, sched):
        self.buf = bytes(buf)
        self.open = is_open
        self.alive = alive
        self.sched = list(sched)
        self.log = []
        self.waits = []            # the timeouts handed to select / poll / recv (C05: they must fit the caller's budget)

    def _next(self):
        if self.sched:
            return self.sched.pop(0)
        return ([], 0)

    def _peer(self, acts):
        for a in acts:
            if a[0] == 'w':
                if self.open and self.alive:
                    self.buf += a[1]
            elif a[0] == 'exit':
                self.open = False
                self.alive = False
            elif a[0] == 'hangup':
                self.open = False

    def ready(self):
        return bool(self.buf) or not self.open

    def poll(self):
        acts, _ = self._next()
        self._peer(acts)
        self.log.append('poll')
        return self.ready()

    def read(self, n):
        acts, j = self._next()
        self._peer(acts)
        self.log.append('read')
        if not self.buf:
            if self.open:
                return 'block'
            return 'eof'
        m = min(n, j + 1, len(self.buf))
        d, self.buf = self.buf[:m], self.buf[m:]
        return d

    def isalive(self):
        acts, _ = self._next()
        self._peer(acts)
        self.log.append('alive')
        return self.alive

    def state(self):
        return [self.buf, self.open, self.alive]


class FakePty:
    def __init__(self, sim):
        self.sim = sim
        self.flag_eof = False
        self.status = self.exitstatus = self.signalstatus = None
        self.pid = 4242
        self.fd = FAKE_FD

    def isalive(self):
        return self.sim.isalive()


class Patched:
    """context manager installing the interposers"""

    def __init__(self, pexpect, sim, fd):
        self.pexpect, self.sim, self.fd = pexpect, sim, fd

    def __enter__(self):
        import pexpect.pty_spawn as ps
        import pexpect.fdpexpect as fp
        sim, fd = self.sim, self.fd
        self.saved = (ps.select_ignore_interrupts, ps.poll_ignore_interrupts, fp.select_ignore_interrupts,
                      fp.poll_ignore_interrupts, os.read)
        real_read = os.read

        def sel(r, w, x, timeout=None):
            if fd in r:
                sim.waits.append(timeout)
                ok = sim.poll()
                if not ok and timeout is None:
                    raise WouldWaitForever()
                return ([fd] if ok else [], [], [])
            return self.saved[0](r, w, x, timeout)

        def pol(fds, timeout=None):
            if fd in fds:
                sim.waits.append(timeout)
                ok = sim.poll()
                if not ok and timeout is None:
                    raise WouldWaitForever()
                return [fd] if ok else []
            return self.saved[1](fds, timeout)

        def rd(f, n):
            if f == fd:
                r = sim.read(n)
                if r == 'eof':
                    return b''
                if r == 'block':
                    raise BlockingIOError(11, 'model: read would block')
                return r
            return real_read(f, n)
        ps.select_ignore_interrupts = sel
        ps.poll_ignore_interrupts = pol
        fp.select_ignore_interrupts = sel
        fp.poll_ignore_interrupts = pol
        os.read = rd
        return self

    def __exit__(self, *a):
        import pexpect.pty_spawn as ps
        import pexpect.fdpexpect as fp
        (ps.select_ignore_interrupts, ps.poll_ignore_interrupts, fp.select_ignore_interrupts,
         fp.poll_ignore_interrupts, os.read) = self.saved


class FakeSocket:
    def __init__(self, sim):
        self.sim = sim
        self._timeout = 12.5
        self.timeouts_set = []

    def fileno(self):
        return FAKE_FD

    def gettimeout(self):
        return self._timeout

    def settimeout(self, t):
        self._timeout = t
        self.timeouts_set.append(t)

    def recv(self, n):
        self.sim.waits.append(self._timeout)
        if not self.sim.poll():
            if self._timeout == 0:
                raise BlockingIOError(11, 'would block')
            if self._timeout is None:
                raise WouldWaitForever()
            raise socket_mod.timeout('timed out')
        r = self.sim.read(n)
        if r == 'eof':
            return b''
        if r == 'block':
            raise BlockingIOError(11, 'model: read would block')
        return r


def make_reader(pexpect, which, sim, use_poll=False, encoding=None):
    """returns (spawn-like object, context manager to run its read_nonblocking under)"""
    if which == 0:
        c = pexpect.spawn(None, timeout=30, use_poll=use_poll, encoding=encoding)
        c.ptyproc = FakePty(sim)
        c.child_fd = FAKE_FD
        c.closed = False
        c.pid = 4242
        return c, Patched(pexpect, sim, FAKE_FD)
    if which == 1:
        from pexpect import fdpexpect
        r, w = os.pipe()
        c = fdpexpect.fdspawn(r, timeout=30, use_poll=use_poll, encoding=encoding)
        c._verif_fds = (r, w)
        return c, Patched(pexpect, sim, r)
    from pexpect import socket_pexpect
    sock = FakeSocket(sim)
    c = socket_pexpect.SocketSpawn(sock, timeout=30, use_poll=use_poll, encoding=encoding)
    return c, Patched(pexpect, sim, FAKE_FD)


def run_calls(pexpect, which, sim, calls, use_poll=False, encoding=None, timeouts=None):
    """calls: [(size, t0)]; returns observations [[res], [buf, open, alive], sched_left]"""
    c, ctxm = make_reader(pexpect, which, sim, use_poll, encoding)
    out = []
    c._verif_timeout_changed = None
    c._verif_waits = []
    c._verif_sock = []          # per socket read: (own timeout afterwards, settimeout calls), in ms
    own = [12.5, 7.25, 3.5, None, 40.0, 0.0]
    with ctxm:
        for i, (size, t0) in enumerate(calls):
            if which == 2:
                # the application changes the socket's own timeout between reads: each read must leave it as it found it
                c.socket._timeout = own[i % len(own)]
                del c.socket.timeouts_set[:]
            del sim.waits[:]
            tmo = (0 if t0 else 5) if timeouts is None else timeouts[i]
            try:
                d = c.read_nonblocking(size, timeout=tmo)
                r = [0, d]
            except pexpect.EOF:
                r = [1]
            except pexpect.TIMEOUT:
                r = [2]
            except BlockingIOError:
                r = [3]
            except WouldWaitForever:
                r = [4]
            out.append([r, sim.state(), len(sim.sched)])
            c._verif_waits.append((tmo, list(sim.waits), r[0]))
            if which == 2:
                ms = lambda v: None if v is None else int(round(v * 1000))
                c._verif_sock.append([ms(c.socket.gettimeout()), [ms(v) for v in c.socket.timeouts_set]])
            if which == 2 and c.socket.gettimeout() != own[i % len(own)] and c._verif_timeout_changed is None:
                c._verif_timeout_changed = (own[i % len(own)], c.socket.gettimeout())
    if which == 1:
        for f in c._verif_fds:
            try:
                os.close(f)
            except OSError:
                pass
    return out, c


SOCK_OWN_MS = [12500, 7250, 3500, None, 40000, 0]


def gen_sched(rng, n, alpha=b'ab'):
    s = []
    for _ in range(n):
        acts = []
        x = rng.random()
        if x < 0.35:
            acts.append(('w', bytes(rng.choice(alpha) for _ in range(rng.randint(1, 4)))))
        if rng.random() < 0.12:
            acts.append(('exit',))
        elif rng.random() < 0.04:
            acts.append(('hangup',))
        if rng.random() < 0.1:
            acts.append(('w', bytes(rng.choice(alpha) for _ in range(rng.randint(1, 3)))))
        s.append((acts, rng.choice([0, 0, 1, 2, 5, 100])))
    return s


def coq_kern(buf, is_open, alive):
    from .common import ctext, cbool
    return '{| kbuf := %s; kopen := %s; kalive := %s |}' % (ctext(buf), cbool(is_open), cbool(alive))


def coq_sched(s):
    from .common import ctext, clist, cnat
    ents = []
    for acts, j in s:
        a = []
        for x in acts:
            a.append('(PWrite %s)' % ctext(x[1]) if x[0] == 'w' else ('PExit' if x[0] == 'exit' else 'PHangup'))
        ents.append('(%s, %s)' % (clist(a), cnat(j)))
    return clist(ents)


def gen_sched_unicode(rng, n, exits=True):
    """a peer that writes multi-byte characters whole or in PIECES (a character split over two writes, the second coming later or
    never)"""
    chars = ['é'.encode(), '☃'.encode(), b'a', '😀'.encode()]
    sched = []
    for _ in range(n):
        acts = []
        if rng.random() < 0.45:
            ch = rng.choice(chars)
            k = rng.randint(1, len(ch))
            acts.append(('w', ch[:k]))
            if k < len(ch):
                sched.append((acts, rng.choice([0, 1, 5])))
                for _ in range(rng.choice([0, 0, 2, 6])):          # silence in the middle of the character
                    sched.append(([], 0))
                acts = [('w', ch[k:])]
        if exits and rng.random() < 0.08:
            acts.append(('exit',))
        sched.append((acts, rng.choice([0, 0, 1, 2, 5, 100])))
    return sched
