"""A real REPL child with known output for C16: the machine of harness/repl_machine.py behind a pty.
argv: prompt cont orig_prompt seed.  Responses are written in pieces (cut positions derived from the seed, also inside the
prompt and inside multi-byte characters) with short pauses so that the reader sees several reads."""
import os
import random
import signal
import sys
import time

sys.path.insert(0, os.path.dirname(os.path.abspath(__file__)))
from repl_machine import Machine  # noqa: E402


def main():
    prompt, cont, orig, seed = sys.argv[1], sys.argv[2], sys.argv[3], int(sys.argv[4])
    rng = random.Random(seed)
    m = Machine(prompt, cont)
    out = sys.stdout.buffer

    def emit(text):
        data = text.replace('\r\n', '\n').encode('utf-8')
        pos = 0
        pieces = rng.choice([1, 1, 2, 3, 5])
        cuts = sorted(set([rng.randint(0, len(data)) for _ in range(pieces - 1)] + ([max(0, len(data) - rng.randint(1, 8))] if rng.random() < 0.6 else [])))
        for c in cuts + [len(data)]:
            if c > pos:
                out.write(data[pos:c])
                out.flush()
                pos = c
                time.sleep(0.004)
    emit('fake repl 1.0\r\n' + orig)
    inp = sys.stdin.buffer
    while True:
        try:
            line = inp.readline()
            if not line:
                return
            l = line.decode('utf-8').rstrip('\n')
            if l.startswith('w'):
                time.sleep(2.2)                     # a line that takes longer than the spawn object's default timeout
            o, ok = m.step(l)
            emit(o + (prompt if ok else cont))
        except KeyboardInterrupt:
            emit(m.interrupt() + prompt)


if __name__ == '__main__':
    main()
