"""A real REPL child with known output for C16: the machine of harness/repl_machine.py behind a pty.
argv: prompt cont orig_prompt seed.  Responses are written in pieces (cut positions derived from the seed, also inside the
prompt and inside multi-byte characters) with short pauses so that the reader sees several reads."""
import os
import random
import select
import signal
import sys
import time

sys.path.insert(0, os.path.dirname(os.path.abspath(__file__)))
from repl_machine import Machine  # noqa: E402


def main():
    prompt, cont, orig, seed = sys.argv[1], sys.argv[2], sys.argv[3], int(sys.argv[4])
    rng = random.Random(seed)
    m = Machine(prompt, cont)
    out = sys.stdout.buffer

    def emit(text):
        data = text.replace('\r\n', '\n').encode('utf-8')
        pos = 0
        pieces = rng.choice([1, 1, 2, 3, 5])
        cuts = sorted(set([rng.randint(0, len(data)) for _ in range(pieces - 1)] + ([max(0, len(data) - rng.randint(1, 8))] if rng.random() < 0.6 else [])))
        for c in cuts + [len(data)]:
            if c > pos:
                out.write(data[pos:c])
                out.flush()
                pos = c
                time.sleep(0.004)
    # An interrupt must never be lost: a SIGINT that arrives between two bytecodes of the loop below and the blocking read would
    # otherwise only be noticed when the next line arrives (the handler has run, the read sleeps on) - the wrapper would then see
    # a REPL that does not answer its interrupt, which is this child's fault, not pexpect's.  So the handler only sets a flag and
    # the wake-up descriptor makes the wait below return: the wait is on the terminal AND on that descriptor.
    rfd, wfd = os.pipe()
    os.set_blocking(rfd, False)
    os.set_blocking(wfd, False)
    flag = {'int': False}

    def on_int(signum, frame):
        flag['int'] = True
    signal.signal(signal.SIGINT, on_int)
    signal.set_wakeup_fd(wfd, warn_on_full_buffer=False)
    emit('fake repl 1.0\r\n' + orig)
    pending = b''
    while True:
        if flag['int']:
            flag['int'] = False
            try:
                while os.read(rfd, 512):
                    pass
            except BlockingIOError:
                pass
            pending = b''
            emit(m.interrupt() + prompt)
            continue
        if b'\n' in pending:
            line, pending = pending.split(b'\n', 1)
            l = line.decode('utf-8')
            if l.startswith('w'):
                time.sleep(2.2)                     # a line that takes longer than the spawn object's default timeout
            o, ok = m.step(l)
            emit(o + (prompt if ok else cont))
            continue
        ready, _, _ = select.select([0, rfd], [], [])
        if 0 in ready and not flag['int']:
            data = os.read(0, 65536)
            if not data:
                return
            pending += data


if __name__ == '__main__':
    main()
