"""stand-alone probe (run in a process of its own): the application ignores SIGCHLD, so the kernel reaps children by itself and
pexpect cannot learn their fate.  It may then raise - but whatever it reports as terminated / exitstatus / signalstatus must
still be the truth, never an invented status.  Prints one JSON list: [fate, observer, outcome]."""
import json
import signal
import sys
import time

import pexpect

signal.signal(signal.SIGCHLD, signal.SIG_IGN)
out = []
for fate, cmd in (('exit 3', 'sleep 0.2; exit 3'), ('signal 15', 'sleep 0.2; kill -TERM $$'), ('exit 0', 'sleep 0.2; exit 0')):
    for observer in ('isalive', 'eof+isalive', 'wait', 'eof+close'):
        c = pexpect.spawn('/bin/sh', ['-c', cmd], timeout=5)
        res = {}
        try:
            if observer == 'isalive':
                t0 = time.time()
                while c.isalive() and time.time() - t0 < 3:
                    time.sleep(0.05)
            elif observer == 'eof+isalive':
                c.expect(pexpect.EOF)
                t0 = time.time()
                while c.isalive() and time.time() - t0 < 3:
                    time.sleep(0.05)
            elif observer == 'wait':
                res['wait'] = c.wait()
            else:
                c.expect(pexpect.EOF)
                c.close()
        except pexpect.ExceptionPexpect as e:
            res['raised'] = type(e).__name__
        except Exception as e:
            res['raised'] = repr(e)
        res.update(terminated=c.terminated, exitstatus=c.exitstatus, signalstatus=c.signalstatus)
        out.append([fate, observer, res])
        try:
            c.close(force=True)
        except Exception:
            pass
print(json.dumps(out))
